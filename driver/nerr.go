package main

import (
	"encoding/json"
	"errors"
	"fmt"
	"io"
	"math"
	"strconv"
	"strings"

	"github.com/nikunjy/rules/parser"
)

// attached values of NestedError histories (tag -> Go value)
func attached(tag int) interface{} {
	switch tag {
	case 0:
		return 42
	case 1:
		return true
	case 2:
		return nil
	case 3:
		return []interface{}{1, "a"}
	case 4:
		return map[string]interface{}{"b": 1, "a": "x"}
	case 5:
		return 1.5
	case 6:
		return func() {}
	case 7:
		return make(chan int)
	case 8:
		return math.NaN()
	case 9:
		return math.Inf(1)
	case 10:
		return okStringer{"s"}
	case 11:
		return []int{1, 2}
	case 12:
		return map[string]interface{}{"f": func() {}}
	case 13:
		return &plainStruct{A: 2}
	case 14:
		return []byte("ab")
	case 15:
		return int64(math.MaxInt64)
	case 16:
		return 1e21
	case 17:
		return panicStringer{}
	case 18: // a typed nil pointer whose Error() would dereference it: encodes as null, must never be called
		return (*derefErr)(nil)
	case 19: // an error value: encodes as {} like any struct without exported fields
		return errors.New("attached error")
	case 20:
		return &derefErr{msg: "m"}
	case 21: // values that are themselves ErrVals: a later Set replaces the earlier value, it does not merge into it
		return parser.ErrVals{"a": 1}
	case 22:
		return parser.ErrVals{"b": 2, "c": "x"}
	case 23:
		return map[string]interface{}{"b": 2}
	case 25: // an ErrVals that contains itself
		ev := parser.ErrVals{"k": 1}
		ev["self"] = ev
		return ev
	case 26: // a value whose own MarshalJSON fails
		return failingMarshaler{}
	case 27:
		return json.RawMessage("{not json")
	case 28:
		return []interface{}{1, failingMarshaler{}}
	}
	return nil
}

type failingMarshaler struct{}

func (failingMarshaler) MarshalJSON() ([]byte, error) { return nil, errors.New("cannot be encoded") }

type derefErr struct{ msg string }

func (e *derefErr) Error() string { return e.msg }

func doNerr(id string, x *sexp) (out string) {
	defer func() {
		if r := recover(); r != nil {
			out = id + " out=PANIC"
		}
	}()
	causeText, ok := hexBytes(x.list[2].atom)
	if !ok || !x.list[3].isL || !x.list[4].isL {
		return id + " BADCASE"
	}
	var cause error = errors.New(causeText)
	// a cause that itself wraps another error (its text is the same): Original() stops at the cause, it does not unwrap it
	if strings.HasSuffix(causeText, ": unexpected EOF") {
		cause = fmt.Errorf("%s: %w", strings.TrimSuffix(causeText, ": unexpected EOF"), io.ErrUnexpectedEOF)
	} else if strings.HasSuffix(causeText, ": invalid syntax") {
		cause = &strconv.NumError{Func: "ParseInt", Num: "x", Err: strconv.ErrSyntax}
		if cause.Error() != causeText {
			cause = errors.New(causeText)
		}
	}
	// causes of unusual Go types, same text: a slice-typed error (not comparable, not hashable), an error with its own Format method
	if strings.HasSuffix(causeText, " (slice)") {
		cause = sliceErr{causeText}
	} else if strings.HasSuffix(causeText, " (formatter)") {
		cause = fmtErr{causeText}
	}
	var layers []*parser.NestedError
	var cur error = cause
	for _, m := range x.list[3].list {
		msg, ok := hexBytes(m.atom)
		if !ok {
			return id + " BADCASE"
		}
		ne := &parser.NestedError{Err: cur, Msg: msg}
		layers = append(layers, ne)
		cur = ne
	}
	oracle := "ok"
	var outs []string
	var callerMaps []parser.ErrVals
	var callerSizes []int
	const callerMark = "changed by the caller after Set"
	for _, op := range x.list[4].list {
		if !op.isL || len(op.list) < 2 {
			return id + " BADCASE"
		}
		k, err := strconv.Atoi(op.list[1].atom)
		if err != nil || k >= len(layers) {
			return id + " BADCASE"
		}
		switch op.list[0].atom {
		case "error":
			outs = append(outs, "t"+hexOf(layers[k].Error()))
		case "orig":
			o := layers[k].Original()
			if !sameError(o, cause) {
				outs = append(outs, "oDIFF")
			} else {
				outs = append(outs, "o"+hexOf(o.Error()))
			}
		case "set":
			vals := parser.ErrVals{}
			for _, kvx := range op.list[2:] {
				key, ok := hexBytes(kvx.list[0].atom)
				if !ok {
					return id + " BADCASE"
				}
				v := kvx.list[1]
				switch v.list[0].atom {
				case "s":
					s, _ := hexBytes(v.list[1].atom)
					vals[key] = s
				case "v":
					tag, _ := strconv.Atoi(v.list[1].atom)
					val := attached(tag)
					if tag == 24 {
						// the outermost layer of this very chain, attached to an inner one: the chain then contains itself
						vals[key] = layers[len(layers)-1]
						continue
					}
					vals[key] = val
					// the encodability oracle given to the model must be what json.Marshal says
					data, err := json.Marshal(val)
					want := v.list[2].atom
					if err != nil {
						if want != "none" {
							oracle = "bad"
						}
					} else if want != "x"+hexOf(string(data)) {
						oracle = "bad"
					}
				}
			}
			before := len(vals)
			ret := layers[k].Set(vals)
			if ret != layers[k] || len(vals) != before {
				outs = append(outs, "sBAD")
			} else {
				outs = append(outs, "s")
			}
			// the map stays the caller's: the caller changes it after Set (no effect on the error
			// if Set merged a copy) and it must never be written by the library
			for key := range vals {
				vals[key] = callerMark
			}
			vals["~caller"] = callerMark
			callerMaps = append(callerMaps, vals)
			callerSizes = append(callerSizes, len(vals))
		default:
			return id + " BADCASE"
		}
		for i, m := range callerMaps {
			intact := len(m) == callerSizes[i]
			for _, v := range m {
				if s, ok := v.(string); !ok || s != callerMark {
					intact = false
				}
			}
			if !intact {
				outs[len(outs)-1] += "+sALIAS"
			}
		}
	}
	return id + " out=" + strings.Join(outs, ";") + " oracle=" + oracle
}

type sliceErr []string

func (s sliceErr) Error() string { return strings.Join(s, "") }

// fmtErr prints differently through fmt verbs than through Error()
type fmtErr struct{ text string }

func (f fmtErr) Error() string { return f.text }
func (f fmtErr) Format(st fmt.State, verb rune) {
	fmt.Fprintf(st, "FORMATTED<%c>(%s)", verb, f.text)
}

func sameError(a, b error) bool {
	sa, oka := a.(sliceErr)
	sb, okb := b.(sliceErr)
	if oka || okb {
		return oka && okb && len(sa) == len(sb) && (len(sa) == 0 || &sa[0] == &sb[0])
	}
	return a == b
}
