// driver — runs the implementation (/repo, through its exported API only) on a
// case file and prints one canonical observation line per case.  The same case
// file is given to the extracted Coq model (runner); the orchestrator compares
// the lines field by field.
package main

import (
	"bufio"
	"crypto/sha256"
	"database/sql"
	"encoding/hex"
	"encoding/json"
	"errors"
	"fmt"
	"math"
	"math/big"
	"os"
	"reflect"
	"strconv"
	"strings"
	"time"

	"github.com/antlr4-go/antlr/v4"
	"github.com/blang/semver"
	"github.com/nikunjy/rules"
	"github.com/nikunjy/rules/parser"
)

// ---------- S-expressions ----------
type sexp struct {
	atom string
	list []*sexp
	isL  bool
}

func parseSexp(line string) (*sexp, error) {
	var stack [][]*sexp
	var cur []*sexp
	i := 0
	for i < len(line) {
		c := line[i]
		switch {
		case c == '(':
			stack = append(stack, cur)
			cur = nil
			i++
		case c == ')':
			if len(stack) == 0 {
				return nil, errors.New("unbalanced )")
			}
			l := &sexp{list: cur, isL: true}
			cur = append(stack[len(stack)-1], l)
			stack = stack[:len(stack)-1]
			i++
		case c == ' ' || c == '\t' || c == '\r' || c == '\n':
			i++
		default:
			j := i
			for j < len(line) && !strings.ContainsRune("() \t\r\n", rune(line[j])) {
				j++
			}
			cur = append(cur, &sexp{atom: line[i:j]})
			i = j
		}
	}
	if len(stack) != 0 || len(cur) != 1 {
		return nil, errors.New("bad line")
	}
	return cur[0], nil
}

func hexBytes(a string) (string, bool) {
	if len(a) == 0 || a[0] != 'x' || len(a)%2 != 1 {
		return "", false
	}
	out := make([]byte, 0, len(a)/2)
	for i := 1; i < len(a); i += 2 {
		v, err := strconv.ParseUint(a[i:i+2], 16, 8)
		if err != nil {
			return "", false
		}
		out = append(out, byte(v))
	}
	return string(out), true
}

// ---------- the value catalogue ----------
type okStringer struct{ s string }

func (o okStringer) String() string { return o.s }

// sameEvaluatorStringer re-enters the evaluator that is calling it: the inner call must not disturb the outer one
type sameEvaluatorStringer struct{ s string }

func (r sameEvaluatorStringer) String() string {
	if ev := currentEvaluator; ev != nil {
		currentEvaluator = nil // one level only
		func() {
			defer func() { recover() }()
			// two inner calls on the same evaluator: one on an empty object (comparisons stay undecided), one on the outer object with
			// this value replaced by its text (decided like the outer call); the order depends on the text
			if len(r.s)%2 == 1 {
				ev.Process(currentPlainObject)
				ev.Process(map[string]interface{}{})
			} else {
				ev.Process(map[string]interface{}{})
				ev.Process(currentPlainObject)
			}
		}()
		currentEvaluator = ev
	}
	// the rule that is being evaluated, evaluated again from inside it (a tree of nodes applying the caller's rule to their children)
	if rule := currentRule; rule != "" {
		currentRule = ""
		func() {
			defer func() { recover() }()
			rules.Evaluate(rule, currentPlainObject)
			parser.Evaluate(rule, currentPlainObject)
			if e2, err := parser.NewEvaluator(rule); err == nil && e2 != nil {
				e2.Process(currentPlainObject)
			}
		}()
		currentRule = rule
	}
	return r.s
}

var currentRule string

// plainCopy: the object with every sameEvaluatorStringer replaced by its text
func plainCopy(v interface{}) interface{} {
	switch t := v.(type) {
	case map[string]interface{}:
		if t == nil {
			return t
		}
		c := make(map[string]interface{}, len(t))
		for k, e := range t {
			c[k] = plainCopy(e)
		}
		return c
	case sameEvaluatorStringer:
		return t.s
	}
	return v
}

var currentPlainObject map[string]interface{}

// panics with the library's own sentinel error (and with an error that wraps it)
type invopPanicStringer struct{ wrapped bool }

func (p invopPanicStringer) String() string {
	if p.wrapped {
		panic(fmt.Errorf("inner rule failed: %w", parser.ErrInvalidOperation))
	}
	panic(parser.ErrInvalidOperation)
}

type slowStringer struct{ s string }

func (v slowStringer) String() string {
	time.Sleep(2200 * time.Millisecond)
	return v.s
}

type treeT []treeT
type mapT map[string]mapT
type ptrT *ptrT

// a Stringer that is an encoding.TextMarshaler too (like time.Time): the text of a Stringer is what String() returns
type stringerAndMarshaler struct{ s string }

func (v stringerAndMarshaler) String() string               { return v.s }
func (v stringerAndMarshaler) MarshalText() ([]byte, error) { return []byte("T:" + v.s), nil }
func (v stringerAndMarshaler) MarshalJSON() ([]byte, error) { return []byte(`"J:` + v.s + `"`), nil }

// a value of the caller that adds a key to the caller's own top-level map when it is printed (no model counterpart: used only to
// compare the three entry points with each other)
type mutatingStringer struct {
	s    string
	home map[string]interface{}
}

func (m mutatingStringer) String() string {
	if m.home != nil {
		m.home["added"] = 1
	}
	return m.s
}

type valueWithPtrString struct{ s string }

func (v *valueWithPtrString) String() string { return v.s }

// reentrantStringer evaluates rules of its own inside String(): a lock held around user code deadlocks here
type reentrantStringer struct{ s string }

func (r reentrantStringer) String() string {
	obj := map[string]interface{}{"q": 1, "s": okStringer{"a"}}
	const rule = `q eq 1 and s eq "a"`
	ok1, _ := rules.Evaluate(rule, obj)
	ok2 := parser.Evaluate(rule, obj)
	ev, err := parser.NewEvaluator(rule)
	ok3 := false
	if err == nil {
		ok3, _ = ev.Process(obj)
	}
	if ok1 && ok2 && ok3 {
		return r.s
	}
	return r.s + "?"
}

type sliceStringer []string

func (s sliceStringer) String() string { return strings.Join(s, "") }

type panicStringer struct{}

func (panicStringer) String() string { panic("String() of a hostile value") }

// String() panics with the value itself: the recovered panic value is again a Stringer
// whose String() panics (fmt gives up on such nested panics and re-panics)
type selfPanicStringer struct{}

func (s selfPanicStringer) String() string { panic(s) }

type ptrStringer struct{ s string }

func (p *ptrStringer) String() string { return p.s } // nil receiver: nil dereference

type namedMap map[string]interface{}
type namedString string
type plainStruct struct {
	A int
	b string
}

func other(tag int) interface{} {
	switch tag {
	case 0:
		return namedMap{"a": 1}
	case 1:
		return []interface{}{1, "a"}
	case 2:
		return plainStruct{A: 1, b: "x"}
	case 3:
		return func() {}
	case 4:
		return make(chan int)
	case 5:
		return (*plainStruct)(nil)
	case 6:
		return uint8(7)
	case 7:
		return float32(1.5)
	case 8:
		return namedString("abc")
	case 9:
		return []int{1}
	case 10:
		return map[string]int{"a": 1}
	case 11:
		return uint64(1)
	case 12:
		return complex(1, 2)
	case 13:
		return []byte("ab")
	case 14:
		v := 1
		return &v
	case 15:
		return [2]int{1, 2}
	case 16:
		return &plainStruct{A: 2}
	case 17:
		return []string{"1.0.0"}
	case 18:
		return map[interface{}]interface{}{1: 2}
	case 19:
		return uint(3)
	case 20:
		return int16(3)
	case 21:
		return 'x' // rune = int32?  no: rune IS int32 -> not "other"; keep distinct below
	case 22: // what YAML decoders produce: not a map[string]interface{}
		return map[interface{}]interface{}{"name": "bob", "n": 1, "a": map[interface{}]interface{}{"b": 1}}
	case 23:
		return map[string]string{"name": "bob", "n": "1"}
	case 24: // the same kinds, large: thresholds of "convert once" / "sort once" optimisations
		m := map[interface{}]interface{}{8080: "http", "name": "bob", "n": 1}
		for i := 0; i < 12; i++ {
			m[fmt.Sprintf("k%d", i)] = i
		}
		return m
	case 25:
		m := map[string]string{"name": "bob"}
		for i := 0; i < 70; i++ {
			m[fmt.Sprintf("k%d", i)] = strconv.Itoa(i)
		}
		return m
	case 26:
		l := make([]interface{}, 0, 40)
		for i := 0; i < 40; i++ {
			l = append(l, (i*7)%40)
		}
		return l
	case 27:
		l := make([]string, 0, 40)
		for i := 0; i < 40; i++ {
			l = append(l, fmt.Sprintf("v%d", (i*7)%40))
		}
		return l
	case 28:
		return strings.Repeat("Long String Attribute ", 8) // 176 bytes
	case 29: // Go arrays (not slices): unaddressable inside an interface
		return [65]int{1, 2, 3}
	case 30:
		return [4]string{"a", "b"}
	case 31:
		l := make([]interface{}, 1000)
		for i := range l {
			l[i] = i
		}
		return l
	case 32:
		return [1000]byte{1}
	case 35: // lazily computed attributes: functions are values like any other, they are never called
		return func() interface{} { return nil }
	case 36:
		return func() interface{} { return true }
	case 37:
		return func() interface{} { return map[string]interface{}{"admin": true} }
	case 38: // String() is declared on the pointer type; the value itself is stored: NOT a fmt.Stringer
		return valueWithPtrString{"abc"}
	case 39: // YAML-style maps whose KEYS are Stringers that panic / nil pointers whose String dereferences
		return map[interface{}]interface{}{panicStringer{}: 1}
	case 40:
		return map[interface{}]interface{}{(*ptrStringer)(nil): 1, "ok": 2}
	case 41:
		return []interface{}{map[string]interface{}{"inner": map[interface{}]interface{}{panicStringer{}: "v"}}}
	case 42:
		return []interface{}{1, map[interface{}]interface{}{(*ptrStringer)(nil): "v"}}
	case 43:
		return map[interface{}]interface{}{selfPanicStringer{}: map[interface{}]interface{}{panicStringer{}: 1}}
	case 44: // lists of objects: a path never steps into a list
		return []interface{}{map[string]interface{}{"y": 1, "name": "bob", "n": 1, "a": map[string]interface{}{"b": 1}, "primary": true}}
	case 45:
		return []map[string]interface{}{{"y": 1, "name": "bob", "n": 1, "primary": true}}
	case 46: // a sub-slice with spare capacity next to the slice that owns the backing array (an append through the first writes into the second)
		all := []string{"admin", "ops", "root"}
		return []interface{}{all[:1], "guest", all}
	case 47: // a decoded JSON array with nulls in the middle (in-place compaction would move its elements)
		return []interface{}{7, nil, 9, nil, "a"}
	case 48: // the library's own error type as a value: its Error() method stores into its Vals
		return &parser.NestedError{Msg: "m", Err: errors.New("e")}
	case 49:
		return []interface{}{nil, "a", nil, "b"}
	case 50: // acyclic values of named types that refer to themselves
		return treeT{treeT{}, treeT{treeT{}}}
	case 51:
		return mapT{"a": mapT{}, "b": mapT{"c": nil}}
	case 52:
		var p ptrT
		return &p
	case 53: // database/sql null wrappers (driver.Valuer): structs like any other, never unwrapped
		return sql.NullBool{}
	case 54:
		return sql.NullBool{Bool: true, Valid: true}
	case 55:
		return sql.NullString{String: "abc", Valid: true}
	case 56:
		return sql.NullInt64{Int64: 1, Valid: true}
	case 57: // an error value (no String method) that wraps the library's sentinel
		return fmt.Errorf("earlier evaluation: %w", parser.ErrInvalidOperation)
	case 58: // a reader: reading it would use it up
		return strings.NewReader("abc")
	case 59:
		return bufio.NewReader(strings.NewReader("abc"))
	case 60: // typed nil pointers of error types of the standard library and of the library itself
		return (*strconv.NumError)(nil)
	case 61: // a decoded JSON array of 40 arrays (elements that cannot be map keys)
		l := make([]interface{}, 40)
		for i := range l {
			l[i] = []interface{}{i, map[string]interface{}{"k": i}}
		}
		return l
	case 62: // a pointer to a string is not a string
		s := "1.10.0"
		return &s
	case 63: // a struct with an unexported field and a value JSON cannot encode
		return struct {
			Value float64
			unit  string
		}{math.Inf(1), "C"} // (not NaN: the deep comparison of the driver would call the object changed)
	case 33: // a list of strings with capitals (in-place lower-casing would show)
		return []string{"Admin", "ROOT", "Ops"}
	case 34:
		return []interface{}{"Admin", "ROOT", 3, map[string]interface{}{"K": "V"}}
	}
	return struct{}{}
}

const otherTags = 21 // tags 0..20 are genuinely "other"; 21 is never generated

func buildVal(x *sexp) (interface{}, error) {
	if !x.isL {
		switch x.atom {
		case "nil":
			return nil, nil
		case "strpanic":
			return panicStringer{}, nil
		case "strnilptr":
			return (*ptrStringer)(nil), nil
		case "strpanicinvop":
			return invopPanicStringer{false}, nil
		case "strpanicinvopw":
			return invopPanicStringer{true}, nil
		case "strselfpanic":
			return selfPanicStringer{}, nil
		case "nilmap":
			return map[string]interface{}(nil), nil
		}
		return nil, fmt.Errorf("bad value atom %q", x.atom)
	}
	if len(x.list) == 0 || x.list[0].isL {
		return nil, errors.New("bad value")
	}
	t := x.list[0].atom
	if t == "m" {
		m := make(map[string]interface{})
		for _, kv := range x.list[1:] {
			if !kv.isL || len(kv.list) != 2 || kv.list[0].isL {
				return nil, errors.New("bad map entry")
			}
			k, ok := hexBytes(kv.list[0].atom)
			if !ok {
				return nil, errors.New("bad key")
			}
			if _, dup := m[k]; dup {
				continue // the model's lookup finds the first binding
			}
			v, err := buildVal(kv.list[1])
			if err != nil {
				return nil, err
			}
			m[k] = v
		}
		return m, nil
	}
	if len(x.list) != 2 || x.list[1].isL {
		return nil, errors.New("bad value")
	}
	a := x.list[1].atom
	switch t {
	case "b":
		return a == "1", nil
	case "i":
		v, err := strconv.ParseInt(a, 10, 64)
		return int(v), err
	case "i32":
		v, err := strconv.ParseInt(a, 10, 32)
		return int32(v), err
	case "i64":
		v, err := strconv.ParseInt(a, 10, 64)
		return int64(v), err
	case "f":
		v, err := strconv.ParseUint(a, 10, 64)
		return math.Float64frombits(v), err
	case "s":
		s, ok := hexBytes(a)
		if !ok {
			return nil, errors.New("bad string")
		}
		return s, nil
	case "str":
		s, ok := hexBytes(a)
		if !ok {
			return nil, errors.New("bad string")
		}
		return okStringer{s}, nil
	case "strptr":
		s, ok := hexBytes(a)
		if !ok {
			return nil, errors.New("bad string")
		}
		return &ptrStringer{s}, nil
	case "strver", "strverptr": // the library's own dependency type, a parsed version: a fmt.Stringer, never a string
		s, ok := hexBytes(a)
		if !ok {
			return nil, errors.New("bad string")
		}
		v, err := semver.Parse(s)
		if err != nil || v.String() != s {
			return nil, errors.New("not a canonical version")
		}
		if t == "strver" {
			return v, nil
		}
		return &v, nil
	case "strsame": // String() calls Process on the very evaluator that is evaluating it (with another object)
		s, ok := hexBytes(a)
		if !ok {
			return nil, errors.New("bad string")
		}
		return sameEvaluatorStringer{s}, nil
	case "strbig":
		s, ok := hexBytes(a)
		if !ok {
			return nil, errors.New("bad string")
		}
		b, ok := new(big.Int).SetString(s, 10)
		if !ok || b.String() != s {
			return nil, errors.New("not a canonical integer")
		}
		return b, nil
	case "strkeep":
		s, ok := hexBytes(a)
		if !ok {
			return nil, errors.New("bad string")
		}
		if keptPtr == nil {
			keptPtr = &ptrStringer{}
		}
		keptPtr.s = s
		keptPtrUsed = true
		return keptPtr, nil
	case "strslow": // a value whose String() takes 2.2 s (a lookup behind it): slow, not wrong
		s, ok := hexBytes(a)
		if !ok {
			return nil, errors.New("bad string")
		}
		return slowStringer{s}, nil
	case "strtm":
		s, ok := hexBytes(a)
		if !ok {
			return nil, errors.New("bad string")
		}
		return stringerAndMarshaler{s}, nil
	case "strmut":
		s, ok := hexBytes(a)
		if !ok {
			return nil, errors.New("bad string")
		}
		return mutatingStringer{s: s}, nil
	case "strreent":
		s, ok := hexBytes(a)
		if !ok {
			return nil, errors.New("bad string")
		}
		return reentrantStringer{s}, nil
	case "strslice": // a Stringer whose dynamic type is not comparable (like net.IP)
		s, ok := hexBytes(a)
		if !ok {
			return nil, errors.New("bad string")
		}
		return sliceStringer(strings.Split(s, "")), nil
	case "jnum": // encoding/json's Number: a named string type with a String method
		s, ok := hexBytes(a)
		if !ok {
			return nil, errors.New("bad string")
		}
		return json.Number(s), nil
	case "o":
		v, err := strconv.Atoi(a)
		return other(v), err
	}
	return nil, fmt.Errorf("bad value tag %q", t)
}

func buildOperand(x *sexp) (interface{}, error) {
	if !x.isL {
		if x.atom == "nil" {
			return nil, nil
		}
		return nil, errors.New("bad operand")
	}
	t := x.list[0].atom
	switch t {
	case "li":
		out := make([]int, 0)
		for _, e := range x.list[1:] {
			v, err := strconv.ParseInt(e.atom, 10, 64)
			if err != nil {
				return nil, err
			}
			out = append(out, int(v))
		}
		return out, nil
	case "lf":
		out := make([]float64, 0)
		for _, e := range x.list[1:] {
			v, err := strconv.ParseUint(e.atom, 10, 64)
			if err != nil {
				return nil, err
			}
			out = append(out, math.Float64frombits(v))
		}
		return out, nil
	case "ls":
		out := make([]string, 0)
		for _, e := range x.list[1:] {
			s, ok := hexBytes(e.atom)
			if !ok {
				return nil, errors.New("bad string")
			}
			out = append(out, s)
		}
		return out, nil
	}
	return buildVal(x)
}

// ---------- deep snapshot / comparison (frame condition) ----------
func snapshot(v interface{}) interface{} {
	switch t := v.(type) {
	case map[string]interface{}:
		if t == nil {
			return t
		}
		c := make(map[string]interface{}, len(t))
		for k, e := range t {
			c[k] = snapshot(e)
		}
		return c
	case namedMap:
		c := make(namedMap, len(t))
		for k, e := range t {
			c[k] = snapshot(e)
		}
		return c
	case []interface{}:
		c := make([]interface{}, len(t))
		for i, e := range t {
			c[i] = snapshot(e)
		}
		return c
	case []int:
		return append([]int(nil), t...)
	case []string:
		return append([]string(nil), t...)
	case []byte:
		return append([]byte(nil), t...)
	case map[string]int:
		c := make(map[string]int, len(t))
		for k, e := range t {
			c[k] = e
		}
		return c
	case map[interface{}]interface{}:
		c := make(map[interface{}]interface{}, len(t))
		for k, e := range t {
			c[k] = snapshot(e)
		}
		return c
	case map[string]string:
		c := make(map[string]string, len(t))
		for k, e := range t {
			c[k] = e
		}
		return c
	case *plainStruct:
		if t == nil {
			return t
		}
		c := *t
		return &c
	case *big.Int:
		return new(big.Int).Set(t)
	case *strings.Reader:
		return readerState{t.Len(), t.Size()}
	case *bufio.Reader:
		return readerState{t.Buffered(), int64(t.Size())}
	case *parser.NestedError:
		if t == nil {
			return t
		}
		c := *t
		if t.Vals != nil {
			c.Vals = parser.ErrVals{}
			for k, e := range t.Vals {
				c.Vals[k] = e
			}
		}
		return &c
	case *int:
		c := *t
		return &c
	case *ptrStringer:
		if t == nil {
			return t
		}
		c := *t
		return &c
	}
	return v // scalars, funcs, chans, structs by value
}

type readerState struct {
	left int
	size int64
}

func same(a, b interface{}) bool {
	if a == nil || b == nil {
		return a == nil && b == nil
	}
	// readers: the snapshot holds how much is left to read
	if st, ok := b.(readerState); ok {
		switch r := a.(type) {
		case *strings.Reader:
			return st == readerState{r.Len(), r.Size()}
		case *bufio.Reader:
			return st.size == int64(r.Size()) && st.left == r.Buffered()
		}
		return false
	}
	if x, ok := a.(*big.Int); ok {
		y, ok2 := b.(*big.Int)
		return ok2 && x.Cmp(y) == 0
	}
	ra, rb := reflect.ValueOf(a), reflect.ValueOf(b)
	if ra.Type() != rb.Type() {
		return false
	}
	switch x := a.(type) {
	case float64:
		y := b.(float64)
		return math.Float64bits(x) == math.Float64bits(y)
	case map[string]interface{}:
		y := b.(map[string]interface{})
		if (x == nil) != (y == nil) || len(x) != len(y) {
			return false
		}
		for k, e := range x {
			f, ok := y[k]
			if !ok || !same(e, f) {
				return false
			}
		}
		return true
	case namedMap:
		y := b.(namedMap)
		if len(x) != len(y) {
			return false
		}
		for k, e := range x {
			f, ok := y[k]
			if !ok || !same(e, f) {
				return false
			}
		}
		return true
	case []interface{}:
		y := b.([]interface{})
		if len(x) != len(y) {
			return false
		}
		for i := range x {
			if !same(x[i], y[i]) {
				return false
			}
		}
		return true
	}
	switch ra.Kind() {
	case reflect.Func, reflect.Chan:
		return ra.Pointer() == rb.Pointer()
	case reflect.Ptr:
		if ra.IsNil() || rb.IsNil() {
			return ra.IsNil() && rb.IsNil()
		}
		return reflect.DeepEqual(ra.Elem().Interface(), rb.Elem().Interface())
	}
	return reflect.DeepEqual(a, b)
}

// ---------- observations ----------
func b01(b bool) string {
	if b {
		return "1"
	}
	return "0"
}

func errClass(err error) string {
	if err == nil {
		return "none"
	}
	if errors.Is(err, parser.ErrInvalidOperation) {
		return "invop"
	}
	return "other"
}

func dbgClass(err error) (cls string) {
	if err == nil {
		return "nil"
	}
	// a non-nil error value must be usable: a typed nil pointer or a panicking Original() is a class of its own
	defer func() {
		if r := recover(); r != nil {
			cls = "broken"
		}
	}()
	var orig error = err
	if ne, ok := err.(*parser.NestedError); ok {
		if ne == nil {
			return "typednil"
		}
		orig = ne.Original()
	} else {
		return "foreign"
	}
	switch {
	case orig == parser.ErrInvalidOperation:
		return "invop"
	case orig == parser.ErrEvalOperandMissing:
		return "missing"
	}
	if _, ok := orig.(*parser.ErrInvalidOperand); ok {
		return "operand"
	}
	return "unknown"
}

// text of an error under recover: ok / empty / panic / unstable (two calls in a row give two texts)
func textClass(err error) (cls string) {
	if err == nil {
		return "-"
	}
	defer func() {
		if r := recover(); r != nil {
			cls = "panic"
		}
	}()
	t1 := err.Error()
	t2 := err.Error()
	if t1 != t2 {
		return "unstable"
	}
	if t1 == "" {
		return "empty"
	}
	return "ok"
}

type collector struct {
	*antlr.DefaultErrorListener
	n int
}

func (c *collector) SyntaxError(_ antlr.Recognizer, _ interface{}, _, _ int, _ string, _ antlr.RecognitionException) {
	c.n++
}

// strict acceptance by the shipped lexer+parser, computed here with our own listener
func strictAccept(text string) (accept bool, tree parser.IQueryContext) {
	defer func() {
		if r := recover(); r != nil {
			accept = false
			tree = nil
		}
	}()
	c := &collector{DefaultErrorListener: antlr.NewDefaultErrorListener()}
	lex := parser.NewJsonQueryLexer(antlr.NewInputStream(text))
	lex.RemoveErrorListeners()
	lex.AddErrorListener(c)
	ts := antlr.NewCommonTokenStream(lex, antlr.TokenDefaultChannel)
	p := parser.NewJsonQueryParser(ts)
	p.RemoveErrorListeners()
	p.AddErrorListener(c)
	t := p.Query()
	if c.n > 0 || ts.LA(1) != antlr.TokenEOF {
		return false, nil
	}
	return true, t
}

// Other ways of using the generated lexer / parser than "new lexer, listener, new parser, one text":
// (b) the usual ANTLR order - lexer, token stream and parser are built first, the collecting listeners are attached afterwards;
// (c) ONE lexer and ONE parser object for all texts of the process, re-armed with SetInputStream / SetTokenStream.
// Each must accept exactly what strictAccept accepts and read the same tree.
var (
	sharedLex    *parser.JsonQueryLexer
	sharedParser *parser.JsonQueryParser
	sharedC      *collector
)

func acceptLateListeners(text string) (accept bool, tree string) {
	defer func() {
		if r := recover(); r != nil {
			accept, tree = false, "panic"
		}
	}()
	lex := parser.NewJsonQueryLexer(antlr.NewInputStream(text))
	ts := antlr.NewCommonTokenStream(lex, antlr.TokenDefaultChannel)
	p := parser.NewJsonQueryParser(ts)
	c := &collector{DefaultErrorListener: antlr.NewDefaultErrorListener()}
	lex.RemoveErrorListeners()
	lex.AddErrorListener(c)
	p.RemoveErrorListeners()
	p.AddErrorListener(c)
	t := p.Query()
	if c.n > 0 || ts.LA(1) != antlr.TokenEOF {
		return false, ""
	}
	return true, treeText(t)
}

func acceptSharedObjects(text string) (accept bool, tree string) {
	defer func() {
		if r := recover(); r != nil {
			accept, tree = false, "panic"
			sharedLex, sharedParser = nil, nil
		}
	}()
	if sharedLex == nil {
		sharedC = &collector{DefaultErrorListener: antlr.NewDefaultErrorListener()}
		sharedLex = parser.NewJsonQueryLexer(antlr.NewInputStream(text))
		sharedLex.RemoveErrorListeners()
		sharedLex.AddErrorListener(sharedC)
		sharedParser = parser.NewJsonQueryParser(antlr.NewCommonTokenStream(sharedLex, antlr.TokenDefaultChannel))
		sharedParser.RemoveErrorListeners()
		sharedParser.AddErrorListener(sharedC)
	}
	sharedC.n = 0
	sharedLex.SetInputStream(antlr.NewInputStream(text))
	ts := antlr.NewCommonTokenStream(sharedLex, antlr.TokenDefaultChannel)
	sharedParser.SetTokenStream(ts)
	t := sharedParser.Query()
	if sharedC.n > 0 || ts.LA(1) != antlr.TokenEOF {
		return false, ""
	}
	return true, treeText(t)
}

// evals: deep-equal sub-objects of the input are made ONE shared map value (aliasing)
var shareEqualMaps bool

func shareMaps(v interface{}, seen *[]map[string]interface{}) interface{} {
	m, ok := v.(map[string]interface{})
	if !ok || m == nil {
		return v
	}
	for k, e := range m {
		m[k] = shareMaps(e, seen)
	}
	for _, s := range *seen {
		if same(s, m) {
			return s
		}
	}
	*seen = append(*seen, m)
	return m
}

func doEval(id string, rule string, objx *sexp) string {
	ov, err := buildVal(objx)
	if err != nil {
		return id + " BADCASE"
	}
	obj, ok := ov.(map[string]interface{})
	if !ok {
		return id + " BADCASE"
	}
	if shareEqualMaps {
		var seen []map[string]interface{}
		for k, e := range obj {
			obj[k] = shareMaps(e, &seen)
		}
	}
	snap := snapshot(obj)
	currentPlainObject, _ = plainCopy(obj).(map[string]interface{})
	currentRule = rule
	defer func() { currentRule = "" }()
	for k, e := range obj {
		if ms, ok := e.(mutatingStringer); ok {
			ms.home = obj
			obj[k] = ms
		}
	}
	hasMut := false
	for _, e := range obj {
		if _, ok := e.(mutatingStringer); ok {
			hasMut = true
		}
	}
	// every entry point starts from the same object: what a caller's own value added during one call is taken out again
	resetObj := func() {
		if hasMut {
			delete(obj, "added")
		}
	}
	snap = snapshot(obj)
	escaped := false
	guard := func(f func()) {
		defer func() {
			if r := recover(); r != nil {
				escaped = true
			}
		}()
		f()
	}
	var ev *parser.Evaluator
	var newErr, perr, dbg error
	var verdict bool
	guard(func() { ev, newErr = parser.NewEvaluator(rule) })
	if ev != nil && newErr == nil {
		currentEvaluator = ev
		guard(func() { verdict, perr = ev.Process(obj) })
		currentEvaluator = nil
		resetObj()
		guard(func() { dbg = ev.LastDebugErr() })
	} else {
		perr = newErr
		if perr == nil {
			perr = errors.New("no evaluator")
		}
	}
	frame1 := same(obj, snap)
	var v2, v3 bool
	var e2 error
	guard(func() { v2, e2 = rules.Evaluate(rule, obj) })
	resetObj()
	guard(func() { v3 = parser.Evaluate(rule, obj) })
	resetObj()
	frame2 := same(obj, snap)
	acc, _ := strictAccept(strings.TrimSpace(rule))
	// the same rule and object once more, on a new evaluator: outcomes must not depend on map
	// iteration order, on what the first evaluation left behind, or on chance
	det := true
	var ev2 *parser.Evaluator
	var newErr2, perr2, dbg2 error
	var verdict2 bool
	guard(func() { ev2, newErr2 = parser.NewEvaluator(rule) })
	if ev2 != nil && newErr2 == nil {
		currentEvaluator = ev2
		guard(func() { verdict2, perr2 = ev2.Process(obj) })
		currentEvaluator = nil
		resetObj()
		guard(func() { dbg2 = ev2.LastDebugErr() })
		if ev == nil || newErr != nil || verdict2 != verdict || errClass(perr2) != errClass(perr) || dbgClass(dbg2) != dbgClass(dbg) {
			det = false
		}
	} else if ev != nil && newErr == nil {
		det = false
	}
	frame3 := same(obj, snap)
	// the texts of the errors are produced last: Error() of a diagnostic formats the operand, and a value of the caller that is an
	// error or a Stringer may change itself in its own method (the library's *NestedError does): that is not a write by Process
	dbgText := textClass(dbg)
	errText := textClass(perr)
	e2Text := textClass(e2)
	return fmt.Sprintf("%s verdict=%s err=%s dbg=%s accept=%s ev3=%s%s%s newerr=%s dbgtext=%s errtext=%s,%s frame=%s escaped=%s det=%s rerr=%s eh=%s",
		id, b01(verdict), errClass(perr), dbgClass(dbg), b01(acc), b01(v2), b01(e2 != nil), b01(v3),
		b01(newErr != nil), dbgText, errText, e2Text, b01(frame1 && frame2 && frame3), b01(escaped), b01(det), errClass(e2), textHash(perr))
}

// the evaluator whose Process call is running (for the Stringer that calls back into it)
var currentEvaluator *parser.Evaluator

// a short hash of the text of an error (spelling-independent outcomes have spelling-independent texts)
func textHash(err error) (h string) {
	if err == nil {
		return "-"
	}
	defer func() {
		if r := recover(); r != nil {
			h = "panic"
		}
	}()
	sum := sha256.Sum256([]byte(err.Error()))
	return hex.EncodeToString(sum[:6])
}

func hexOf(s string) string {
	var sb strings.Builder
	for i := 0; i < len(s); i++ {
		fmt.Fprintf(&sb, "%02x", s[i])
	}
	return sb.String()
}

func pathText(ap parser.IAttrPathContext) string {
	var parts []string
	for ap != nil {
		parts = append(parts, "x"+hexOf(ap.ATTRNAME().GetText()))
		sub := ap.SubAttr()
		if sub == nil {
			break
		}
		ap = sub.AttrPath()
	}
	return strings.Join(parts, ".")
}

var opNames = map[int]string{
	parser.JsonQueryParserEQ: "EQ", parser.JsonQueryParserNE: "NE", parser.JsonQueryParserGT: "GT",
	parser.JsonQueryParserLT: "LT", parser.JsonQueryParserGE: "GE", parser.JsonQueryParserLE: "LE",
	parser.JsonQueryParserCO: "CO", parser.JsonQueryParserSW: "SW", parser.JsonQueryParserEW: "EW",
	parser.JsonQueryParserIN: "IN",
}

func valueText(v parser.IValueContext) string {
	switch c := v.(type) {
	case *parser.BooleanContext:
		return "(boolean x" + hexOf(c.GetText()) + ")"
	case *parser.NullContext:
		return "(null)"
	case *parser.VersionContext:
		return "(version x" + hexOf(c.VERSION().GetText()) + ")"
	case *parser.StringContext:
		return "(string x" + hexOf(c.GetText()) + ")"
	case *parser.DoubleContext:
		return "(double x" + hexOf(c.GetText()) + ")"
	case *parser.LongContext:
		return "(long x" + hexOf(c.GetText()) + ")"
	case *parser.ListOfIntsContext:
		var parts []string
		for s := c.ListInts().SubListOfInts(); s != nil; s = s.SubListOfInts() {
			parts = append(parts, "x"+hexOf(s.INT().GetText()))
		}
		return "(ints " + strings.Join(parts, ",") + ")"
	case *parser.ListOfDoublesContext:
		var parts []string
		for s := c.ListDoubles().SubListOfDoubles(); s != nil; s = s.SubListOfDoubles() {
			parts = append(parts, "x"+hexOf(s.DOUBLE().GetText()))
		}
		return "(doubles " + strings.Join(parts, ",") + ")"
	case *parser.ListOfStringsContext:
		var parts []string
		for s := c.ListStrings().SubListOfStrings(); s != nil; s = s.SubListOfStrings() {
			parts = append(parts, "x"+hexOf(s.STRING().GetText()))
		}
		return "(strings " + strings.Join(parts, ",") + ")"
	}
	return "(?)"
}

func treeText(q parser.IQueryContext) string {
	switch c := q.(type) {
	case *parser.ParenExpContext:
		if c.NOT() != nil {
			return "(notparen " + treeText(c.Query()) + ")"
		}
		return "(paren " + treeText(c.Query()) + ")"
	case *parser.LogicalExpContext:
		return "(" + c.LOGICAL_OPERATOR().GetText() + " " + treeText(c.Query(0)) + " " + treeText(c.Query(1)) + ")"
	case *parser.PresentExpContext:
		return "(pr " + pathText(c.AttrPath()) + ")"
	case *parser.CompareExpContext:
		return "(cmp " + pathText(c.AttrPath()) + " " + opNames[c.GetOp().GetTokenType()] + " " + valueText(c.Value()) + ")"
	}
	return "(?)"
}

func doSyntax(id, text string) (out string) {
	defer func() {
		if r := recover(); r != nil {
			out = id + " lexok=panic"
		}
	}()
	c := &collector{DefaultErrorListener: antlr.NewDefaultErrorListener()}
	lex := parser.NewJsonQueryLexer(antlr.NewInputStream(text))
	lex.RemoveErrorListeners()
	lex.AddErrorListener(c)
	var toks []string
	for _, t := range lex.GetAllTokens() {
		toks = append(toks, fmt.Sprintf("%x:%s", t.GetTokenType(), hexOf(t.GetText())))
	}
	if c.n > 0 {
		accB, _ := acceptLateListeners(text)
		accC, _ := acceptSharedObjects(text)
		return id + " lexok=0 modes=" + b01(!accB && !accC)
	}
	acc, tree := strictAccept(text)
	tt := ""
	if acc {
		tt = treeText(tree)
	}
	accB, treeB := acceptLateListeners(text)
	accC, treeC := acceptSharedObjects(text)
	modes := accB == acc && accC == acc && treeB == tt && treeC == tt
	s := id + " lexok=1 toks=" + strings.Join(toks, ",") + " accept=" + b01(acc) + " modes=" + b01(modes)
	if acc {
		s += " tree=" + tt
	}
	return s
}

// ONE pointer-typed Stringer per history whose text the caller changes between calls (atom strkeep)
var keptPtr *ptrStringer
var keptPtrUsed bool

func doHist(id, rule string, ops *sexp) string {
	keptPtr, keptPtrUsed = nil, false
	h3 := true
	ev, err := parser.NewEvaluator(rule)
	if err != nil || ev == nil {
		return id + " out=NEWERR"
	}
	var outs []string
	var lastObj map[string]interface{}
	// every error the caller was handed stays the caller's: its text is taken at once and again at the end
	type keptErr struct {
		err  error
		text string
	}
	var kept []keptErr
	errText := func(e error) (t string) {
		defer func() {
			if r := recover(); r != nil {
				t = "\x00PANIC"
			}
		}()
		return e.Error()
	}
	keep := func(e error) {
		// (a value of the caller that the caller itself changes later makes the text of an old diagnostic change with it: not kept)
		if e != nil && len(kept) < 64 && !keptPtrUsed {
			kept = append(kept, keptErr{e, errText(e)})
		}
	}
	for _, op := range ops.list {
		if !op.isL {
			switch op.atom {
			case "r":
				ev.Reset()
				outs = append(outs, "r")
			case "d":
				de := ev.LastDebugErr()
				keep(de)
				outs = append(outs, "d"+dbgClass(de))
			default:
				return id + " BADCASE"
			}
			continue
		}
		ov, err := buildVal(op.list[1])
		if err != nil {
			return id + " BADCASE"
		}
		obj := ov.(map[string]interface{})
		if op.list[0].atom == "u" {
			// the caller changes its object in place and calls nothing: no output, no effect on the evaluator
			if lastObj != nil {
				for k := range lastObj {
					delete(lastObj, k)
				}
				for k, val := range obj {
					lastObj[k] = val
				}
			}
			continue
		}
		if op.list[0].atom == "q" && lastObj != nil {
			// same map value as the previous call, mutated in place to the new content
			for k := range lastObj {
				delete(lastObj, k)
			}
			for k, val := range obj {
				lastObj[k] = val
			}
			obj = lastObj
		}
		lastObj = obj
		var v bool
		var perr error
		func() {
			defer func() {
				if r := recover(); r != nil {
					perr = errors.New("ESCAPED")
				}
			}()
			v, perr = ev.Process(obj)
		}()
		keep(perr)
		// the Evaluate functions on the very same object value, after every call of a short history (a memo keyed by the identity of the
		// caller's map must notice that the caller changed it in place)
		if len(ops.list) <= 200 && !keptPtrUsed {
			func() {
				defer func() {
					if r := recover(); r != nil {
						h3 = false
					}
				}()
				v2, e2 := rules.Evaluate(rule, obj)
				v3 := parser.Evaluate(rule, obj)
				if v2 != v || (e2 != nil) != (perr != nil) || v3 != v {
					h3 = false
				}
			}()
		}
		if op.list[0].atom == "n" {
			// Process without looking at the diagnostic afterwards
			outs = append(outs, "p"+b01(v)+","+errClass(perr)+",skip")
			continue
		}
		outs = append(outs, "p"+b01(v)+","+errClass(perr)+","+dbgClass(ev.LastDebugErr()))
	}
	keptState := "ok"
	for _, k := range kept {
		now := errText(k.err)
		if now == "\x00PANIC" && k.text != "\x00PANIC" {
			keptState = "panic"
			break
		}
		if now != k.text {
			keptState = "changed"
		}
	}
	return id + " out=" + strings.Join(outs, ";") + " kept=" + keptState + " h3=" + b01(h3)
}

var sharedOps = map[string]parser.Operation{"null": &parser.NullOperation{}, "bool": &parser.BoolOperation{}, "int": &parser.IntOperation{}, "float": &parser.FloatOperation{},
	"string": &parser.StringOperation{}, "version": &parser.VersionOperation{}}

func opMethod(op parser.Operation, name string) func(parser.Operand, parser.Operand) (bool, error) {
	switch name {
	case "EQ":
		return op.EQ
	case "NE":
		return op.NE
	case "GT":
		return op.GT
	case "LT":
		return op.LT
	case "GE":
		return op.GE
	case "LE":
		return op.LE
	case "CO":
		return op.CO
	case "SW":
		return op.SW
	case "EW":
		return op.EW
	case "IN":
		return op.IN
	}
	return nil
}

func doOpcall(id string, x *sexp) (out string) {
	var op parser.Operation
	switch x.list[2].atom {
	case "null":
		op = &parser.NullOperation{}
	case "bool":
		op = &parser.BoolOperation{}
	case "int":
		op = &parser.IntOperation{}
	case "float":
		op = &parser.FloatOperation{}
	case "string":
		op = &parser.StringOperation{}
	case "version":
		op = &parser.VersionOperation{}
	default:
		return id + " BADCASE"
	}
	// the same call on ONE operation object per type that lives as long as the process (callers may keep an Operation around)
	shared := sharedOps[x.list[2].atom]
	l, err := buildVal(x.list[4])
	if err != nil {
		return id + " BADCASE"
	}
	r, err := buildOperand(x.list[5])
	if err != nil {
		return id + " BADCASE"
	}
	var f func(parser.Operand, parser.Operand) (bool, error)
	switch x.list[3].atom {
	case "EQ":
		f = op.EQ
	case "NE":
		f = op.NE
	case "GT":
		f = op.GT
	case "LT":
		f = op.LT
	case "GE":
		f = op.GE
	case "LE":
		f = op.LE
	case "CO":
		f = op.CO
	case "SW":
		f = op.SW
	case "EW":
		f = op.EW
	case "IN":
		f = op.IN
	default:
		return id + " BADCASE"
	}
	defer func() {
		if rec := recover(); rec != nil {
			out = id + " res=0 err=panic"
		}
	}()
	classify := func(e error) string {
		switch {
		case e == nil:
			return "none"
		case e == parser.ErrInvalidOperation:
			return "invop"
		case e == parser.ErrEvalOperandMissing:
			return "missing"
		}
		if _, ok := e.(*parser.ErrInvalidOperand); ok {
			return "operand"
		}
		return "other"
	}
	res, e := f(l, r)
	cls := classify(e)
	sharedSame := true
	if g := opMethod(shared, x.list[3].atom); g != nil {
		func() {
			defer func() {
				if rec := recover(); rec != nil {
					sharedSame = false
				}
			}()
			l2, _ := buildVal(x.list[4])
			r2, _ := buildOperand(x.list[5])
			res2, e2 := g(l2, r2)
			sharedSame = res2 == res && classify(e2) == cls
		}()
	}
	return id + " res=" + b01(res) + " err=" + cls + " shared=" + b01(sharedSame)
}

func zhex(neg bool, m uint64) string {
	if neg {
		return fmt.Sprintf("-%x", m)
	}
	return fmt.Sprintf("%x", m)
}

func ihex(e int) string {
	if e < 0 {
		return fmt.Sprintf("-%x", -e)
	}
	return fmt.Sprintf("%x", e)
}

// canonical form of a float64: odd mantissa and exponent, in hex
func f64text(f float64) string {
	switch {
	case math.IsNaN(f):
		return "nan"
	case math.IsInf(f, 1):
		return "inf"
	case math.IsInf(f, -1):
		return "-inf"
	case f == 0:
		return "0"
	}
	bits := math.Float64bits(f)
	neg := bits>>63 == 1
	ex := int(bits >> 52 & 2047)
	frac := bits & (1<<52 - 1)
	var m uint64
	var e int
	if ex == 0 {
		m, e = frac, -1074
	} else {
		m, e = frac|1<<52, ex-1075
	}
	for m&1 == 0 {
		m >>= 1
		e++
	}
	return zhex(neg, m) + "p" + ihex(e)
}

func doLine(line string) string {
	x, err := parseSexp(line)
	if err != nil || !x.isL || len(x.list) < 3 || x.list[0].isL || x.list[1].isL {
		return "? BADLINE"
	}
	kind, id := x.list[0].atom, x.list[1].atom
	switch kind {
	case "eval", "evals":
		rule, ok := hexBytes(x.list[2].atom)
		if !ok || len(x.list) != 4 {
			return id + " BADCASE"
		}
		shareEqualMaps = kind == "evals"
		done := make(chan string, 1)
		go func() { done <- doEval(id, rule, x.list[3]) }()
		select {
		case r := <-done:
			return r
		case <-time.After(120 * time.Second):
			// the call never came back (a lock taken around caller code, an endless loop): end the process so the harness names this case
			fmt.Fprintln(os.Stderr, "driver: case "+id+" did not return within 120 s")
			os.Exit(3)
			return ""
		}
	case "hist":
		rule, ok := hexBytes(x.list[2].atom)
		if !ok || len(x.list) != 4 || !x.list[3].isL {
			return id + " BADCASE"
		}
		return doHist(id, rule, x.list[3])
	case "syntax":
		t, ok := hexBytes(x.list[2].atom)
		if !ok {
			return id + " BADCASE"
		}
		return doSyntax(id, t)
	case "ileave":
		// two evaluators alive at the same time: create A, create B, then process with A, then with B
		ra, ok1 := hexBytes(x.list[2].atom)
		rb, ok2 := hexBytes(x.list[3].atom)
		if !ok1 || !ok2 || len(x.list) != 5 {
			return id + " BADCASE"
		}
		ov, err := buildVal(x.list[4])
		if err != nil {
			return id + " BADCASE"
		}
		obj, ok := ov.(map[string]interface{})
		if !ok {
			return id + " BADCASE"
		}
		var outs, texts []string
		sameText := true
		func() {
			defer func() {
				if r := recover(); r != nil {
					outs = append(outs, "ESCAPED")
				}
			}()
			ea, erra := parser.NewEvaluator(ra)
			eb, errb := parser.NewEvaluator(rb)
			for _, e := range []struct {
				ev  *parser.Evaluator
				err error
			}{{ea, erra}, {eb, errb}, {ea, erra}} {
				if e.err != nil || e.ev == nil {
					outs = append(outs, "0,other,nil")
					continue
				}
				v, perr := e.ev.Process(obj)
				outs = append(outs, b01(v)+","+errClass(perr)+","+dbgClass(e.ev.LastDebugErr()))
				texts = append(texts, textHash(perr))
			}
			// the text of the error of a rule is the same whether or not another evaluator was created in between
			for i, r := range []string{ra, rb, ra} {
				solo, serr := parser.NewEvaluator(r)
				want := "-"
				if serr == nil && solo != nil {
					_, perr := solo.Process(obj)
					want = textHash(perr)
				}
				if i < len(texts) && texts[i] != want && !(serr != nil) {
					sameText = false
				}
			}
		}()
		return id + " out=" + strings.Join(outs, ";") + " ilt=" + b01(sameText)
	case "cyclic":
		n, err := strconv.Atoi(x.list[2].atom)
		if err != nil {
			return id + " BADCASE"
		}
		return doCyclic(id, n)
	case "deepnest":
		// the sentence ((( ... x eq 1 ... ))) with N pairs of parentheses, built here (the text would be megabytes)
		n, err := strconv.Atoi(x.list[2].atom)
		if err != nil || n < 0 {
			return id + " BADCASE"
		}
		open := "("
		if len(x.list) > 3 && x.list[3].atom == "not" {
			open = "not ("
		}
		rule := strings.Repeat(open, n) + "x eq 1" + strings.Repeat(")", n)
		obj := map[string]interface{}{"x": 1}
		var verdict, v2, v3 bool
		var perr, e2 error
		escaped := false
		func() {
			defer func() {
				if r := recover(); r != nil {
					escaped = true
				}
			}()
			ev, nerr := parser.NewEvaluator(rule)
			if nerr != nil {
				perr = nerr
			} else {
				verdict, perr = ev.Process(obj)
			}
			v2, e2 = rules.Evaluate(rule, obj)
			v3 = parser.Evaluate(rule, obj)
		}()
		return fmt.Sprintf("%s verdict=%s err=%s ev3=%s%s%s escaped=%s", id, b01(verdict), errClass(perr), b01(v2), b01(e2 != nil), b01(v3), b01(escaped))
	case "lower":
		t, ok := hexBytes(x.list[2].atom)
		if !ok {
			return id + " BADCASE"
		}
		return id + " lower=x" + hexOf(strings.ToLower(t))
	case "pfloat":
		t, _ := hexBytes(x.list[2].atom)
		f, err := strconv.ParseFloat(t, 10)
		if err != nil {
			return id + " f=err"
		}
		return id + " f=" + f64text(f)
	case "pint":
		t, _ := hexBytes(x.list[2].atom)
		v, err := strconv.ParseInt(t, 10, 64)
		if err != nil {
			return id + " i=err"
		}
		if v < 0 {
			return id + " i=-" + strconv.FormatUint(uint64(-v), 16)
		}
		return id + " i=" + strconv.FormatInt(v, 16)
	case "i2f":
		v, err := strconv.ParseInt(x.list[2].atom, 10, 64)
		if err != nil {
			return id + " BADCASE"
		}
		return id + " f=" + f64text(float64(int(v)))
	case "semver":
		t, _ := hexBytes(x.list[2].atom)
		_, err := semver.Make(t)
		return id + " ok=" + b01(err == nil)
	case "nerr":
		if len(x.list) != 5 {
			return id + " BADCASE"
		}
		return doNerr(id, x)
	case "opcall":
		if len(x.list) != 6 {
			return id + " BADCASE"
		}
		return doOpcall(id, x)
	}
	return id + " BADCASE"
}

func main() {
	if len(os.Args) > 1 && os.Args[1] == "conc" {
		concMain(os.Args[2:])
		return
	}
	in := os.Stdin
	if len(os.Args) > 1 {
		f, err := os.Open(os.Args[1])
		if err != nil {
			fmt.Fprintln(os.Stderr, err)
			os.Exit(2)
		}
		in = f
	}
	out := bufio.NewWriter(os.Stdout)
	if len(os.Args) > 2 {
		f, err := os.Create(os.Args[2])
		if err != nil {
			fmt.Fprintln(os.Stderr, err)
			os.Exit(2)
		}
		defer f.Close()
		out = bufio.NewWriter(f)
	}
	defer out.Flush()
	sc := bufio.NewScanner(in)
	sc.Buffer(make([]byte, 1<<20), 1<<28)
	for sc.Scan() {
		line := sc.Text()
		if line == "" {
			continue
		}
		fmt.Fprintln(out, doLine(line))
		out.Flush() // a crash must not lose the lines already produced
	}
	if err := sc.Err(); err != nil {
		// a case line longer than the buffer: a fault of the harness, reported as such (not silently as missing observations)
		out.Flush()
		fmt.Fprintln(os.Stderr, "driver: cannot read the case file:", err)
		os.Exit(4)
	}
}
