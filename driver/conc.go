package main

import (
	"bufio"
	"fmt"
	"os"
	"runtime"
	"strconv"
	"strings"
	"sync"

	"github.com/nikunjy/rules"
	"github.com/nikunjy/rules/parser"
)

// concMain: driver conc <cases> <out> <goroutines> <rounds> <gomaxprocs> [<extra Process calls per case>]
// Every goroutine owns a disjoint slice of the eval cases and its own Evaluator
// values.  All goroutines start together behind a barrier, so the first use of
// the package (lazy static initialisation of lexer and parser) is concurrent.
// Per case it prints the first-round observation and whether every later round,
// on a reused and on a fresh evaluator, and both Evaluate functions, gave the same.
func concMain(args []string) {
	if len(args) < 5 {
		fmt.Fprintln(os.Stderr, "usage: driver conc cases out G R P")
		os.Exit(2)
	}
	g, _ := strconv.Atoi(args[2])
	rounds, _ := strconv.Atoi(args[3])
	procs, _ := strconv.Atoi(args[4])
	runtime.GOMAXPROCS(procs)
	// optional: that many further Process calls per case on the first evaluator (keeps all goroutines inside their rules at once)
	extra := 0
	if len(args) > 5 {
		extra, _ = strconv.Atoi(args[5])
	}
	f, err := os.Open(args[0])
	if err != nil {
		fmt.Fprintln(os.Stderr, err)
		os.Exit(2)
	}
	type job struct {
		id, rule string
		objx     *sexp
		noRender bool // the object holds a value that changes itself when it is printed (the library's *NestedError): printing it twice at once is the caller's race
	}
	var jobs []job
	sc := bufio.NewScanner(f)
	sc.Buffer(make([]byte, 1<<20), 1<<26)
	for sc.Scan() {
		x, err := parseSexp(sc.Text())
		if err != nil || !x.isL || len(x.list) != 4 || x.list[0].atom != "eval" {
			continue
		}
		rule, ok := hexBytes(x.list[2].atom)
		if !ok {
			continue
		}
		jobs = append(jobs, job{x.list[1].atom, rule, x.list[3], strings.Contains(sc.Text(), "(o 48)")})
	}
	results := make([]string, len(jobs))
	var start, done sync.WaitGroup
	start.Add(1)
	for w := 0; w < g; w++ {
		done.Add(1)
		go func(w int) {
			defer done.Done()
			// the errors a goroutine is handed are its own values: it may pass them to a logger of its own that renders them while
			// the goroutine goes on using its evaluator
			logCh := make(chan error, 64)
			var logDone sync.WaitGroup
			logDone.Add(1)
			go func() {
				defer logDone.Done()
				for e := range logCh {
					func() {
						defer func() { recover() }()
						_ = e.Error()
					}()
				}
			}()
			defer func() { close(logCh); logDone.Wait() }()
			logErr := func(e error) {
				if e != nil {
					select {
					case logCh <- e:
					default:
					}
				}
			}
			var prevDbg error
			ndbg := 0
			start.Wait()
			for i := w; i < len(jobs); i += g {
				j := jobs[i]
				ov, err := buildVal(j.objx)
				if err != nil {
					results[i] = j.id + " BADCASE"
					continue
				}
				obj := ov.(map[string]interface{})
				one := func(ev *parser.Evaluator) string {
					var v bool
					var perr error
					func() {
						defer func() {
							if r := recover(); r != nil {
								perr = fmt.Errorf("ESCAPED %v", r)
							}
						}()
						v, perr = ev.Process(obj)
					}()
					logErr(perr)
					if de := ev.LastDebugErr(); de != nil && !j.noRender {
						// the diagnostic of the PREVIOUS call goes to the logger, the one of this call is rendered here: two calls hand
						// out two values, so the two renderings share nothing
						logErr(prevDbg)
						prevDbg = nil
						ndbg++
						if ndbg%2 == 0 {
							func() {
								defer func() { recover() }()
								_ = de.Error()
							}()
						} else {
							prevDbg = de
						}
					}
					return "verdict=" + b01(v) + " err=" + errClass(perr) + " dbg=" + dbgClass(ev.LastDebugErr())
				}
				ev, nerr := parser.NewEvaluator(j.rule)
				if nerr != nil || ev == nil {
					results[i] = j.id + " verdict=0 err=other dbg=nil stable=1"
					continue
				}
				first := one(ev)
				stable := true
				for k := 0; k < extra; k++ {
					if one(ev) != first {
						stable = false
					}
					if k%4 == 3 && len(j.rule) < 2000 { // not for the deeply nested rules: parsing them again and again under the race detector takes minutes
						v2, e2 := rules.Evaluate(j.rule, obj)
						if !strings.HasPrefix(first, "verdict="+b01(v2)+" err="+errClass(e2)) {
							stable = false
						}
					}
				}
				for r := 1; r < rounds; r++ {
					if one(ev) != first {
						stable = false
					}
					if r%2 == 0 {
						ev2, _ := parser.NewEvaluator(j.rule)
						if ev2 == nil || one(ev2) != first {
							stable = false
						}
					}
					if r%3 == 0 {
						v2, e2 := rules.Evaluate(j.rule, obj)
						v3 := parser.Evaluate(j.rule, obj)
						if !strings.HasPrefix(first, "verdict="+b01(v2)+" err="+errClass(e2)) || b01(v3) != b01(v2) {
							stable = false
						}
					}
					if r%5 == 0 {
						runtime.Gosched()
					}
				}
				results[i] = j.id + " " + first + " stable=" + b01(stable)
			}
		}(w)
	}
	start.Done()
	done.Wait()
	out, err := os.Create(args[1])
	if err != nil {
		fmt.Fprintln(os.Stderr, err)
		os.Exit(2)
	}
	bw := bufio.NewWriter(out)
	for _, r := range results {
		fmt.Fprintln(bw, r)
	}
	bw.Flush()
	out.Close()
}
