package main

import (
	"fmt"
	"os"
)

// concMain is filled in by conc_impl.go (C12); placeholder keeps the build whole.
func concMain(args []string) {
	fmt.Fprintln(os.Stderr, "conc mode not built")
	os.Exit(2)
}
