package main

// cyclic.go — input objects that contain themselves (no model counterpart: Gallina values are trees).
// What is observed: every public call returns, the diagnostic's text can be produced, nothing is written.

import (
	"fmt"
	"strings"

	"github.com/nikunjy/rules"
	"github.com/nikunjy/rules/parser"
)

type cycNode struct {
	Name string
	Next *cycNode
}

func cyclicObject(k int) (map[string]interface{}, func() bool) {
	root := map[string]interface{}{"k": 1}
	switch k {
	case 0:
		child := map[string]interface{}{"parent": root}
		root["child"] = child
		return root, func() bool {
			c, ok := root["child"].(map[string]interface{})
			if !ok || len(root) != 2 || len(c) != 1 {
				return false
			}
			p, ok := c["parent"].(map[string]interface{})
			return ok && fmt.Sprintf("%p", p) == fmt.Sprintf("%p", root) && root["k"] == 1
		}
	case 1:
		l := []interface{}{nil, 1}
		l[0] = root
		root["child"] = l
		return root, func() bool {
			c, ok := root["child"].([]interface{})
			return ok && len(c) == 2 && c[1] == 1 && len(root) == 2
		}
	case 2:
		a := map[string]interface{}{}
		a["b"] = map[string]interface{}{"c": a, "d": "x"}
		root["child"] = a
		return root, func() bool {
			b, ok := a["b"].(map[string]interface{})
			return ok && len(a) == 1 && len(b) == 2 && b["d"] == "x" && len(root) == 2
		}
	case 3:
		root["child"] = root
		return root, func() bool { _, ok := root["child"].(map[string]interface{}); return ok && len(root) == 2 }
	case 4:
		s := []interface{}{1, nil}
		s[1] = s
		root["child"] = s
		return root, func() bool { c, ok := root["child"].([]interface{}); return ok && len(c) == 2 && c[0] == 1 }
	case 6, 7, 8:
		// a long ring: 100 (1000, 5000) maps / slices each holding the next, the last one holding the first again
		n := map[int]int{6: 100, 7: 1000, 8: 5000}[k]
		first := map[string]interface{}{"i": 0}
		cur := first
		for i := 1; i < n; i++ {
			next := map[string]interface{}{"i": i}
			if i%2 == 0 {
				cur["next"] = next
			} else {
				cur["next"] = []interface{}{next}
			}
			cur = next
		}
		cur["next"] = first
		root["child"] = first
		return root, func() bool {
			c, ok := root["child"].(map[string]interface{})
			return ok && len(c) == 2 && c["i"] == 0 && len(root) == 2
		}
	default:
		n := &cycNode{Name: "n"}
		n.Next = n
		root["child"] = n
		return root, func() bool { c, ok := root["child"].(*cycNode); return ok && c.Next == c && c.Name == "n" }
	}
}

var cyclicRules = []string{"k eq 1", "child eq 1", "child gt null", "child pr", "child eq null", "child.parent.k eq 1", "child in [1, 2]", "child co \"a\"", "child eq 1.5",
	"child eq \"s\"", "child eq 1.0.0", "child ne true", "child.b.c.b.d eq \"x\"", "child.child.child.k eq 1", "not (child eq 1) and k eq 1", "child lt 5 or child in [\"a\"]", "child.b eq 1"}

func doCyclic(id string, k int) string {
	var outs []string
	intact := true
	for _, rule := range cyclicRules {
		obj, same := cyclicObject(k)
		escaped := false
		guard := func(f func()) {
			defer func() {
				if r := recover(); r != nil {
					escaped = true
				}
			}()
			f()
		}
		var ev *parser.Evaluator
		var verdict, v2, v3 bool
		var perr, e2, dbg error
		guard(func() {
			ev, perr = parser.NewEvaluator(rule)
			if perr == nil {
				verdict, perr = ev.Process(obj)
				dbg = ev.LastDebugErr()
			}
		})
		guard(func() { v2, e2 = rules.Evaluate(rule, obj) })
		guard(func() { v3 = parser.Evaluate(rule, obj) })
		outs = append(outs, fmt.Sprintf("%s,%s,%s,%s,%s%s%s,%s", b01(verdict), errClass(perr), dbgClass(dbg), textClass(dbg)+"/"+textClass(perr), b01(v2), b01(e2 != nil), b01(v3), b01(escaped)))
		if !same() {
			intact = false
		}
	}
	// the caller repairs the object in place (takes the self-reference out) and evaluates again: the diagnostic now describes the
	// repaired value, exactly as for a newly built object with the same content
	repaired := true
	if k == 0 || k == 3 {
		func() {
			defer func() {
				if r := recover(); r != nil {
					repaired = false
				}
			}()
			obj, _ := cyclicObject(k)
			ev, err := parser.NewEvaluator("child eq 1")
			if err != nil {
				return
			}
			ev.Process(obj)
			_ = textHash(ev.LastDebugErr())
			// repair in place
			if k == 0 {
				delete(obj["child"].(map[string]interface{}), "parent")
			} else {
				obj["child"] = map[string]interface{}{"k": 1}
			}
			ev.Process(obj)
			got := textHash(ev.LastDebugErr())
			var fresh map[string]interface{}
			if k == 0 {
				fresh = map[string]interface{}{"k": 1, "child": map[string]interface{}{}}
			} else {
				fresh = map[string]interface{}{"k": 1, "child": map[string]interface{}{"k": 1}}
			}
			ev2, _ := parser.NewEvaluator("child eq 1")
			ev2.Process(fresh)
			if got != textHash(ev2.LastDebugErr()) {
				repaired = false
			}
		}()
	}
	return id + " out=" + strings.Join(outs, ";") + " frame=" + b01(intact) + " repaired=" + b01(repaired)
}
