#!/bin/bash
# process_multi.sh <ID> <outdir> <worktree> [extra check IDs] — for every <outdir>/m<k>: confirm the seeded change in the
# worktree (suite passes, demo fails with it / passes without) and run the property's quick check against it.
# Development aid (mutation calibration); not a registered command.
P=$1; OUT=$2; WT=$3; shift 3
for d in "$OUT"/m*/; do
  d=${d%/}
  [ -f "$d/patch.diff" ] || continue
  bash /verif/tools/confirm_seed.sh "$P" "$d" "$WT" 2>&1 | tail -1 | tee "$d/confirm.json"
  for id in "$P" "$@"; do
    (cd /verif && VERIF_REPO=$WT ./check "$id" 2>&1 | grep -E "VIOLATION|quick:" | cut -c1-200 | sed "s#^#  [$(basename $d)] #")
  done
done
cd "$WT" && git reset -q && git checkout -q -- . && git clean -fdq
