#!/bin/bash
# try_wt.sh <patch.diff> <ID> [<ID> ...] — like try_patch.sh but in a scratch worktree (/tmp/verif-wt),
# leaving /repo untouched: applies the change there and runs the given checks with VERIF_REPO.
# Development aid (mutation calibration); not a registered command.  Run ./build.sh afterwards.
P=$1; shift
WT=/tmp/verif-wt
[ -d $WT ] || git -C /repo worktree add -q --detach $WT HEAD
cd $WT && git reset -q && git checkout -q -- . && git clean -fdq && git apply "$P" || { echo "patch does not apply"; exit 2; }
cd /verif
for id in "$@"; do VERIF_REPO=$WT ./check "$id" 2>&1 | grep -E "VIOLATION|KNOWN|quick:" | cut -c1-220; done
cd $WT && git reset -q && git checkout -q -- . && git clean -fdq
