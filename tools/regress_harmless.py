#!/usr/bin/env python3
"""regress_harmless.py [-j N] [name-prefix ...] — runs ALL twenty quick checks against every behaviour-preserving rewrite under /verif/harmless (each must stay quiet).

Each worker owns a scratch copy of /verif (/tmp/vr<i>, built artefacts included) and a scratch worktree of /repo (/tmp/rw<i>);
for a seed it applies patch.diff in the worktree, runs `VERIF_REPO=/tmp/rw<i> ./check <ID>` for every ID in the seed's
meta.json `caught_by_checks`, and records whether a VIOLATION line was printed.  Seeds whose patch no longer applies to the
current /repo HEAD (written before a later fix: commit touched the same lines) are reported as `noapply`.
Development aid (mutation calibration); not a registered command; removes its scratch copies at the end."""
import json, os, subprocess, sys, threading, queue, shutil

def sh(cmd, **kw):
    return subprocess.run(cmd, shell=True, stdout=subprocess.PIPE, stderr=subprocess.STDOUT, text=True, **kw)

def main():
    args = sys.argv[1:]
    n = 6
    if args[:1] == ['-j']:
        n = int(args[1]); args = args[2:]
    seeds = sorted(d for d in os.listdir('/verif/harmless') if os.path.exists('/verif/harmless/%s/patch.diff' % d))
    if args:
        seeds = [s for s in seeds if any(s.startswith(a) for a in args)]
    q = queue.Queue()
    for s in seeds:
        q.put(s)
    results = {}
    lock = threading.Lock()
    def worker(i):
        vr, rw = '/tmp/vr%d' % i, '/tmp/rw%d' % i
        sh('rm -rf %s; git -C /repo worktree remove --force %s 2>/dev/null; rm -rf %s' % (vr, rw, rw))
        sh('rsync -a --exclude .git --exclude work --exclude replays --exclude seeded /verif/ %s/ && mkdir -p %s/work %s/replays' % (vr, vr, vr))
        sh('git -C /repo worktree add -q --detach %s HEAD' % rw)
        env = dict(os.environ, VERIF_REPO=rw, GOFLAGS='-mod=mod', GOPROXY='off', GOSUMDB='off', GOTOOLCHAIN='local')
        while True:
            try:
                s = q.get_nowait()
            except queue.Empty:
                break
            ids = ['C%02d' % i for i in range(1, 21)]
            sh('git -C %s reset -q --hard && git -C %s clean -fdq' % (rw, rw))
            r = sh('git -C %s apply /verif/harmless/%s/patch.diff' % (rw, s))
            if r.returncode != 0:
                out = {'status': 'noapply'}
            else:
                out = {'status': 'quiet', 'checks': {}}
                for cid in ids:
                    if not cid or not cid.startswith('C'):
                        continue
                    tier = ' --tier thorough' if 'thorough' in cid else ''
                    p = sh('cd %s && timeout 6000 ./check %s%s' % (vr, cid[:3], tier), env=env)
                    last = [l for l in p.stdout.splitlines() if 'quick:' in l or 'thorough:' in l]
                    viol = [l for l in p.stdout.splitlines() if l.startswith('VIOLATION')]
                    out['checks'][cid] = {'violation': bool(viol), 'no_failing_input': any('no-failing-input-found' in l for l in viol), 'line': (last[-1] if last else p.stdout[-300:])}
                    if viol:
                        out['status'] = 'ALARM'
            with lock:
                results[s] = out
                print('%-24s %-8s %s' % (s, out['status'], ' | '.join('%s:%s' % (k, 'V' + ('-nfi' if v['no_failing_input'] else '')) for k, v in out.get('checks', {}).items() if v['violation'])), flush=True)
        sh('git -C /repo worktree remove --force %s; rm -rf %s %s' % (rw, vr, rw))
    ts = [threading.Thread(target=worker, args=(i,)) for i in range(n)]
    for t in ts: t.start()
    for t in ts: t.join()
    sh('git -C /repo worktree prune')
    json.dump(results, open('/verif/harmless/REGRESSION.json', 'w'), indent=1, sort_keys=True)
    c = {}
    for v in results.values():
        c[v['status']] = c.get(v['status'], 0) + 1
    print('SUMMARY', c)

if __name__ == '__main__':
    main()
