#!/bin/bash
# confirm_seed.sh <ID> <outdir> <worktree> — confirms in a scratch worktree that a seeded change
# (a) passes the existing suite, (b) makes its demonstration fail, (c) the demonstration passes
# without it.  Prints one line of JSON.
export GOFLAGS=-mod=mod GOPROXY=off GOSUMDB=off GOTOOLCHAIN=local
ID=$1; OUT=$2; WT=$3
cd "$WT" || exit 2
git reset -q; git checkout -q -- . ; git clean -fdq
git apply "$OUT/patch.diff" || { echo "{\"id\":\"$ID\",\"error\":\"patch does not apply\"}"; exit 1; }
suite=$(go test -vet=off -count=1 ./... 2>&1 | grep -c "^ok")
pkg=$(head -20 "$OUT/demo_test.go" | grep -m1 "^package" | awk '{print $2}')
dir=parser; [ "$pkg" = "rules_test" ] || [ "$pkg" = "rules" ] && dir=.
cp "$OUT/demo_test.go" "$dir/zz_seed_demo_test.go"
race=""; grep -q "race" "$OUT/notes.txt" 2>/dev/null && [ "$ID" = "C12" ] && race="-race"
go test $race -vet=off -count=1 ./$dir/ >/tmp/seed_with.log 2>&1; with=$?
git apply -R "$OUT/patch.diff"
go test $race -vet=off -count=1 ./$dir/ >/tmp/seed_without.log 2>&1; without=$?
git apply "$OUT/patch.diff"
rm -f "$dir/zz_seed_demo_test.go"
echo "{\"id\":\"$ID\",\"suite_ok_packages\":$suite,\"demo_exit_with_change\":$with,\"demo_exit_without_change\":$without}"
