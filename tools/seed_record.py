#!/usr/bin/env python3
"""seed_record.py <seed-name> <property> <outdir> <caught-by comma list> <confirm-json> — stores a confirmed seeded change under /verif/seeded/<seed-name>/"""
import sys, os, json, shutil
name, prop, out, caught, confirm = sys.argv[1:6]
d = os.path.join('/verif/seeded', name)
os.makedirs(d, exist_ok=True)
shutil.copy(os.path.join(out, 'patch.diff'), os.path.join(d, 'patch.diff'))
shutil.copy(os.path.join(out, 'demo_test.go'), os.path.join(d, 'demo_test.go.txt'))
notes = open(os.path.join(out, 'notes.txt'), errors='replace').read()
open(os.path.join(d, 'notes.txt'), 'w').write(notes)
meta = {
    'breaks_property': prop,
    'origin': 'written by an independent sub-agent that saw only the property text and its own scratch worktree of /repo',
    'needs_to_manifest': notes.strip().split('\n\n')[1][:1200] if '\n\n' in notes else notes[:1200],
    'confirmed': json.loads(confirm),
    'what_i_ran': ['tools/confirm_seed.sh (existing suite passes with the change; demo fails with it, passes without)',
                   'tools/try_patch.sh patch.diff <checks> (git -C /repo apply; ./check <ID>; git -C /repo checkout -- .)'],
    'caught_by_checks': [c for c in caught.split(',') if c],
}
json.dump(meta, open(os.path.join(d, 'meta.json'), 'w'), indent=1)
print('recorded', d)
