#!/usr/bin/env python3
"""mkmanifest.py — writes /verif/MANIFEST.json from the table below."""
import json, os
V = os.path.dirname(os.path.dirname(os.path.abspath(__file__)))
CLAIMED = {
 'C14': ('§7 C14', 'Theorem C14_entry_points_agree: for all rule bytes and objects the three entry points of the model agree and an error forces verdict false; the model is tied to /repo by running implementation and extracted model on the same texts (sentences, mutants, token soup, random bytes, full leaf table sample) and comparing (verdict, error class, the three entry points); the search compares the three entry points of the implementation with each other.',
         'Coq kernel; extraction+OCaml glue; harness generators; Visitor.v/Eval.v model of Go semantics (recover, type assertions); ANTLR panics inside NewEvaluator are not modelled',
         'Coq proof on hand-written model + differential correspondence (extracted OCaml model vs Go driver)'),
}
NOT_YET = 'temporarily unclaimed: check under construction in this round (see DESIGN.md section 7)'
def main():
    props = [json.loads(l) for l in open(os.path.join(V, 'properties.jsonl'))]
    checks, na = [], []
    for p in props:
        pid = p['id']
        if pid in CLAIMED:
            ref, text, note, tech = CLAIMED[pid]
            checks.append({
                'property_id': pid,
                'quick_cmd': './check %s --tier quick' % pid,
                'thorough_cmd': './check %s --tier thorough' % pid,
                'evidence_file': 'evidence/%s.json' % pid,
                'replay_cmd_template': './check %s --replay {path}' % pid,
                'engine': 'coq-model+correspondence',
                'level_claimed': {'category': 'proof', 'text': text, 'design_ref': ref},
                'level_note': note,
                'technique': tech,
            })
        else:
            na.append({'property_id': pid, 'reason': NOT_YET})
    m = {
        'version': 1,
        'setup_cmd': './build.sh',
        'hooks': {'guard': 'verif', 'enable': 'no hook is needed: the driver uses the exported API of /repo only (go build, no tags)',
                  'baseline_off_cmd': 'cd /repo && GOFLAGS=-mod=mod GOPROXY=off GOSUMDB=off GOTOOLCHAIN=local go test -vet=off -count=1 ./...',
                  'source_commits': [], 'add_only': True},
        'engines': [{'name': 'coq-model+correspondence', 'path': 'coq/ runner/ driver/ harness/ check',
                     'serves_properties': sorted(CLAIMED), 'kind_free_text': 'Coq 8.16.1 model and theorems; extracted OCaml model run against a Go driver of /repo on generated cases'}],
        'checks': checks,
        'not_applicable': na,
        'notes': 'Seven genuine defects (D1-D7) were repaired by fix: commits in /repo; see known_findings.json and DESIGN.md section 6.',
    }
    json.dump(m, open(os.path.join(V, 'MANIFEST.json'), 'w'), indent=1)
if __name__ == '__main__':
    main()
