#!/usr/bin/env python3
"""g4tocoq.py — translate the ANTLR-4 grammar parser/JsonQuery.g4 into Coq data.

Output (stdout or -o FILE): GrammarGen.v with
  g4_lexer_rules  : list (tkind * re)   implicit literal tokens first (order of first
                                         appearance in parser rules), then the lexer
                                         rules in file order, fragments inlined
  g4_token_types  : list (tkind * N)    ANTLR token type numbers (as in JsonQuery.tokens)
  g4_parser_rules : list (ntname * list (string * list sym))
The subset of ANTLR syntax handled is what this grammar uses: alternatives, #labels,
label=( A | B ), quoted literals, ? * +, [...] sets, 'a'..'z' ranges, ~set, fragment,
// comments.  Anything else makes the translator fail (exit 2), which the checks
report as a broken obligation.
"""
import sys, re as _re

class G4Error(Exception):
    pass

def tokenize(src):
    toks = []
    i, n = 0, len(src)
    while i < n:
        c = src[i]
        if c.isspace():
            i += 1
        elif src.startswith('//', i):
            j = src.find('\n', i)
            i = n if j < 0 else j
        elif src.startswith('/*', i):
            j = src.find('*/', i)
            if j < 0: raise G4Error('unterminated comment')
            i = j + 2
        elif c == "'":
            j = i + 1
            out = []
            while True:
                if j >= n: raise G4Error('unterminated literal')
                if src[j] == '\\':
                    out.append(unescape(src[j+1], src, j)); j += 2
                    if out[-1] is None: raise G4Error('bad escape')
                elif src[j] == "'":
                    break
                else:
                    out.append(ord(src[j])); j += 1
            toks.append(('LIT', out)); i = j + 1
        elif c == '[':
            j = i + 1
            items = []
            while True:
                if j >= n: raise G4Error('unterminated set')
                if src[j] == ']':
                    break
                if src[j] == '\\':
                    ch = unescape(src[j+1], src, j); j += 2
                else:
                    ch = ord(src[j]); j += 1
                if src[j] == '-' and src[j+1] != ']':
                    j += 1
                    if src[j] == '\\':
                        hi = unescape(src[j+1], src, j); j += 2
                    else:
                        hi = ord(src[j]); j += 1
                    items.append((ch, hi))
                else:
                    items.append((ch, ch))
            toks.append(('SET', items)); i = j + 1
        elif c.isalpha() or c == '_':
            j = i
            while j < n and (src[j].isalnum() or src[j] == '_'): j += 1
            toks.append(('ID', src[i:j])); i = j
        elif src.startswith('..', i):
            toks.append(('OP', '..')); i += 2
        elif c in ':|;()?*+~=#':
            toks.append(('OP', c)); i += 1
        else:
            raise G4Error('unexpected character %r at offset %d' % (c, i))
    return toks

def unescape(ch, src, j):
    table = {'n': 10, 'r': 13, 't': 9, 'b': 8, 'f': 12, '\\': 92, "'": 39, '"': 34, '-': 45, ']': 93, '[': 91, '/': 47}
    if ch in table: return table[ch]
    raise G4Error('unsupported escape \\%s' % ch)

class P:
    def __init__(self, toks):
        self.t = toks; self.i = 0
    def peek(self, k=0):
        return self.t[self.i+k] if self.i+k < len(self.t) else ('EOF', None)
    def next(self):
        x = self.peek(); self.i += 1; return x
    def accept(self, kind, val=None):
        x = self.peek()
        if x[0] == kind and (val is None or x[1] == val):
            self.i += 1; return x
        return None
    def expect(self, kind, val=None):
        x = self.accept(kind, val)
        if x is None: raise G4Error('expected %s %r, found %r' % (kind, val, self.peek()))
        return x

    def grammar(self):
        self.expect('ID', 'grammar'); name = self.expect('ID')[1]; self.expect('OP', ';')
        rules = []
        while self.peek()[0] != 'EOF':
            frag = bool(self.accept('ID', 'fragment'))
            rname = self.expect('ID')[1]
            self.expect('OP', ':')
            alts = self.alternatives(top=True)
            self.expect('OP', ';')
            rules.append((rname, frag, alts))
        return name, rules

    def alternatives(self, top=False):
        alts = [self.alternative(top)]
        while self.accept('OP', '|'):
            alts.append(self.alternative(top))
        return alts

    def alternative(self, top):
        elems = []
        label = None
        while True:
            x = self.peek()
            if x[0] == 'OP' and x[1] in ('|', ';', ')'):
                break
            if x[0] == 'OP' and x[1] == '#':
                if not top: raise G4Error('label inside a block')
                self.next(); label = self.expect('ID')[1]
                break
            elems.append(self.element())
        return (elems, label)

    def element(self):
        elabel = None
        if self.peek()[0] == 'ID' and self.peek(1) == ('OP', '='):
            elabel = self.next()[1]; self.next()
        a = self.atom()
        x = self.peek()
        if x[0] == 'OP' and x[1] in '?*+':
            self.next(); a = (x[1], a)
        if elabel is not None:
            a = ('label', elabel, a)
        return a

    def atom(self):
        x = self.next()
        if x[0] == 'ID': return ('ref', x[1])
        if x[0] == 'LIT':
            if self.accept('OP', '..'):
                hi = self.expect('LIT')[1]
                if len(x[1]) != 1 or len(hi) != 1: raise G4Error('range of non-characters')
                return ('set', [(x[1][0], hi[0])])
            return ('lit', x[1])
        if x[0] == 'SET': return ('set', x[1])
        if x == ('OP', '~'):
            a = self.atom()
            if a[0] == 'lit' and len(a[1]) == 1: a = ('set', [(a[1][0], a[1][0])])
            if a[0] != 'set': raise G4Error('~ applied to a non-set')
            return ('set', complement(a[1]))
        if x == ('OP', '('):
            alts = self.alternatives()
            self.expect('OP', ')')
            return ('block', alts)
        raise G4Error('unexpected token %r' % (x,))

def normalize(rs):
    rs = sorted(rs)
    out = []
    for lo, hi in rs:
        if out and lo <= out[-1][1] + 1:
            out[-1] = (out[-1][0], max(out[-1][1], hi))
        else:
            out.append((lo, hi))
    return out

def complement(rs):
    rs = normalize(rs)
    out = []; lo = 0
    for a, b in rs:
        if lo < a: out.append((lo, a - 1))
        lo = b + 1
    if lo <= 0x10FFFF: out.append((lo, 0x10FFFF))
    return out

IMPLICIT_NAMES = {'(': 'K_LP', ')': 'K_RP', 'pr': 'K_PR', '.': 'K_DOT', '-': 'K_MINUS', '[': 'K_LB', ']': 'K_RB'}

def coq_text(cps):
    return '[' + '; '.join(str(c) for c in cps) + ']'

def main():
    args = sys.argv[1:]
    out = None
    if '-o' in args:
        k = args.index('-o'); out = args[k+1]; del args[k:k+2]
    path = args[0]
    try:
        src = open(path, encoding='utf-8').read()
        gname, rules = P(tokenize(src)).grammar()
        text = emit(gname, rules)
    except G4Error as e:
        sys.stderr.write('g4tocoq: %s: %s\n' % (path, e)); sys.exit(2)
    if out:
        try:
            old = open(out, encoding='utf-8').read()
        except OSError:
            old = None
        if old != text:
            open(out, 'w', encoding='utf-8').write(text)
    else:
        sys.stdout.write(text)

def emit(gname, rules):
    lexer = [(n, f, a) for (n, f, a) in rules if n[0].isupper()]
    parser = [(n, f, a) for (n, f, a) in rules if not n[0].isupper()]
    lexnames = {n for (n, _, _) in lexer}
    # a lexer rule that is a single literal is an alias for that literal in parser rules
    alias = {}
    for n, f, alts in lexer:
        if not f and len(alts) == 1 and len(alts[0][0]) == 1 and alts[0][0][0][0] == 'lit':
            alias.setdefault(tuple(alts[0][0][0][1]), n)
    implicit = []   # literals of parser rules without alias, order of first appearance
    def scan(e):
        k = e[0]
        if k == 'lit':
            key = tuple(e[1])
            if key not in alias and key not in implicit: implicit.append(key)
        elif k in '?*+': scan(e[1])
        elif k == 'label': scan(e[2])
        elif k == 'block':
            for (es, _) in e[1]:
                for x in es: scan(x)
    for n, f, alts in parser:
        for (es, _) in alts:
            for e in es: scan(e)
    def implicit_name(key):
        s = ''.join(chr(c) for c in key)
        return IMPLICIT_NAMES.get(s, 'K_LIT_' + ''.join('%02x' % c for c in key))

    o = []
    w = o.append
    w('(* GENERATED by tools/g4tocoq.py from grammar %s. Do not edit: regenerated on every check. *)' % gname)
    w('From Coq Require Import String.')
    w('From Rules Require Import Regex Tokens.')
    w('Open Scope N_scope.')
    w('')
    # regex definitions for every lexer rule, in dependency order
    done = []
    byname = {n: (f, a) for (n, f, a) in lexer}
    def rx(e):
        k = e[0]
        if k == 'lit': return '(lit %s)' % coq_text(e[1])
        if k == 'set': return '(Cls [%s])' % '; '.join('(%d, %d)' % r for r in normalize(e[1]))
        if k == 'ref':
            if e[1] not in byname: raise G4Error('lexer rule refers to unknown rule %s' % e[1])
            need(e[1]); return 're_' + e[1]
        if k == '?': return '(opt %s)' % rx(e[1])
        if k == '*': return '(Star %s)' % rx(e[1])
        if k == '+': return '(plus %s)' % rx(e[1])
        if k == 'label': return rx(e[2])
        if k == 'block': return rx_alts(e[1])
        raise G4Error('cannot translate %r' % (e,))
    def rx_alts(alts):
        parts = []
        for (es, lab) in alts:
            parts.append('(cats [%s])' % '; '.join(rx(e) for e in es))
        return '(alts [%s])' % '; '.join(parts)
    visiting = set()
    def need(n):
        if n in done: return
        if n in visiting: raise G4Error('recursive lexer rule %s' % n)
        visiting.add(n)
        body = rx_alts(byname[n][1])
        visiting.discard(n)
        w('Definition re_%s : re := %s.' % (n, body))
        done.append(n)
    for n, f, a in lexer: need(n)
    w('')
    entries = []
    for key in implicit:
        entries.append('(%s, lit %s)' % (implicit_name(key), coq_text(key)))
    for n, f, a in lexer:
        if not f: entries.append('(K_%s, re_%s)' % (n, n))
    w('Definition g4_lexer_rules : list (tkind * re) := [\n  %s].' % ';\n  '.join(entries))
    w('')
    types = []
    num = 1
    for key in implicit:
        types.append('(%s, %d)' % (implicit_name(key), num)); num += 1
    for n, f, a in lexer:
        if not f:
            types.append('(K_%s, %d)' % (n, num)); num += 1
    w('Definition g4_token_types : list (tkind * N) := [%s].' % '; '.join(types))
    w('')
    # parser rules
    def sym(e):
        k = e[0]
        if k == 'lit':
            key = tuple(e[1])
            return 'T %s' % (('K_' + alias[key]) if key in alias else implicit_name(key))
        if k == 'ref':
            if e[1] in lexnames:
                if byname[e[1]][0]: raise G4Error('parser rule uses fragment %s' % e[1])
                return 'T K_%s' % e[1]
            return 'NT N_%s' % e[1]
        if k == '?': return 'Opt (%s)' % sym(e[1])
        if k == 'label': return sym(e[2])
        if k == 'block':
            ks = []
            for (es, lab) in e[1]:
                if len(es) != 1: raise G4Error('parser block alternative is not a single token')
                s = sym(es[0])
                if not s.startswith('T '): raise G4Error('parser block alternative is not a token')
                ks.append(s[2:])
            return 'TSet [%s]' % '; '.join(ks)
        raise G4Error('cannot translate parser element %r' % (e,))
    prods = []
    for n, f, alts in parser:
        al = []
        for (es, lab) in alts:
            al.append('("%s"%%string, [%s])' % (lab or '', '; '.join(sym(e) for e in es)))
        prods.append('(N_%s, [\n    %s])' % (n, ';\n    '.join(al)))
    w('Definition g4_parser_rules : list (ntname * list (string * list sym)) := [\n  %s].' % ';\n  '.join(prods))
    w('')
    return '\n'.join(o)

if __name__ == '__main__':
    main()
