#!/bin/bash
# try_patch.sh <patch.diff> <ID> [<ID> ...] — applies a seeded change to /repo, confirms that
# it still builds and passes the pinned suite, runs the given checks, and restores /repo.
# Development aid (mutation calibration); not a registered command.
set -u
P=$1; shift
export GOFLAGS=-mod=mod GOPROXY=off GOSUMDB=off GOTOOLCHAIN=local
cd /repo || exit 2
if [ -n "$(git status --porcelain)" ]; then echo "repo not clean"; exit 2; fi
git apply "$P" || { echo "patch does not apply"; exit 2; }
trap 'git -C /repo checkout -- . ; git -C /repo clean -fdq' EXIT
if go build ./... 2>&1 | tail -3 | grep -q .; then echo "BUILD FAILS"; fi
go test -vet=off -count=1 ./... 2>&1 | tail -3
cd /verif
for id in "$@"; do
  ./check "$id" 2>&1 | grep -E "VIOLATION|KNOWN|quick:" 
done
