#!/bin/bash
# try_harmless.sh <worktree> <diff> — applies a behaviour-preserving change in a scratch worktree and
# runs all quick checks against it (VERIF_REPO); prints every line that is not "ok".  Development aid.
WT=$1; D=$2
cd "$WT" && git reset -q && git checkout -q -- . && git clean -fdq && git apply "$D" || { echo "cannot apply $D"; exit 2; }
cd /verif
for i in $(seq -w 1 20); do VERIF_REPO=$WT ./check C$i 2>&1 | grep -E "VIOLATION|quick:" | grep -v -- "-> ok"; done
cd "$WT" && git reset -q && git checkout -q -- . && git clean -fdq
echo "done $D"
