// gofacts — lists, for the hand-written Go files of the repository (generated
// files and tests excluded), the facts C12 and C13 rest on, as Coq data:
//
//	pkg_vars     package-level variables (name, file, kind of the initialiser / declared type:
//	             sentinel, basic, array, struct, map, slice, func, pointer, named, none)
//	pkg_assigns  assignments / inc-dec / address-of applied to a package-level variable
//	pkg_uses     every other mention of a package-level variable in a function body or in a
//	             package-level initialiser: (function, name, context) with context one of
//	             index-read, field-read, range, len, call, method-call, other
//	write_sites  every assignment, inc-dec, delete() whose target is an index,
//	             field or dereference expression: (file, function, target text, shape, root)
//	             root: receiver (the target is the receiver itself indexed / a field of it),
//	             receiver-field (an index into something reached through fields of the receiver),
//	             fresh-local (a local created in the same function by make / a composite literal),
//	             out-param (`*p = ...` where p is a parameter of an unexported top-level function that is only ever
//	             called, and every call in the package passes `&x` with x a plain non-package identifier there),
//	             local, param, pkgvar, call, other
//	go_stmts     `go` statements (function)
//
// Purely syntactic (go/parser + go/ast, no type checking).
package main

import (
	"bytes"
	"fmt"
	"go/ast"
	"go/parser"
	"go/printer"
	"go/token"
	"os"
	"path/filepath"
	"sort"
	"strings"
)

func q(s string) string {
	return `"` + strings.ReplaceAll(s, `"`, `""`) + `"%string`
}

func main() {
	root := os.Args[1]
	dirs := []string{root, filepath.Join(root, "parser")}
	fset := token.NewFileSet()
	type fileT struct {
		name string
		f    *ast.File
	}
	var files []fileT
	for _, d := range dirs {
		ents, err := os.ReadDir(d)
		if err != nil {
			fmt.Fprintln(os.Stderr, err)
			os.Exit(1)
		}
		for _, e := range ents {
			n := e.Name()
			if e.IsDir() || !strings.HasSuffix(n, ".go") || strings.HasSuffix(n, "_test.go") {
				continue
			}
			path := filepath.Join(d, n)
			src, err := os.ReadFile(path)
			if err != nil {
				fmt.Fprintln(os.Stderr, err)
				os.Exit(1)
			}
			head := src
			if len(head) > 400 {
				head = head[:400]
			}
			if bytes.Contains(head, []byte("Code generated")) {
				continue
			}
			f, err := parser.ParseFile(fset, path, src, parser.SkipObjectResolution)
			if err != nil {
				fmt.Fprintln(os.Stderr, err)
				os.Exit(1)
			}
			rel, _ := filepath.Rel(root, path)
			files = append(files, fileT{rel, f})
		}
	}
	sort.Slice(files, func(i, j int) bool { return files[i].name < files[j].name })

	text := func(n ast.Node) string {
		var b bytes.Buffer
		printer.Fprint(&b, fset, n)
		return strings.Join(strings.Fields(b.String()), " ")
	}

	pkgVars := map[string]bool{}
	var varLines, assignLines, useLines, writeLines, goLines []string
	for _, ft := range files {
		for _, d := range ft.f.Decls {
			gd, ok := d.(*ast.GenDecl)
			if !ok || gd.Tok != token.VAR {
				continue
			}
			for _, s := range gd.Specs {
				vs := s.(*ast.ValueSpec)
				for _, nm := range vs.Names {
					if nm.Name == "_" {
						continue
					}
					pkgVars[ft.f.Name.Name+"."+nm.Name] = true
					var init ast.Expr
					if i := indexOf(vs.Names, nm); i < len(vs.Values) {
						init = vs.Values[i]
					}
					varLines = append(varLines, fmt.Sprintf("(%s, %s, %s)", q(nm.Name), q(ft.name), q(varKind(vs.Type, init, text))))
				}
			}
		}
	}
	rootIdent := func(e ast.Expr) string {
		for {
			switch x := e.(type) {
			case *ast.Ident:
				return x.Name
			case *ast.SelectorExpr:
				e = x.X
			case *ast.IndexExpr:
				e = x.X
			case *ast.StarExpr:
				e = x.X
			case *ast.ParenExpr:
				e = x.X
			case *ast.SliceExpr:
				e = x.X
			case *ast.TypeAssertExpr:
				e = x.X
			case *ast.CallExpr:
				return "call:" + text(x.Fun)
			default:
				return "?"
			}
		}
	}
	// functions and methods of the hand-written files by name (for read-only pointer arguments)
	funcsByName := map[string][]*ast.FuncDecl{}
	for _, ft := range files {
		for _, d := range ft.f.Decls {
			if fd, ok := d.(*ast.FuncDecl); ok && fd.Body != nil {
				funcsByName[fd.Name.Name] = append(funcsByName[fd.Name.Name], fd)
			}
		}
	}
	// readOnlyParam: the i-th parameter of the only function of that name is used in reads only
	// (indexed, dereferenced, field-selected, len/cap, ranged over): never a write target, never
	// address-taken, never passed on, assigned, returned, captured or called through.
	readOnlyParam := func(name string, i int) bool {
		fds := funcsByName[name]
		if len(fds) != 1 {
			return false
		}
		fd := fds[0]
		var pnames []string
		for _, f := range fd.Type.Params.List {
			if _, variadic := f.Type.(*ast.Ellipsis); variadic {
				return false
			}
			if len(f.Names) == 0 {
				pnames = append(pnames, "_")
			}
			for _, n := range f.Names {
				pnames = append(pnames, n.Name)
			}
		}
		if i >= len(pnames) || pnames[i] == "_" {
			return false
		}
		pn := pnames[i]
		written := map[ast.Node]bool{}
		markChain := func(e ast.Expr) {
			for {
				written[e] = true
				switch x := e.(type) {
				case *ast.SelectorExpr:
					e = x.X
				case *ast.IndexExpr:
					e = x.X
				case *ast.StarExpr:
					e = x.X
				case *ast.ParenExpr:
					e = x.X
				case *ast.SliceExpr:
					e = x.X
				default:
					return
				}
			}
		}
		ast.Inspect(fd.Body, func(n ast.Node) bool {
			switch x := n.(type) {
			case *ast.AssignStmt:
				for _, l := range x.Lhs {
					markChain(l)
				}
			case *ast.IncDecStmt:
				markChain(x.X)
			case *ast.UnaryExpr:
				if x.Op == token.AND {
					markChain(x.X)
				}
			case *ast.RangeStmt:
				if x.Key != nil {
					markChain(x.Key)
				}
				if x.Value != nil {
					markChain(x.Value)
				}
			}
			return true
		})
		ok := true
		var st []ast.Node
		ast.Inspect(fd.Body, func(n ast.Node) bool {
			if n == nil {
				st = st[:len(st)-1]
				return true
			}
			var parent, grand ast.Node
			if len(st) > 0 {
				parent = st[len(st)-1]
			}
			if len(st) > 1 {
				grand = st[len(st)-2]
			}
			st = append(st, n)
			id, isId := n.(*ast.Ident)
			if !isId || id.Name != pn {
				return true
			}
			if written[n] {
				ok = false
				return true
			}
			switch p := parent.(type) {
			case *ast.IndexExpr:
				if p.X != ast.Expr(id) {
					ok = false
				}
			case *ast.StarExpr:
			case *ast.ParenExpr:
				ok = false
			case *ast.SelectorExpr:
				if p.X != ast.Expr(id) {
					break // a field or method called like the parameter
				}
				if c, isCall := grand.(*ast.CallExpr); isCall && c.Fun == ast.Expr(p) {
					ok = false // a method call may write through the pointer
				}
			case *ast.RangeStmt:
				if p.X != ast.Expr(id) {
					ok = false
				}
			case *ast.CallExpr:
				f, isF := p.Fun.(*ast.Ident)
				if !(isF && (f.Name == "len" || f.Name == "cap") && len(p.Args) == 1 && p.Args[0] == ast.Expr(id)) {
					ok = false
				}
			case *ast.KeyValueExpr:
				if p.Value == ast.Expr(id) {
					ok = false
				}
			default:
				ok = false
			}
			return true
		})
		return ok
	}
	// out-parameters: unexported top-level functions, per parameter position, all of whose uses are calls passing `&ident`
	// (ident not a package-level variable): a write `*p = v` in such a function stores into a variable of its caller
	outParam := map[string]map[string]bool{} // pkg.func -> parameter name -> true
	{
		type fn struct {
			params []string
			calls  int
			bad    map[int]bool
			asVal  bool
		}
		fns := map[string]*fn{}
		for _, ft := range files {
			pkg := ft.f.Name.Name
			for _, d := range ft.f.Decls {
				if x, ok := d.(*ast.FuncDecl); ok && x.Recv == nil && x.Body != nil && !ast.IsExported(x.Name.Name) {
					f := &fn{bad: map[int]bool{}}
					for _, fl := range x.Type.Params.List {
						if len(fl.Names) == 0 {
							f.params = append(f.params, "_")
						}
						for _, n := range fl.Names {
							f.params = append(f.params, n.Name)
						}
					}
					fns[pkg+"."+x.Name.Name] = f
				}
			}
		}
		for _, ft := range files {
			pkg := ft.f.Name.Name
			ast.Inspect(ft.f, func(n ast.Node) bool {
				switch x := n.(type) {
				case *ast.CallExpr:
					if id, ok := x.Fun.(*ast.Ident); ok {
						if f := fns[pkg+"."+id.Name]; f != nil {
							f.calls++
							for i := range f.params {
								okArg := false
								if i < len(x.Args) {
									if u, isU := x.Args[i].(*ast.UnaryExpr); isU && u.Op == token.AND {
										if a, isI := u.X.(*ast.Ident); isI && !pkgVars[pkg+"."+a.Name] {
											okArg = true
										}
									}
								}
								if !okArg {
									f.bad[i] = true
								}
							}
						}
					}
				}
				return true
			})
		}
		// used as a value? per package, identifiers named like the function that are not call heads nor the declaration
		for _, ft := range files {
			pkg := ft.f.Name.Name
			heads := map[*ast.Ident]bool{}
			decls := map[*ast.Ident]bool{}
			ast.Inspect(ft.f, func(n ast.Node) bool {
				switch x := n.(type) {
				case *ast.CallExpr:
					if id, ok := x.Fun.(*ast.Ident); ok {
						heads[id] = true
					}
				case *ast.FuncDecl:
					decls[x.Name] = true
				}
				return true
			})
			ast.Inspect(ft.f, func(n ast.Node) bool {
				if id, ok := n.(*ast.Ident); ok && !heads[id] && !decls[id] {
					if f := fns[pkg+"."+id.Name]; f != nil {
						f.asVal = true // also hit by a local variable of the same name: errs on the strict side
					}
				}
				return true
			})
		}
		for key, f := range fns {
			if f.calls == 0 || f.asVal {
				continue
			}
			for i, pn := range f.params {
				if !f.bad[i] && pn != "_" {
					if outParam[key] == nil {
						outParam[key] = map[string]bool{}
					}
					outParam[key][pn] = true
				}
			}
		}
	}
	// scan one function body (or one package-level initialiser)
	scan := func(pkg, file, fname string, recv, params *ast.FieldList, results *ast.FieldList, body ast.Node) {
		local := map[string]bool{}
		recvNames := map[string]bool{}
		paramNames := map[string]bool{}
		fresh := map[string]bool{}
		addFields := func(fl *ast.FieldList, into map[string]bool) {
			if fl == nil {
				return
			}
			for _, f := range fl.List {
				for _, n := range f.Names {
					local[n.Name] = true
					if into != nil {
						into[n.Name] = true
					}
				}
			}
		}
		addFields(recv, recvNames)
		addFields(params, paramNames)
		addFields(results, nil)
		isFresh := func(e ast.Expr) bool {
			switch x := e.(type) {
			case *ast.CompositeLit:
				return true
			case *ast.UnaryExpr:
				_, ok := x.X.(*ast.CompositeLit)
				return ok && x.Op == token.AND
			case *ast.CallExpr:
				if id, ok := x.Fun.(*ast.Ident); ok && (id.Name == "make" || id.Name == "new") {
					return true
				}
			}
			return false
		}
		ast.Inspect(body, func(n ast.Node) bool {
			switch x := n.(type) {
			case *ast.AssignStmt:
				if x.Tok == token.DEFINE {
					for i, l := range x.Lhs {
						if id, ok := l.(*ast.Ident); ok {
							local[id.Name] = true
							if len(x.Lhs) == len(x.Rhs) && isFresh(x.Rhs[i]) {
								fresh[id.Name] = true
							}
						}
					}
				} else {
					// a fresh local that is re-assigned is no longer known to be fresh
					for i, l := range x.Lhs {
						if id, ok := l.(*ast.Ident); ok && fresh[id.Name] && !(len(x.Lhs) == len(x.Rhs) && isFresh(x.Rhs[i])) {
							fresh[id.Name] = false
						}
					}
				}
			case *ast.ValueSpec:
				for i, n := range x.Names {
					local[n.Name] = true
					if len(x.Values) == 0 {
						// `var x T` without initialiser: the zero value - a struct value of its own, or a nil map / slice / pointer
						// (a write through which panics instead of reaching anything)
						fresh[n.Name] = true
					}
					if i < len(x.Values) && isFresh(x.Values[i]) {
						fresh[n.Name] = true
					}
				}
			case *ast.RangeStmt:
				if x.Tok == token.DEFINE {
					for _, e := range []ast.Expr{x.Key, x.Value} {
						if id, ok := e.(*ast.Ident); ok {
							local[id.Name] = true
						}
					}
				}
			case *ast.FuncLit:
				addFields(x.Type.Params, paramNames)
				addFields(x.Type.Results, nil)
			}
			return true
		})
		isPkgVar := func(name string) bool { return !local[name] && pkgVars[pkg+"."+name] }
		// the chain from the root identifier to e: only selectors / parens / stars?
		plainChain := func(e ast.Expr) (onlyFields bool, clean bool) {
			onlyFields, clean = true, true
			for {
				switch x := e.(type) {
				case *ast.Ident:
					return
				case *ast.SelectorExpr:
					e = x.X
				case *ast.ParenExpr:
					e = x.X
				case *ast.StarExpr:
					e = x.X
				case *ast.IndexExpr:
					onlyFields = false
					e = x.X
				case *ast.SliceExpr:
					onlyFields = false
					e = x.X
				default:
					return false, false
				}
			}
		}
		rootKind := func(e ast.Expr) string {
			r := rootIdent(e)
			if strings.HasPrefix(r, "call:") {
				return "call"
			}
			if r == "?" {
				return "other"
			}
			var inner ast.Expr
			switch x := e.(type) {
			case *ast.IndexExpr:
				inner = x.X
			case *ast.SelectorExpr:
				inner = x.X
			case *ast.StarExpr:
				inner = x.X
			default:
				inner = e
			}
			onlyFields, clean := plainChain(inner)
			if !clean {
				return "other"
			}
			switch {
			case isPkgVar(r):
				return "pkgvar"
			case recvNames[r]:
				if _, isIndex := e.(*ast.IndexExpr); isIndex {
					if id, ok := inner.(*ast.Ident); ok && id.Name == r {
						return "receiver"
					}
					if onlyFields {
						return "receiver-field"
					}
					return "other"
				}
				if onlyFields {
					return "receiver"
				}
				return "other"
			case fresh[r]:
				return "fresh-local"
			case paramNames[r]:
				if st, isStar := e.(*ast.StarExpr); isStar && recv == nil {
					if id, isId := st.X.(*ast.Ident); isId {
						bare := fname[strings.LastIndex(fname, ":")+1:]
						if outParam[pkg+"."+bare][id.Name] {
							return "out-param"
						}
					}
				}
				return "param"
			case local[r]:
				return "local"
			}
			return "other"
		}
		target := func(e ast.Expr, how string) {
			r := rootIdent(e)
			if isPkgVar(r) {
				assignLines = append(assignLines, fmt.Sprintf("(%s, %s, %s)", q(fname), q(text(e)), q(how)))
			}
			shape := ""
			switch e.(type) {
			case *ast.IndexExpr:
				shape = "index"
			case *ast.SelectorExpr:
				shape = "field"
			case *ast.StarExpr:
				shape = "deref"
			}
			if shape != "" {
				writeLines = append(writeLines, fmt.Sprintf("(%s, %s, %s, %s, %s)", q(file), q(fname), q(text(e)), q(shape), q(rootKind(e))))
			}
		}
		// uses of package-level variables, with their syntactic context
		var stack []ast.Node
		ast.Inspect(body, func(n ast.Node) bool {
			if n == nil {
				stack = stack[:len(stack)-1]
				return true
			}
			var parent ast.Node
			if len(stack) > 0 {
				parent = stack[len(stack)-1]
			}
			stack = append(stack, n)
			switch x := n.(type) {
			case *ast.AssignStmt:
				if x.Tok != token.DEFINE {
					for _, l := range x.Lhs {
						target(l, "assign")
					}
				}
			case *ast.IncDecStmt:
				target(x.X, "incdec")
			case *ast.UnaryExpr:
				if x.Op == token.AND {
					if r := rootIdent(x.X); isPkgVar(r) {
						readonly := false
						if c, isCall := parent.(*ast.CallExpr); isCall {
							callee := ""
							switch f := c.Fun.(type) {
							case *ast.Ident:
								if !local[f.Name] {
									callee = f.Name
								}
							case *ast.SelectorExpr:
								callee = f.Sel.Name
							}
							for i, a := range c.Args {
								if a == ast.Expr(x) && callee != "" && readOnlyParam(callee, i) {
									readonly = true
								}
							}
						}
						if readonly {
							useLines = append(useLines, fmt.Sprintf("(%s, %s, %s)", q(fname), q(r), q("addr-readonly")))
						} else {
							assignLines = append(assignLines, fmt.Sprintf("(%s, %s, %s)", q(fname), q(text(x.X)), q("address-of")))
						}
					}
				}
			case *ast.CallExpr:
				if id, ok := x.Fun.(*ast.Ident); ok && (id.Name == "delete" || id.Name == "clear" || id.Name == "copy") && len(x.Args) > 0 {
					writeLines = append(writeLines, fmt.Sprintf("(%s, %s, %s, %s, %s)", q(file), q(fname), q(text(x.Args[0])), q(id.Name), q(rootKind(x.Args[0]))))
				}
			case *ast.GoStmt:
				goLines = append(goLines, fmt.Sprintf("(%s, %s)", q(fname), q(text(x.Call.Fun))))
			case *ast.Ident:
				if !isPkgVar(x.Name) {
					break
				}
				ctx := "other"
				switch p := parent.(type) {
				case *ast.SelectorExpr:
					if p.Sel == x {
						ctx = "" // a field or method name, not a variable
					} else {
						ctx = "field-read"
						if len(stack) >= 3 {
							if c, ok := stack[len(stack)-3].(*ast.CallExpr); ok && c.Fun == ast.Expr(p) {
								ctx = "method-call"
							}
						}
					}
				case *ast.IndexExpr:
					if p.X == ast.Expr(x) {
						ctx = "index-read"
					}
				case *ast.RangeStmt:
					if p.X == ast.Expr(x) {
						ctx = "range"
					}
				case *ast.CallExpr:
					if p.Fun == ast.Expr(x) {
						ctx = "call"
					} else if id, ok := p.Fun.(*ast.Ident); ok && (id.Name == "len" || id.Name == "cap") {
						ctx = "len"
					}
				case *ast.KeyValueExpr:
					if p.Key == ast.Expr(x) && len(stack) >= 3 {
						if cl, ok := stack[len(stack)-3].(*ast.CompositeLit); ok {
							switch cl.Type.(type) {
							case *ast.MapType, *ast.ArrayType:
							default:
								ctx = "" // a field name of a struct literal
							}
						}
					}
				}
				if ctx != "" {
					useLines = append(useLines, fmt.Sprintf("(%s, %s, %s)", q(fname), q(x.Name), q(ctx)))
				}
			}
			return true
		})
	}
	for _, ft := range files {
		pkg := ft.f.Name.Name
		for _, d := range ft.f.Decls {
			switch x := d.(type) {
			case *ast.FuncDecl:
				if x.Body == nil {
					continue
				}
				fname := x.Name.Name
				if x.Recv != nil && len(x.Recv.List) > 0 {
					fname = text(x.Recv.List[0].Type) + "." + fname
				}
				scan(pkg, ft.name, ft.name+":"+fname, x.Recv, x.Type.Params, x.Type.Results, x.Body)
			case *ast.GenDecl:
				if x.Tok != token.VAR {
					continue
				}
				for _, s := range x.Specs {
					vs := s.(*ast.ValueSpec)
					for i, v := range vs.Values {
						name := "_"
						if i < len(vs.Names) {
							name = vs.Names[i].Name
						}
						scan(pkg, ft.name, ft.name+":var "+name, nil, nil, nil, v)
					}
				}
			}
		}
	}
	fmt.Println("(* GENERATED by tools/gofacts from the hand-written Go files of the repository. Do not edit: regenerated on every check. *)")
	fmt.Println("From Coq Require Import List String.")
	fmt.Println("Import ListNotations.")
	var names []string
	for _, ft := range files {
		names = append(names, q(ft.name))
	}
	fmt.Printf("Definition hand_written_files : list string := [\n  %s].\n", strings.Join(names, ";\n  "))
	fmt.Printf("Definition pkg_vars : list (string * string * string) := [\n  %s].\n", strings.Join(varLines, ";\n  "))
	fmt.Printf("Definition pkg_assigns : list (string * string * string) := [\n  %s].\n", strings.Join(assignLines, ";\n  "))
	fmt.Printf("Definition pkg_uses : list (string * string * string) := [\n  %s].\n", strings.Join(useLines, ";\n  "))
	fmt.Printf("Definition write_sites : list (string * string * string * string * string) := [\n  %s].\n", strings.Join(writeLines, ";\n  "))
	fmt.Printf("Definition go_stmts : list (string * string) := [\n  %s].\n", strings.Join(goLines, ";\n  "))
	// methods named like the ten operators, by receiver type (which typed Operation overrides what)
	var methLines []string
	opNames := map[string]bool{"EQ": true, "NE": true, "GT": true, "LT": true, "GE": true, "LE": true, "CO": true, "SW": true, "EW": true, "IN": true}
	for _, ft := range files {
		for _, d := range ft.f.Decls {
			fd, ok := d.(*ast.FuncDecl)
			if !ok || fd.Recv == nil || len(fd.Recv.List) == 0 || !opNames[fd.Name.Name] {
				continue
			}
			methLines = append(methLines, fmt.Sprintf("(%s, %s)", q(strings.TrimPrefix(text(fd.Recv.List[0].Type), "*")), q(fd.Name.Name)))
		}
	}
	fmt.Printf("Definition op_methods : list (string * string) := [\n  %s].\n", strings.Join(methLines, ";\n  "))
}

func indexOf(names []*ast.Ident, n *ast.Ident) int {
	for i, x := range names {
		if x == n {
			return i
		}
	}
	return len(names)
}

func typeKind(t ast.Expr) string {
	switch x := t.(type) {
	case *ast.ArrayType:
		if x.Len != nil {
			return "array"
		}
		return "slice"
	case *ast.StructType:
		return "struct"
	case *ast.MapType:
		return "map"
	case *ast.FuncType:
		return "func"
	case *ast.StarExpr:
		return "pointer"
	case *ast.ChanType:
		return "chan"
	case *ast.InterfaceType:
		return "interface"
	case *ast.Ident:
		switch x.Name {
		case "bool", "string", "int", "int8", "int16", "int32", "int64", "uint", "uint8", "uint16", "uint32", "uint64", "uintptr",
			"float32", "float64", "complex64", "complex128", "byte", "rune":
			return "basic"
		}
		return "named"
	}
	return "named"
}

// varKind classifies a package-level variable by its declared type or, without one, by the
// shape of its initialiser.
func varKind(t ast.Expr, init ast.Expr, text func(ast.Node) string) string {
	if t != nil {
		return typeKind(t)
	}
	switch x := init.(type) {
	case nil:
		return "none"
	case *ast.BasicLit:
		return "basic"
	case *ast.CompositeLit:
		if x.Type == nil {
			return "named"
		}
		return typeKind(x.Type)
	case *ast.FuncLit:
		return "func"
	case *ast.UnaryExpr:
		if x.Op == token.AND {
			return "pointer"
		}
		return "basic"
	case *ast.CallExpr:
		switch text(x.Fun) {
		case "errors.New", "fmt.Errorf":
			return "sentinel"
		}
		return "named"
	case *ast.Ident:
		if x.Name == "true" || x.Name == "false" {
			return "basic"
		}
	}
	return "named"
}
