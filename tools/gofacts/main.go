// gofacts — lists, for the hand-written Go files of the repository (generated
// files and tests excluded), the facts C12 and C13 rest on, as Coq data:
//   pkg_vars     package-level variables (name, file, has initialiser)
//   pkg_assigns  assignments / inc-dec / address-of applied to a package-level variable
//   write_sites  every assignment, inc-dec, delete() whose target is an index,
//                field or dereference expression: (function, target text, shape)
//   go_stmts     `go` statements (function)
// Purely syntactic (go/parser + go/ast, no type checking).
package main

import (
	"bytes"
	"fmt"
	"go/ast"
	"go/parser"
	"go/printer"
	"go/token"
	"os"
	"path/filepath"
	"sort"
	"strings"
)

func q(s string) string {
	return `"` + strings.ReplaceAll(s, `"`, `""`) + `"%string`
}

func main() {
	root := os.Args[1]
	dirs := []string{root, filepath.Join(root, "parser")}
	fset := token.NewFileSet()
	type fileT struct {
		name string
		f    *ast.File
	}
	var files []fileT
	for _, d := range dirs {
		ents, err := os.ReadDir(d)
		if err != nil {
			fmt.Fprintln(os.Stderr, err)
			os.Exit(1)
		}
		for _, e := range ents {
			n := e.Name()
			if e.IsDir() || !strings.HasSuffix(n, ".go") || strings.HasSuffix(n, "_test.go") {
				continue
			}
			path := filepath.Join(d, n)
			src, err := os.ReadFile(path)
			if err != nil {
				fmt.Fprintln(os.Stderr, err)
				os.Exit(1)
			}
			head := src
			if len(head) > 400 {
				head = head[:400]
			}
			if bytes.Contains(head, []byte("Code generated")) {
				continue
			}
			f, err := parser.ParseFile(fset, path, src, parser.SkipObjectResolution)
			if err != nil {
				fmt.Fprintln(os.Stderr, err)
				os.Exit(1)
			}
			rel, _ := filepath.Rel(root, path)
			files = append(files, fileT{rel, f})
		}
	}
	sort.Slice(files, func(i, j int) bool { return files[i].name < files[j].name })

	text := func(n ast.Node) string {
		var b bytes.Buffer
		printer.Fprint(&b, fset, n)
		return strings.Join(strings.Fields(b.String()), " ")
	}

	pkgVars := map[string]bool{}
	var varLines, assignLines, writeLines, goLines []string
	for _, ft := range files {
		for _, d := range ft.f.Decls {
			gd, ok := d.(*ast.GenDecl)
			if !ok || gd.Tok != token.VAR {
				continue
			}
			for _, s := range gd.Specs {
				vs := s.(*ast.ValueSpec)
				for _, nm := range vs.Names {
					if nm.Name == "_" {
						continue
					}
					pkgVars[ft.f.Name.Name+"."+nm.Name] = true
					varLines = append(varLines, fmt.Sprintf("(%s, %s, %v)", q(nm.Name), q(ft.name), len(vs.Values) > 0))
				}
			}
		}
	}
	rootIdent := func(e ast.Expr) string {
		for {
			switch x := e.(type) {
			case *ast.Ident:
				return x.Name
			case *ast.SelectorExpr:
				e = x.X
			case *ast.IndexExpr:
				e = x.X
			case *ast.StarExpr:
				e = x.X
			case *ast.ParenExpr:
				e = x.X
			case *ast.SliceExpr:
				e = x.X
			case *ast.TypeAssertExpr:
				e = x.X
			case *ast.CallExpr:
				return "call:" + text(x.Fun)
			default:
				return "?"
			}
		}
	}
	for _, ft := range files {
		pkg := ft.f.Name.Name
		for _, d := range ft.f.Decls {
			fd, ok := d.(*ast.FuncDecl)
			if !ok || fd.Body == nil {
				continue
			}
			fname := fd.Name.Name
			if fd.Recv != nil && len(fd.Recv.List) > 0 {
				fname = text(fd.Recv.List[0].Type) + "." + fname
			}
			fname = ft.name + ":" + fname
			// names declared locally (params, receiver, :=, var) shadow package-level ones
			local := map[string]bool{}
			addFields := func(fl *ast.FieldList) {
				if fl == nil {
					return
				}
				for _, f := range fl.List {
					for _, n := range f.Names {
						local[n.Name] = true
					}
				}
			}
			addFields(fd.Recv)
			addFields(fd.Type.Params)
			addFields(fd.Type.Results)
			ast.Inspect(fd.Body, func(n ast.Node) bool {
				switch x := n.(type) {
				case *ast.AssignStmt:
					if x.Tok == token.DEFINE {
						for _, l := range x.Lhs {
							if id, ok := l.(*ast.Ident); ok {
								local[id.Name] = true
							}
						}
					}
				case *ast.ValueSpec:
					for _, n := range x.Names {
						local[n.Name] = true
					}
				case *ast.RangeStmt:
					if x.Tok == token.DEFINE {
						for _, e := range []ast.Expr{x.Key, x.Value} {
							if id, ok := e.(*ast.Ident); ok {
								local[id.Name] = true
							}
						}
					}
				case *ast.FuncLit:
					addFields(x.Type.Params)
				}
				return true
			})
			isPkgVar := func(name string) bool { return !local[name] && pkgVars[pkg+"."+name] }
			target := func(e ast.Expr, how string) {
				r := rootIdent(e)
				if isPkgVar(r) {
					assignLines = append(assignLines, fmt.Sprintf("(%s, %s, %s)", q(fname), q(text(e)), q(how)))
				}
				switch e.(type) {
				case *ast.IndexExpr:
					writeLines = append(writeLines, fmt.Sprintf("(%s, %s, %s)", q(fname), q(text(e)), q("index")))
				case *ast.SelectorExpr:
					writeLines = append(writeLines, fmt.Sprintf("(%s, %s, %s)", q(fname), q(text(e)), q("field")))
				case *ast.StarExpr:
					writeLines = append(writeLines, fmt.Sprintf("(%s, %s, %s)", q(fname), q(text(e)), q("deref")))
				}
			}
			ast.Inspect(fd.Body, func(n ast.Node) bool {
				switch x := n.(type) {
				case *ast.AssignStmt:
					if x.Tok != token.DEFINE {
						for _, l := range x.Lhs {
							target(l, "assign")
						}
					}
				case *ast.IncDecStmt:
					target(x.X, "incdec")
				case *ast.UnaryExpr:
					if x.Op == token.AND {
						if r := rootIdent(x.X); isPkgVar(r) {
							assignLines = append(assignLines, fmt.Sprintf("(%s, %s, %s)", q(fname), q(text(x.X)), q("address-of")))
						}
					}
				case *ast.CallExpr:
					if id, ok := x.Fun.(*ast.Ident); ok && (id.Name == "delete" || id.Name == "clear" || id.Name == "copy") && len(x.Args) > 0 {
						writeLines = append(writeLines, fmt.Sprintf("(%s, %s, %s)", q(fname), q(text(x.Args[0])), q(id.Name)))
					}
				case *ast.GoStmt:
					goLines = append(goLines, fmt.Sprintf("(%s, %s)", q(fname), q(text(x.Call.Fun))))
				}
				return true
			})
		}
	}
	fmt.Println("(* GENERATED by tools/gofacts from the hand-written Go files of the repository. Do not edit: regenerated on every check. *)")
	fmt.Println("From Coq Require Import List String.")
	fmt.Println("Import ListNotations.")
	var names []string
	for _, ft := range files {
		names = append(names, q(ft.name))
	}
	fmt.Printf("Definition hand_written_files : list string := [\n  %s].\n", strings.Join(names, ";\n  "))
	fmt.Printf("Definition pkg_vars : list (string * string * bool) := [\n  %s].\n", strings.Join(varLines, ";\n  "))
	fmt.Printf("Definition pkg_assigns : list (string * string * string) := [\n  %s].\n", strings.Join(assignLines, ";\n  "))
	fmt.Printf("Definition write_sites : list (string * string * string) := [\n  %s].\n", strings.Join(writeLines, ";\n  "))
	fmt.Printf("Definition go_stmts : list (string * string) := [\n  %s].\n", strings.Join(goLines, ";\n  "))
	// methods named like the ten operators, by receiver type (which typed Operation overrides what)
	var methLines []string
	opNames := map[string]bool{"EQ": true, "NE": true, "GT": true, "LT": true, "GE": true, "LE": true, "CO": true, "SW": true, "EW": true, "IN": true}
	for _, ft := range files {
		for _, d := range ft.f.Decls {
			fd, ok := d.(*ast.FuncDecl)
			if !ok || fd.Recv == nil || len(fd.Recv.List) == 0 || !opNames[fd.Name.Name] {
				continue
			}
			methLines = append(methLines, fmt.Sprintf("(%s, %s)", q(strings.TrimPrefix(text(fd.Recv.List[0].Type), "*")), q(fd.Name.Name)))
		}
	}
	fmt.Printf("Definition op_methods : list (string * string) := [\n  %s].\n", strings.Join(methLines, ";\n  "))
}
