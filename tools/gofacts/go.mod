module gofacts

go 1.21
