#!/bin/bash
# build.sh — builds the whole framework from files on disk, offline:
#   generated Coq inputs -> full .vo build -> extraction -> OCaml runner -> Go driver.
# Idempotent; every check calls it (it is a no-op when nothing changed).
set -u
cd "$(dirname "$0")"
V=$(pwd)
REPO=${VERIF_REPO:-/repo}
export GOFLAGS=-mod=mod GOPROXY=off GOSUMDB=off GOTOOLCHAIN=local CARGO_NET_OFFLINE=true PIP_NO_INDEX=1
mkdir -p work
exec 9>work/.build.lock
flock 9
status=0

# 1. generated model parts (only rewritten when their content changes)
if ! python3 tools/g4tocoq.py "$REPO/parser/JsonQuery.g4" -o coq/GrammarGen.v 2>work/g4tocoq.err; then
  echo "BUILD: g4tocoq failed: $(cat work/g4tocoq.err)"; status=3
fi
if [ -d tools/gofacts ]; then
  ( cd tools/gofacts && go build -o gofacts . ) 2>work/gofacts.err || { echo "BUILD: gofacts build failed"; status=3; }
  if [ -x tools/gofacts/gofacts ]; then
    if tools/gofacts/gofacts "$REPO" > work/SourceFacts.v.new 2>>work/gofacts.err; then
      cmp -s work/SourceFacts.v.new coq/SourceFacts.v || cp work/SourceFacts.v.new coq/SourceFacts.v
    else
      echo "BUILD: gofacts failed: $(tail -3 work/gofacts.err)"; status=3
    fi
  fi
fi
# unicode.ToLower table of the Go toolchain in use (regenerated when the toolchain changes)
gover=$(go version 2>/dev/null)
if [ ! -f coq/LowerGen.v ] || [ "$(cat work/.gover 2>/dev/null)" != "$gover" ]; then
  if ( cd tools && go run gen_lower.go > ../work/LowerGen.v.new ) 2>work/gen_lower.err; then
    cmp -s work/LowerGen.v.new coq/LowerGen.v || cp work/LowerGen.v.new coq/LowerGen.v
    echo "$gover" > work/.gover
  else
    echo "BUILD: gen_lower failed"; status=3
  fi
fi

# 2. Coq: full .vo build (never -vos); -k so that the executable model still
#    builds when a proof file breaks
( cd coq && { [ -f Makefile ] && [ Makefile -nt _CoqProject ] || coq_makefile -f _CoqProject -o Makefile >/dev/null; } \
  && timeout 3000 make -k -j16 >../work/coq-build.log 2>&1 ) || { echo "BUILD: coq make reported errors (see work/coq-build.log)"; [ $status -eq 0 ] && status=1; }

# 3. extraction + OCaml runner (only when the model changed)
if [ -f coq/Runner.vo ]; then
  if [ ! -x runner/runner ] || [ coq/Runner.vo -nt runner/runner ] || [ runner/main.ml -nt runner/runner ]; then
    ( cd runner && timeout 600 coqc -Q ../coq Rules ../coq/Extract.v >../work/extract.log 2>&1 \
      && rm -f ../coq/Extract.vo ../coq/Extract.glob ../coq/.Extract.aux \
      && timeout 600 ocamlfind ocamlopt -O3 -w -a model.mli model.ml main.ml -o runner >>../work/extract.log 2>&1 ) \
      || { echo "BUILD: extraction / runner build failed (see work/extract.log)"; status=2; }
  fi
else
  echo "BUILD: coq/Runner.vo missing, executable model not rebuilt"; status=2
fi

# 4. Go driver against the current working tree of the repository
( cd driver && sed "s#@REPO@#$REPO#" go.mod.tmpl > go.mod && cp "$REPO/go.sum" go.sum \
  && timeout 600 go build -o driver . >../work/driver-build.log 2>&1 \
  && timeout 900 go build -race -o driver-race . >>../work/driver-build.log 2>&1 ) || { echo "BUILD: driver does not build against $REPO (see work/driver-build.log)"; status=4; }

exit $status
