(* main.ml — glue around the extracted model: read case lines, hand each to
   Model.run_line as a list of byte values (type n of the extracted code), print
   the answer.  Nothing is decided here. *)

let rec pos_of_int (i : int) : Model.positive =
  if i = 1 then Model.XH
  else if i land 1 = 0 then Model.XO (pos_of_int (i lsr 1))
  else Model.XI (pos_of_int (i lsr 1))

let n_of_int (i : int) : Model.n = if i = 0 then Model.N0 else Model.Npos (pos_of_int i)

let rec int_of_pos (p : Model.positive) : int =
  match p with Model.XH -> 1 | Model.XO q -> 2 * int_of_pos q | Model.XI q -> 2 * int_of_pos q + 1

let int_of_n (x : Model.n) : int = match x with Model.N0 -> 0 | Model.Npos p -> int_of_pos p

(* byte values are converted once *)
let table = Array.init 256 n_of_int

let bytes_of_string (s : string) : Model.n list =
  let r = ref [] in
  for i = String.length s - 1 downto 0 do
    r := table.(Char.code s.[i]) :: !r
  done;
  !r

let string_of_bytes (l : Model.n list) : string =
  let b = Buffer.create 256 in
  List.iter (fun x -> Buffer.add_char b (Char.chr (int_of_n x land 255))) l;
  Buffer.contents b

let () =
  let ic = if Array.length Sys.argv > 1 then open_in Sys.argv.(1) else stdin in
  let oc = if Array.length Sys.argv > 2 then open_out Sys.argv.(2) else stdout in
  (try
     while true do
       let line = input_line ic in
       if String.length line > 0 then begin
         output_string oc (string_of_bytes (Model.run_line (bytes_of_string line)));
         output_char oc '\n'
       end
     done
   with End_of_file -> ());
  close_out oc
