// Demonstrations of the genuine defects D1..D7 found on the pinned tree
// (commit 15edbfd).  Copy into /repo/parser/ (package parser_test, exported API
// only) and run `go test -run TestDefect ./parser/`: every sub-test fails on the
// pinned tree and passes after the corresponding "fix:" commit.
package parser_test

import (
	"errors"
	"math"
	"testing"

	"github.com/nikunjy/rules"
	"github.com/nikunjy/rules/parser"
)

type o = map[string]interface{}

func run(t *testing.T, rule string, obj o) (bool, error, error) {
	t.Helper()
	ev, err := parser.NewEvaluator(rule)
	if err != nil {
		return false, err, nil
	}
	v, err := ev.Process(obj)
	return v, err, ev.LastDebugErr()
}

func TestDefectD1_StateLeak(t *testing.T) {
	for _, c := range []struct {
		rule string
		obj  o
		want bool
	}{
		{`y == 1 and x.a == 1`, o{"y": 1}, false},
		{`x.a.b == 1 or z == 1`, o{"z": 1}, true},
		{`y eq 1 and x.y pr`, o{"y": 1}, false},
		{`x.a == 1 and y == 1`, o{"y": 1}, false},
	} {
		v, err, _ := run(t, c.rule, c.obj)
		if err != nil || v != c.want {
			t.Errorf("%q on %v: got (%v,%v) want %v", c.rule, c.obj, v, err, c.want)
		}
	}
}

func TestDefectD2_FloatTruncation(t *testing.T) {
	for _, c := range []struct {
		rule string
		x    interface{}
		want bool
	}{
		{`x eq 1`, 1.7, false}, {`x ne 1`, 1.7, true}, {`x gt 1`, 1.7, true}, {`x le 1`, 1.7, false},
		{`x eq 2`, 2.0, true}, {`x lt 1`, math.NaN(), false}, {`x ne 1`, math.NaN(), true},
		{`x eq 0`, -0.5, false}, {`x lt 0`, -0.5, true},
		{`x lt 5`, math.Inf(1), false}, {`x gt 5`, math.Inf(-1), false},
	} {
		v, err, _ := run(t, c.rule, o{"x": c.x})
		if err != nil || v != c.want {
			t.Errorf("%q on x=%v: got (%v,%v) want %v", c.rule, c.x, v, err, c.want)
		}
	}
}

func TestDefectD3_NonSentencesEvaluated(t *testing.T) {
	obj := o{"x": 1, "y": 2}
	for _, rule := range []string{
		`x eq 1 AND y eq 2`, `x eq 1 garbage`, `x lt 1e5`, `x eq 01`, `not x eq 1`,
		"x eq 1\n and y eq 2", `x eq 1 and`, `(x eq 1`, `x eq 1)`, `x  eq 1`, ``,
	} {
		v, err, _ := run(t, rule, obj)
		if err == nil || v {
			t.Errorf("NewEvaluator+Process %q: got (%v,%v) want (false, error)", rule, v, err)
		}
		v, err = rules.Evaluate(rule, obj)
		if err == nil || v {
			t.Errorf("rules.Evaluate %q: got (%v,%v) want (false, error)", rule, v, err)
		}
		if parser.Evaluate(rule, obj) {
			t.Errorf("parser.Evaluate %q: got true", rule)
		}
	}
	// outer whitespace is not part of the rule (cmd/rules.txt ends in a newline)
	if v, err, _ := run(t, " x eq 1\n", obj); err != nil || !v {
		t.Errorf("outer whitespace: got (%v,%v)", v, err)
	}
}

func TestDefectD4_FailureNotFinal(t *testing.T) {
	for _, rule := range []string{
		`a gt null or b le "bc" or k in [1]`,
		`a gt null or k in ["s"]`,
		`a co 1 or k in [1.5]`,
		`a gt null or b eq 99999999999999999999`,
		`not (a gt null) and b eq 99999999999999999999`,
	} {
		v, err, _ := run(t, rule, o{})
		if v || !errors.Is(err, parser.ErrInvalidOperation) {
			t.Errorf("%q: got (%v,%v) want (false, ErrInvalidOperation)", rule, v, err)
		}
	}
}

func TestDefectD5_DebugErrorTextPanics(t *testing.T) {
	for _, rule := range []string{`x in [1,2]`, `x in ["a"]`, `x in [1.5]`, `x eq 1.2.3`, `x eq 1.0e999`} {
		func() {
			defer func() {
				if r := recover(); r != nil {
					t.Errorf("%q: LastDebugErr().Error() panicked: %v", rule, r)
				}
			}()
			_, _, dbg := run(t, rule, o{})
			if dbg == nil {
				t.Errorf("%q: no debug error", rule)
				return
			}
			if dbg.Error() == "" {
				t.Errorf("%q: empty text", rule)
			}
		}()
	}
}

func TestDefectD6_InIsNotEq(t *testing.T) {
	for _, c := range []struct {
		rule string
		x    interface{}
		want bool
	}{
		{`x in [1,2]`, 1.0, true}, {`x in [1,2]`, int64(2), true}, {`x in [1,2]`, int32(1), true},
		{`x in [1,2]`, 1.5, false}, {`x in ["ABC"]`, "abc", true}, {`x in ["abc"]`, "ABC", true},
	} {
		v, err, _ := run(t, c.rule, o{"x": c.x})
		if err != nil || v != c.want {
			t.Errorf("%q on x=%v: got (%v,%v) want %v", c.rule, c.x, v, err, c.want)
		}
	}
}

func TestDefectD7_FloatLESwallowsDiagnostic(t *testing.T) {
	_, _, dbgLT := run(t, `x lt 1.5`, o{"x": "s"})
	_, _, dbgLE := run(t, `x le 1.5`, o{"x": "s"})
	if dbgLT == nil || dbgLE == nil {
		t.Errorf("lt dbg=%v le dbg=%v: both must be non-nil", dbgLT, dbgLE)
	}
}

// D8 was found later by the machinery (C07, hostile Stringer catalogue) after a hint from a
// mutation sub-agent; it fails on every commit before the D8 fix.
type selfPanic struct{}

func (s selfPanic) String() string { panic(s) }

func TestDefectD8_PanicWhileFormattingRecoveredPanic(t *testing.T) {
	obj := map[string]interface{}{"x": selfPanic{}}
	for name, f := range map[string]func(){
		"Process": func() {
			ev, err := parser.NewEvaluator(`x eq "a"`)
			if err != nil {
				t.Fatal(err)
			}
			v, err := ev.Process(obj)
			if v || err == nil {
				t.Errorf("Process: got (%v, %v), want (false, error)", v, err)
			}
		},
		"rules.Evaluate":  func() { rules.Evaluate(`x eq "a"`, obj) },
		"parser.Evaluate": func() { parser.Evaluate(`x eq "a"`, obj) },
	} {
		func() {
			defer func() {
				if r := recover(); r != nil {
					t.Errorf("%s: a panic escaped: %T", name, r)
				}
			}()
			f()
		}()
	}
}

func TestDefectD8_DebugErrorTextPanics(t *testing.T) {
	defer func() {
		if r := recover(); r != nil {
			t.Errorf("LastDebugErr().Error() panicked: %T", r)
		}
	}()
	_, _, dbg := run(t, `x eq 1`, o{"x": selfPanic{}})
	if dbg == nil || dbg.Error() == "" {
		t.Errorf("no diagnostic text")
	}
}
