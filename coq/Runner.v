(* Runner.v — executable front end of the model for the correspondence check.
   One case per line in, one observation line out, both as byte lists, so the
   OCaml glue only moves bytes and the same function can be evaluated by
   vm_compute for the kernel cross-check.  No theorem depends on this file. *)
From Rules Require Import Eval NestedError.
From Coq Require Import Ascii String.
Open Scope N_scope.

(* ---------- S-expressions ---------- *)
Inductive sexp := Atom (a : bytes) | SList (l : list sexp).

(* tokens: 40 '(' , 41 ')' , atoms *)
Inductive stok := SLP | SRP | SAtom (a : bytes).

Definition push_atom (cur : bytes) (acc : list stok) : list stok :=
  match cur with [] => acc | _ => SAtom (rev_append cur []) :: acc end.

Fixpoint stokenize_acc (s : bytes) (cur : bytes) (acc : list stok) : list stok :=
  match s with
  | [] => rev_append (push_atom cur acc) []
  | c :: r =>
      if c =? 40 then stokenize_acc r [] (SLP :: push_atom cur acc)
      else if c =? 41 then stokenize_acc r [] (SRP :: push_atom cur acc)
      else if (c =? 32) || (c =? 10) || (c =? 13) || (c =? 9) then stokenize_acc r [] (push_atom cur acc)
      else stokenize_acc r (c :: cur) acc
  end.

Definition stokenize (s : bytes) (cur : bytes) : list stok := stokenize_acc s cur [].

(* stack-based reader: no fuel needed *)
Fixpoint sparse (ts : list stok) (stack : list (list sexp)) (cur : list sexp) : option (list sexp) :=
  match ts with
  | [] => match stack with [] => Some (rev_append cur []) | _ => None end
  | SLP :: r => sparse r (cur :: stack) []
  | SRP :: r => match stack with
                | up :: st => sparse r st (SList (rev_append cur []) :: up)
                | [] => None
                end
  | SAtom a :: r => sparse r stack (Atom a :: cur)
  end.

Definition read_sexp (line : bytes) : option sexp :=
  match sparse (stokenize line []) [] [] with
  | Some [x] => Some x
  | _ => None
  end.

(* ---------- atoms ---------- *)
Definition hexval (c : N) : option N :=
  if (48 <=? c) && (c <=? 57) then Some (c - 48)
  else if (97 <=? c) && (c <=? 102) then Some (c - 87)
  else None.

Fixpoint hex_bytes (s : bytes) : option bytes :=
  match s with
  | [] => Some []
  | a :: b :: r =>
      match hexval a, hexval b, hex_bytes r with
      | Some x, Some y, Some rest => Some (x * 16 + y :: rest)
      | _, _, _ => None
      end
  | _ => None
  end.

(* xHEX *)
Definition atom_bytes (a : bytes) : option bytes :=
  match a with 120 :: r => hex_bytes r | _ => None end.

(* decimal, optional '-' *)
Definition atom_Z (a : bytes) : option Z :=
  match a with
  | 45 :: r => match digits_val r with Some v => Some (- v)%Z | None => None end
  | _ => digits_val a
  end.

Definition atom_N (a : bytes) : option N :=
  match digits_val a with Some v => Some (Z.to_N v) | None => None end.

Definition s2b (s : string) : bytes := map (fun c => N_of_ascii c) (list_ascii_of_string s).
Definition atom_is (a : bytes) (s : string) : bool := bytes_eqb a (s2b s).

(* ---------- values ---------- *)
Fixpoint sexp_val (fuel : nat) (x : sexp) : option gval :=
  match fuel with
  | O => None
  | S f =>
    match x with
    | Atom a => if atom_is a "nil" then Some GNil
                else if atom_is a "strpanic" then Some (GStringer None)
                else if atom_is a "strnilptr" then Some (GStringer None)
                else if atom_is a "strselfpanic" then Some (GStringer None)
                else if atom_is a "strpanicinvop" then Some (GStringer None)
                else if atom_is a "strpanicinvopw" then Some (GStringer None)
                else if atom_is a "nilmap" then Some (GMap [])
                else None
    | SList [Atom t; Atom v] =>
        if atom_is t "b" then Some (GBool (atom_is v "1"))
        else if atom_is t "i" then option_map GInt (atom_Z v)
        else if atom_is t "i32" then option_map GInt32 (atom_Z v)
        else if atom_is t "i64" then option_map GInt64 (atom_Z v)
        else if atom_is t "f" then option_map (fun n => GF64 (f64_of_bits n)) (atom_N v)
        else if atom_is t "s" then option_map GStr (atom_bytes v)
        else if atom_is t "str" then option_map (fun b => GStringer (Some b)) (atom_bytes v)
        else if atom_is t "strptr" then option_map (fun b => GStringer (Some b)) (atom_bytes v)
        else if atom_is t "jnum" then option_map (fun b => GStringer (Some b)) (atom_bytes v)
        else if atom_is t "strslice" then option_map (fun b => GStringer (Some b)) (atom_bytes v)
        else if atom_is t "strver" then option_map (fun b => GStringer (Some b)) (atom_bytes v)
        else if atom_is t "strverptr" then option_map (fun b => GStringer (Some b)) (atom_bytes v)
        else if atom_is t "strsame" then option_map (fun b => GStringer (Some b)) (atom_bytes v)
        else if atom_is t "strslow" then option_map (fun b => GStringer (Some b)) (atom_bytes v)
        else if atom_is t "strkeep" then option_map (fun b => GStringer (Some b)) (atom_bytes v)
        else if atom_is t "strbig" then option_map (fun b => GStringer (Some b)) (atom_bytes v)
        else if atom_is t "strtm" then option_map (fun b => GStringer (Some b)) (atom_bytes v)
        else if atom_is t "strreent" then option_map (fun b => GStringer (Some b)) (atom_bytes v)
        else if atom_is t "o" then option_map GOther (atom_N v)
        else None
    | SList (Atom t :: kvs) =>
        if atom_is t "m" then
          option_map GMap ((fix go (l : list sexp) : option (list (bytes * gval)) :=
             match l with
             | [] => Some []
             | SList [Atom k; v] :: r =>
                 match atom_bytes k, sexp_val f v, go r with
                 | Some kb, Some gv, Some rest => Some ((kb, gv) :: rest)
                 | _, _, _ => None
                 end
             | _ => None
             end) kvs)
        else None
    | _ => None
    end
  end.

Definition sexp_obj (x : sexp) : option object :=
  match sexp_val 1000 x with
  | Some (GMap kv) => Some kv
  | _ => None
  end.

Fixpoint map_opt' {A B} (f : A -> option B) (l : list A) : option (list B) :=
  match l with
  | [] => Some []
  | x :: r => match f x, map_opt' f r with Some y, Some ys => Some (y :: ys) | _, _ => None end
  end.

Definition sexp_operand (x : sexp) : option operand :=
  match x with
  | Atom a => if atom_is a "nil" then Some RNil else None
  | SList [Atom t; Atom v] =>
      if atom_is t "b" then Some (RBool (atom_is v "1"))
      else if atom_is t "i" then option_map RInt (atom_Z v)
      else if atom_is t "f" then option_map (fun n => RF64 (f64_of_bits n)) (atom_N v)
      else if atom_is t "s" then option_map RStr (atom_bytes v)
      else None
  | SList (Atom t :: l) =>
      if atom_is t "li" then option_map RInts (map_opt' (fun e => match e with Atom a => atom_Z a | _ => None end) l)
      else if atom_is t "lf" then option_map RFloats (map_opt' (fun e => match e with Atom a => option_map f64_of_bits (atom_N a) | _ => None end) l)
      else if atom_is t "ls" then option_map RStrs (map_opt' (fun e => match e with Atom a => atom_bytes a | _ => None end) l)
      else None
  | _ => None
  end.

(* ---------- printing ---------- *)
Definition hexdigit (n : N) : N := if n <? 10 then 48 + n else 87 + n.
Definition hex_of_bytes (b : bytes) : bytes := flat_map (fun c => [hexdigit (c / 16); hexdigit (c mod 16)]) b.

Fixpoint pos_hex (fuel : nat) (n : N) (acc : bytes) : bytes :=
  match fuel with
  | O => acc
  | S f => if n =? 0 then acc else pos_hex f (n / 16) (hexdigit (n mod 16) :: acc)
  end.
Definition N_hex (n : N) : bytes := if n =? 0 then [48] else pos_hex (S (N.to_nat (N.size n))) n [].
Definition Z_hex (z : Z) : bytes := if (z <? 0)%Z then 45 :: N_hex (Z.abs_N z) else N_hex (Z.abs_N z).

Definition pbool (b : bool) : bytes := if b then [49] else [48].
Definition perr (e : errclass) : bytes :=
  s2b match e with ErrNone => "none" | ErrInvalidOp => "invop" | ErrOther => "other" end.
Definition pdbg (d : option dbgerr) : bytes :=
  s2b match d with
      | None => "nil" | Some DInvalidOp => "invop" | Some DMissing => "missing"
      | Some DOperand => "operand" | Some DUnknown => "unknown"
      end.
Definition sp : bytes := [32].
Definition kv (k : string) (v : bytes) : bytes := sp ++ s2b k ++ [61] ++ v.

Definition poutcome (o : outcome) : bytes :=
  kv "verdict" (pbool (o_verdict o)) ++ kv "err" (perr (o_err o)) ++ kv "dbg" (pdbg (o_dbg o)).

(* ---------- token kinds as ANTLR token type numbers ---------- *)
Fixpoint type_of (k : tkind) (l : list (tkind * N)) : N :=
  match l with
  | [] => 0
  | (k', n) :: r => if tkind_eqb k k' then n else type_of k r
  end.

Definition ptok (t : tok) : bytes := N_hex (type_of (fst t) g4_token_types) ++ [58] ++ hex_of_bytes (utf8_encode (snd t)).
Fixpoint join (sep : bytes) (l : list bytes) : bytes :=
  match l with [] => [] | [x] => x | x :: r => x ++ sep ++ join sep r end.

(* canonical S-expression of a tree; texts in hex *)
Definition ptext (t : text) : bytes := 120 :: hex_of_bytes (utf8_encode t).
Definition pop (op : cmpop) : bytes :=
  s2b match op with EQ => "EQ" | NE => "NE" | GT => "GT" | LT => "LT" | GE => "GE" | LE => "LE"
              | CO => "CO" | SW => "SW" | EW => "EW" | IN => "IN" end.
Definition ppath (p : path) : bytes := join [46] (map ptext p).
Definition pvalue (v : value) : bytes :=
  match v with
  | VBoolean t => s2b "(boolean " ++ ptext t ++ [41]
  | VNull => s2b "(null)"
  | VVersion t => s2b "(version " ++ ptext t ++ [41]
  | VString t => s2b "(string " ++ ptext t ++ [41]
  | VDouble t => s2b "(double " ++ ptext t ++ [41]
  | VLong neg i e => s2b "(long " ++ ptext (long_text neg i e) ++ [41]
  | VListInts l => s2b "(ints " ++ join [44] (map ptext l) ++ [41]
  | VListDoubles l => s2b "(doubles " ++ join [44] (map ptext l) ++ [41]
  | VListStrings l => s2b "(strings " ++ join [44] (map ptext l) ++ [41]
  end.
(* printed with an accumulator: linear in the size of the output also for left-deep chains of 100 000 operands *)
Fixpoint pquery_acc (q : query) (acc : bytes) : bytes :=
  match q with
  | QParen neg q1 => (if neg then s2b "(notparen " else s2b "(paren ") ++ pquery_acc q1 (41 :: acc)
  | QLogic isor l r => (if isor then s2b "(or " else s2b "(and ") ++ pquery_acc l (32 :: pquery_acc r (41 :: acc))
  | QPresent p => s2b "(pr " ++ ppath p ++ 41 :: acc
  | QCompare p op v => s2b "(cmp " ++ ppath p ++ sp ++ pop op ++ sp ++ pvalue v ++ 41 :: acc
  end.
Definition pquery (q : query) : bytes := pquery_acc q [].

(* a float as sign/odd mantissa/exponent *)
Definition pf64 (f : f64) : bytes :=
  match f with
  | FNaN => s2b "nan"
  | FInf neg => if neg then s2b "-inf" else s2b "inf"
  | FFin m e =>
      if (m =? 0)%Z then s2b "0" else
      let k := Z.of_N (N.log2 (N.land (Z.abs_N m) (N.succ (N.lnot (Z.abs_N m) (N.size (Z.abs_N m)))))) in
      Z_hex (m / 2 ^ k)%Z ++ [112] ++ Z_hex (e + k)%Z
  end.

(* ---------- dispatch ---------- *)
Definition sexp_cmpop (a : bytes) : option cmpop :=
  if atom_is a "EQ" then Some EQ else if atom_is a "NE" then Some NE else if atom_is a "GT" then Some GT
  else if atom_is a "LT" then Some LT else if atom_is a "GE" then Some GE else if atom_is a "LE" then Some LE
  else if atom_is a "CO" then Some CO else if atom_is a "SW" then Some SW else if atom_is a "EW" then Some EW
  else if atom_is a "IN" then Some IN else None.
Definition sexp_optype (a : bytes) : option optype :=
  if atom_is a "null" then Some OpNull else if atom_is a "bool" then Some OpBool
  else if atom_is a "int" then Some OpInt else if atom_is a "float" then Some OpFloat
  else if atom_is a "string" then Some OpString else if atom_is a "version" then Some OpVersion else None.

Definition sexp_eop (x : sexp) : option eop :=
  match x with
  | Atom a => if atom_is a "r" then Some OpReset else if atom_is a "d" then Some OpLastDebugErr else None
  | SList [Atom a; o] => if atom_is a "p" || atom_is a "q" || atom_is a "n" then option_map OpProcess (sexp_obj o) else None
  | _ => None
  end.

Definition peout (o : eout) : bytes :=
  match o with
  | OutProcess r => [112] ++ pbool (o_verdict r) ++ [44] ++ perr (o_err r) ++ [44] ++ pdbg (o_dbg r)
  | OutReset => [114]
  | OutDbg d => [100] ++ pdbg d
  end.

Definition bad : bytes := s2b " BADCASE".

(* ---------- NestedError histories ---------- *)
Definition sexp_aval (x : sexp) : option aval :=
  match x with
  | SList [Atom t; Atom v] => if atom_is t "s" then option_map AStr (atom_bytes v) else None
  | SList [Atom t; Atom _; Atom e] =>
      if atom_is t "v" then
        (if atom_is e "none" then Some (AOther None) else option_map (fun b => AOther (Some b)) (atom_bytes e))
      else None
  | _ => None
  end.

Definition sexp_nop (x : sexp) : option nop :=
  match x with
  | SList [Atom t; Atom k] =>
      match atom_N k with
      | Some n => if atom_is t "error" then Some (NError (N.to_nat n))
                  else if atom_is t "orig" then Some (NOriginal (N.to_nat n))
                  else if atom_is t "set" then Some (NSet (N.to_nat n) []) else None
      | None => None
      end
  | SList (Atom t :: Atom k :: kvs) =>
      if atom_is t "set" then
        match atom_N k, map_opt' (fun e => match e with
                                           | SList [Atom key; v] =>
                                               match atom_bytes key, sexp_aval v with
                                               | Some kb, Some av => Some (kb, av)
                                               | _, _ => None
                                               end
                                           | _ => None
                                           end) kvs with
        | Some n, Some upd => Some (NSet (N.to_nat n) upd)
        | _, _ => None
        end
      else None
  | _ => None
  end.

Definition pnout (o : nout) : bytes :=
  match o with
  | NOutSet => [115]
  | NOutText t => 116 :: hex_of_bytes t
  | NOutOrig t => 111 :: hex_of_bytes t
  end.

Definition run_nerr (id : bytes) (cause : bytes) (msgs ops : list sexp) : bytes :=
  match map_opt' (fun e => match e with Atom a => atom_bytes a | _ => None end) msgs, map_opt' sexp_nop ops with
  | Some ms, Some nops =>
      id ++ kv "out" (join [59] (map pnout (nrun (mkChain cause (map (fun m => mkLayer m []) ms)) nops)))
  | _, _ => id ++ bad
  end.


Definition run_case (x : sexp) : bytes :=
  match x with
  | SList [Atom k; Atom id; Atom cause; SList msgs; SList ops] =>
      if atom_is k "nerr" then
        match atom_bytes cause with
        | Some cb => run_nerr id cb msgs ops
        | None => id ++ bad
        end
      else id ++ bad
  | SList [Atom k; Atom id; Atom ra; Atom rb; o] =>
      (* two evaluators alive together: A, B, A on the same object *)
      if atom_is k "ileave" then
        match atom_bytes ra, atom_bytes rb, sexp_obj o with
        | Some a, Some b, Some ob =>
            let pa := run go_lower a ob in
            let pb := run go_lower b ob in
            let p1 (r : outcome) := pbool (o_verdict r) ++ [44] ++ perr (o_err r) ++ [44] ++ pdbg (o_dbg r) in
            id ++ kv "out" (join [59] [p1 pa; p1 pb; p1 pa])
        | _, _, _ => id ++ bad
        end
      else id ++ bad
  | SList [Atom k; Atom id; Atom rule; o] =>
      if atom_is k "eval" || atom_is k "evals" then
        match atom_bytes rule, sexp_obj o with
        | Some r, Some ob =>
            let out := run go_lower r ob in
            let '(v2, e2) := rules_evaluate go_lower r ob in
            id ++ poutcome out
               ++ kv "accept" (pbool (match parse_rule r with Some _ => true | None => false end))
               ++ kv "ev3" (pbool v2 ++ pbool (match e2 with ErrNone => false | _ => true end)
                                      ++ pbool (parser_evaluate go_lower r ob))
        | _, _ => id ++ bad
        end
      else if atom_is k "hist" then
        match atom_bytes rule, o with
        | Some r, SList ops =>
            (* (u obj): the caller changes its own object in place and calls nothing - not an operation of the evaluator *)
            match map_opt' sexp_eop (filter (fun x => match x with SList [Atom a; _] => negb (atom_is a "u") | _ => true end) ops) with
            | Some eops => id ++ kv "out" (join [59] (map peout (erun go_lower (new_evaluator r) eops)))
            | None => id ++ bad
            end
        | _, _ => id ++ bad
        end
      else id ++ bad
  | SList [Atom k; Atom id; Atom t] =>
      if atom_is k "syntax" then
        match atom_bytes t with
        | Some b =>
            let txt := utf8_decode b in
            match lex g4_lexer_rules txt with
            | None => id ++ kv "lexok" [48]
            | Some toks =>
                id ++ kv "lexok" [49] ++ kv "toks" (join [44] (map ptok toks))
                   ++ match parse_tokens toks with
                      | Some q => kv "accept" [49] ++ kv "tree" (pquery q)
                      | None => kv "accept" [48]
                      end
            end
        | None => id ++ bad
        end
      else if atom_is k "lower" then
        match atom_bytes t with
        | Some b => id ++ kv "lower" (120 :: hex_of_bytes (go_lower b))
        | None => id ++ bad
        end
      else if atom_is k "pfloat" then
        match atom_bytes t with
        | Some b => id ++ kv "f" (match parse_float (utf8_decode b) with PFError => s2b "err" | PFVal f => pf64 f end)
        | None => id ++ bad
        end
      else if atom_is k "pint" then
        match atom_bytes t with
        | Some b => id ++ kv "i" (match parse_int (utf8_decode b) with None => s2b "err" | Some z => Z_hex z end)
        | None => id ++ bad
        end
      else if atom_is k "i2f" then
        match atom_Z t with
        | Some z => id ++ kv "f" (pf64 (f64_of_Z z))
        | None => id ++ bad
        end
      else if atom_is k "semver" then
        match atom_bytes t with
        | Some b => id ++ kv "ok" (pbool (match sv_parse b with Some _ => true | None => false end))
        | None => id ++ bad
        end
      else id ++ bad
  | SList [Atom k; Atom id; Atom ot; Atom op; l; r] =>
      if atom_is k "opcall" then
        match sexp_optype ot, sexp_cmpop op, sexp_val 1000 l, sexp_operand r with
        | Some t, Some o, Some lv, Some rv =>
            id ++ match op_apply go_lower t o lv rv with
                  | Panic => kv "res" [48] ++ kv "err" (s2b "panic")
                  | Ok (b, e) => kv "res" (pbool b) ++
                      kv "err" (s2b match e with
                                    | None => "none" | Some EInvalidOperation => "invop" | Some EMissing => "missing"
                                    | Some EInvalidOperand => "operand" | Some EOtherErr => "other" end)
                  end
        | _, _, _, _ => id ++ bad
        end
      else id ++ bad
  | SList (Atom _ :: Atom id :: _) => id ++ bad
  | _ => s2b "? BADCASE"
  end.


Definition run_line (line : bytes) : bytes :=
  match read_sexp line with
  | Some x => run_case x
  | None => s2b "? BADLINE"
  end.
