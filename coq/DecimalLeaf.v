(* DecimalLeaf.v — C03 for decimal literals as mathematical values: when the literal denotes a
   float64 exactly (1.5, 2.25, 1.0e3, ...), comparisons are with that number itself. *)
From Rules Require Import Spec Eval Refinement OpsProps ValuesProps FloatProofs LeafTheorems RoundProofs DecimalProofs.
From Coq Require Import QArith.
Open Scope Z_scope.

Section WithLower.
Variable lower : bytes -> bytes.
Variable top : object.
Notation P q := (process_tree lower q top).

Theorem c03_float_dec_value p op t m e neg D e10 m' e' :
  p <> [] -> denote top p = Ok (GF64 (FFin m e)) ->
  dec_parts t = Some (neg, D, e10) -> dec_is_float64 D e10 -> parse_float t = PFVal (FFin m' e') -> is_rel op ->
  P (QCompare p op (VDouble t)) = mkOut (rel_holds op (Some (Qcompare (Qval m e) (Qdec neg D e10)))) ErrNone None.
Proof.
  intros Hp Hd Hdp Hf Hn Hop. rewrite (c03_float_dec lower top p op t m e m' e' Hp Hd Hn Hop).
  rewrite (Qcompare_comp _ _ (Qeq_refl (Qval m e)) _ _ (parse_float_exact t neg D e10 m' e' Hdp Hf Hn)). reflexivity.
Qed.

Theorem c03_int_dec_value p op t z neg D e10 m' e' :
  p <> [] -> denote top p = Ok (GInt z) -> Z.abs z <= two53 ->
  dec_parts t = Some (neg, D, e10) -> dec_is_float64 D e10 -> parse_float t = PFVal (FFin m' e') -> is_rel op ->
  P (QCompare p op (VDouble t)) = mkOut (rel_holds op (Some (Qcompare (inject_Z z) (Qdec neg D e10)))) ErrNone None.
Proof.
  intros Hp Hd Hz Hdp Hf Hn Hop. rewrite (c03_int_dec_exact lower top p op t z m' e' Hp Hd Hz Hn Hop).
  rewrite (Qcompare_comp _ _ (Qeq_refl (inject_Z z)) _ _ (parse_float_exact t neg D e10 m' e' Hdp Hf Hn)). reflexivity.
Qed.
(* the same without assuming that the literal is accepted: a literal denoting a FINITE float64 is
   never refused *)
Theorem c03_float_dec_finite p op t m e neg D e10 :
  p <> [] -> denote top p = Ok (GF64 (FFin m e)) ->
  dec_parts t = Some (neg, D, e10) -> dec_is_finite_float64 D e10 -> is_rel op ->
  P (QCompare p op (VDouble t)) = mkOut (rel_holds op (Some (Qcompare (Qval m e) (Qdec neg D e10)))) ErrNone None.
Proof.
  intros Hp Hd Hdp Hf Hop. destruct (parse_float_accepts t neg D e10 Hdp Hf) as (m' & e' & Hn).
  exact (c03_float_dec_value p op t m e neg D e10 m' e' Hp Hd Hdp (finite_is_float64 D e10 Hf) Hn Hop).
Qed.

Theorem c03_int_dec_finite p op t z neg D e10 :
  p <> [] -> denote top p = Ok (GInt z) -> Z.abs z <= two53 ->
  dec_parts t = Some (neg, D, e10) -> dec_is_finite_float64 D e10 -> is_rel op ->
  P (QCompare p op (VDouble t)) = mkOut (rel_holds op (Some (Qcompare (inject_Z z) (Qdec neg D e10)))) ErrNone None.
Proof.
  intros Hp Hd Hz Hdp Hf Hop. destruct (parse_float_accepts t neg D e10 Hdp Hf) as (m' & e' & Hn).
  exact (c03_int_dec_value p op t z neg D e10 m' e' Hp Hd Hz Hdp (finite_is_float64 D e10 Hf) Hn Hop).
Qed.
End WithLower.

(* "1.5", "-2.25", "1.0e3", "0.0": the premises hold *)
Example dec_examples :
  (dec_parts [49;46;53]%N = Some (false, 15, -1) /\ dec_is_finite_float64 15 (-1)) /\
  (dec_parts [45;50;46;50;53]%N = Some (true, 225, -2) /\ dec_is_finite_float64 225 (-2)) /\
  (dec_parts [49;46;48;101;51]%N = Some (false, 10, 2) /\ dec_is_finite_float64 10 2) /\
  (dec_parts [48;46;48]%N = Some (false, 0, -1) /\ dec_is_finite_float64 0 (-1)).
Proof.
  split; [|split; [|split]]; (split; [vm_compute; reflexivity|]).
  - right. exists 3, (-1). split; [unfold two53; lia|]. split; [lia|]. split; vm_compute; reflexivity.
  - right. exists 9, (-2). split; [unfold two53; lia|]. split; [lia|]. split; vm_compute; reflexivity.
  - right. exists 125, 3. split; [unfold two53; lia|]. split; [lia|]. split; vm_compute; reflexivity.
  - left. reflexivity.
Qed.

(* 0.1 is not a float64: the theorem above does not apply, parse_float_nearest does *)
Example dec_tenth : parse_float [48;46;49]%N = PFVal (FFin 7205759403792794 (-56)).
Proof. vm_compute. reflexivity. Qed.
