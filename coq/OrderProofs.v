(* OrderProofs.v — C18: each typed comparison family is a consistent order.
   For every attribute value and literal the six relational verdicts of an
   Operation are either all derived from ONE three-way comparison (or "unordered"
   for NaN), or all false with the same operand error; the three-way comparison is
   monotone in the literal. *)
From Rules Require Import Ops OpsProps ValuesProps FloatProofs.
Open Scope Z_scope.

Section WithLower.
Variable lower : bytes -> bytes.

Definition six_from (t : optype) (l : gval) (r : operand) (c : option comparison) : Prop :=
  forall op, is_rel op -> op_apply lower t op l r = Ok (rel_holds op c, None).
Definition six_false (t : optype) (l : gval) (r : operand) : Prop :=
  exists e, e <> EInvalidOperation /\ forall op, is_rel op -> op_apply lower t op l r = Ok (false, Some e).

Ltac rel_cases op H := destruct op; try discriminate H; try reflexivity.

Theorem six_int l n : (exists c, six_from OpInt l (RInt n) c) \/ six_false OpInt l (RInt n).
Proof.
  destruct (int_cmp l (RInt n)) as [c|e] eqn:E.
  - left. exists c. intros op H. rel_cases op H; cbn; rewrite E; reflexivity.
  - right. exists e. split; [destruct (int_cmp_err _ _ _ E); congruence|].
    intros op H. rel_cases op H; cbn; rewrite E; reflexivity.
Qed.

Theorem six_float l d : (exists c, six_from OpFloat l (RF64 d) c) \/ six_false OpFloat l (RF64 d).
Proof.
  destruct l; try (right; eexists; split; [|intros op H; rel_cases op H]; discriminate).
  - left. exists (f64_compare (f64_of_Z z) d). intros op H. rel_cases op H.
  - left. exists (f64_compare f d). intros op H. rel_cases op H.
Qed.

Theorem six_string l v :
  l <> GStringer None ->
  (exists c, six_from OpString l (RStr v) (Some c)) \/ six_false OpString l (RStr v).
Proof.
  intros Hp. destruct (string_of l) as [a|] eqn:E.
  - left. exists (bytes_compare (lower a) (lower v)). intros op H.
    rewrite (string_apply_string lower op l a v) by (try exact E; destruct op; discriminate).
    rel_cases op H.
  - right. destruct l as [| | | | | |s|[s|]| |]; try discriminate E; try congruence;
      eexists; (split; [|intros op H; rel_cases op H]); discriminate.
Qed.

Theorem six_version l v : (exists c, six_from OpVersion l (RStr v) (Some c)) \/ six_false OpVersion l (RStr v).
Proof.
  destruct l; try (right; eexists; split; [|intros op H; rel_cases op H]; discriminate).
  destruct (sv_parse s) as [va|] eqn:Ea; [destruct (sv_parse v) as [vb|] eqn:Eb|].
  - left. exists (sv_compare va vb). intros op H. apply version_apply_valid; assumption.
  - right. exists EOtherErr. split; [discriminate|]. intros op H. rel_cases op H; cbn; rewrite Ea, Eb; reflexivity.
  - right. exists EOtherErr. split; [discriminate|]. intros op H. rel_cases op H; cbn; rewrite Ea; reflexivity.
Qed.

(* what "derived from one comparison" gives: exactly one of lt eq gt; ne le ge derived *)
Theorem six_consistent t l r c :
  six_from t l r (Some c) ->
  let v := fun op => match op_apply lower t op l r with Ok (b, _) => b | Panic => false end in
  (v LT = true /\ v EQ = false /\ v GT = false \/ v LT = false /\ v EQ = true /\ v GT = false \/ v LT = false /\ v EQ = false /\ v GT = true) /\
  v NE = negb (v EQ) /\ v LE = (v LT || v EQ)%bool /\ v GE = (v GT || v EQ)%bool.
Proof.
  intros H v. unfold v. rewrite !H by reflexivity. destruct c; cbn; tauto.
Qed.

Theorem six_false_all t l r op : six_false t l r -> is_rel op -> op_apply lower t op l r = Ok (false, None) \/ exists e, op_apply lower t op l r = Ok (false, Some e).
Proof. intros (e & _ & H) Hop. right. exists e. apply H. exact Hop. Qed.

(* ---------- monotonicity in the literal ---------- *)
Theorem mono_float a v w :
  f64_compare v w = Some Lt ->
  (f64_compare a v = Some Lt -> f64_compare a w = Some Lt) /\
  (f64_compare a w = Some Gt -> f64_compare a v = Some Gt).
Proof.
  intros Hvw. split; intros H.
  - eapply f64_compare_trans; eassumption.
  - rewrite f64_compare_antisym in H |- *.
    destruct (f64_compare w a) as [[]|] eqn:E; cbn in H; try discriminate.
    rewrite (f64_compare_trans _ _ _ _ Hvw E). reflexivity.
Qed.

Theorem mono_int l v w :
  min_int64 <= v <= max_int64 -> min_int64 <= w <= max_int64 ->
  v < w ->
  (int_cmp l (RInt v) = inl (Some Lt) -> int_cmp l (RInt w) = inl (Some Lt)) /\
  (int_cmp l (RInt w) = inl (Some Gt) -> int_cmp l (RInt v) = inl (Some Gt)).
Proof.
  intros Rv Rw Hvw. unfold int_cmp. destruct l; cbn; try (split; discriminate).
  - split; intros [= H]; do 2 f_equal; [change (z < v) in H; change (z < w)|change (z > w) in H; change (z > v)]; lia.
  - split; intros [= H]; do 2 f_equal; [change (z < v) in H; change (z < w)|change (z > w) in H; change (z > v)]; lia.
  - split; intros [= H]; do 2 f_equal; [change (z < v) in H; change (z < w)|change (z > w) in H; change (z > v)]; lia.
  - (* float64 attribute: exact dyadic order against both integers *)
    assert (Hvw' : f64_compare (FFin v 0) (FFin w 0) = Some Lt).
    { cbn. unfold dyadic_compare. cbn. rewrite !Z.mul_1_r. f_equal. exact Hvw. }
    rewrite !compare_float_to_int_exact by assumption.
    unfold f64_compare_Z. destruct (mono_float f _ _ Hvw') as [M1 M2].
    split; intros [= H]; f_equal; auto.
Qed.

Theorem mono_cmp {A} (cmp : A -> A -> comparison) :
  cmp_antisym cmp -> cmp_trans cmp ->
  forall a v w, cmp v w = Lt ->
  (cmp a v = Lt -> cmp a w = Lt) /\ (cmp a w = Gt -> cmp a v = Gt).
Proof.
  intros Ha Ht a v w Hvw. split; intros H.
  - eapply Ht; eassumption.
  - rewrite Ha in H |- *. destruct (cmp w a) eqn:E; cbn in H; try discriminate.
    rewrite (Ht _ _ _ _ Hvw E). reflexivity.
Qed.

End WithLower.
