(* LexerProofs.v — the generic lexer implements maximal munch: at each position
   the token is the longest non-empty match over all rules, of the first rule
   that reaches that length; lexing fails iff some position has no match. *)
From Rules Require Import Regex RegexProofs Lexer.

Section L.
Context {K : Type}.
Notation lexrules := (@lexrules K).

Definition rule_longest (rules : lexrules) (s : text) (i : nat) (k : K) (n : nat) : Prop :=
  exists r, nth_error rules i = Some (k, r) /\ is_longest r s n /\ (0 < n)%nat.

Definition munch (rules : lexrules) (s : text) (k : K) (n : nat) : Prop :=
  exists i, rule_longest rules s i k n /\
    forall j k' m, rule_longest rules s j k' m -> (m <= n)%nat /\ (m = n -> (i <= j)%nat).

Definition no_munch (rules : lexrules) (s : text) : Prop := forall j k' m, ~ rule_longest rules s j k' m.

Definition inv (rules : lexrules) (s : text) (best : option (K * nat)) : Prop :=
  match best with
  | None => no_munch rules s
  | Some (k, n) => munch rules s k n
  end.

Lemma rule_longest_app_l pre x s j k m :
  rule_longest (pre ++ [x]) s j k m -> (j < length pre)%nat -> rule_longest pre s j k m.
Proof.
  intros (r & Hn & Hl & Hp) Hj. exists r. rewrite nth_error_app1 in Hn by exact Hj. auto.
Qed.

Lemma rule_longest_app_r pre x s j k m :
  rule_longest pre s j k m -> rule_longest (pre ++ [x]) s j k m.
Proof.
  intros (r & Hn & Hl & Hp). exists r. split; [|auto].
  rewrite nth_error_app1; [exact Hn|]. apply nth_error_Some. congruence.
Qed.

Lemma rule_longest_last pre k r s j k' m :
  rule_longest (pre ++ [(k, r)]) s j k' m -> (length pre <= j)%nat ->
  j = length pre /\ k' = k /\ is_longest r s m /\ (0 < m)%nat.
Proof.
  intros (r' & Hn & Hl & Hp) Hj. rewrite nth_error_app2 in Hn by exact Hj.
  destruct (j - length pre)%nat as [|d] eqn:E; cbn in Hn.
  - injection Hn as Hk Hr. subst. split; [lia|]. split; [reflexivity|]. split; assumption.
  - destruct d; discriminate.
Qed.

Lemma best_step pre k r s best :
  inv pre s best ->
  inv (pre ++ [(k, r)]) s
    (match longest_match r s with
     | Some (S n) => match best with
                     | Some (_, m) => if Nat.ltb m (S n) then Some (k, S n) else best
                     | None => Some (k, S n)
                     end
     | _ => best
     end).
Proof.
  intros Hinv.
  assert (Hnew : forall n, longest_match r s = Some (S n) -> rule_longest (pre ++ [(k, r)]) s (length pre) k (S n)).
  { intros n Hl. exists r. rewrite nth_error_app2, Nat.sub_diag by lia. split; [reflexivity|].
    split; [apply longest_match_some; exact Hl|lia]. }
  assert (Hnone : (longest_match r s = None \/ longest_match r s = Some 0%nat) ->
                  forall j k' m, rule_longest (pre ++ [(k, r)]) s j k' m -> (j < length pre)%nat).
  { intros Hl j k' m Hr. destruct (Nat.lt_ge_cases j (length pre)) as [H|H]; [exact H|exfalso].
    destruct (rule_longest_last _ _ _ _ _ _ _ Hr H) as (_ & _ & Hlg & Hp).
    destruct Hl as [Hl|Hl].
    - apply longest_match_none in Hl. destruct Hlg as (A & B & _). exact (Hl m A B).
    - apply longest_match_some in Hl. pose proof (is_longest_unique _ _ _ _ Hl Hlg). lia. }
  destruct (longest_match r s) as [[|n]|] eqn:El.
  - (* Some 0: the new rule contributes nothing *)
    destruct best as [[kb nb]|]; cbn in Hinv |- *.
    + destruct Hinv as (i & Hi & Hmax). exists i. split; [apply rule_longest_app_r; exact Hi|].
      intros j k' m Hr. apply (Hmax j k' m). eapply rule_longest_app_l; [exact Hr|]. exact (Hnone (or_intror eq_refl) j k' m Hr).
    + intros j k' m Hr. apply (Hinv j k' m). eapply rule_longest_app_l; [exact Hr|]. exact (Hnone (or_intror eq_refl) j k' m Hr).
  - specialize (Hnew n eq_refl).
    destruct best as [[kb nb]|]; cbn in Hinv.
    + destruct Hinv as (i & Hi & Hmax). destruct (Nat.ltb_spec nb (S n)) as [Hlt|Hge]; cbn.
      * exists (length pre). split; [exact Hnew|]. intros j k' m Hr.
        destruct (Nat.lt_ge_cases j (length pre)) as [Hj|Hj].
        -- destruct (Hmax j k' m (rule_longest_app_l _ _ _ _ _ _ Hr Hj)) as [Hm _]. lia.
        -- destruct (rule_longest_last _ _ _ _ _ _ _ Hr Hj) as (-> & _ & Hlg & _).
           destruct Hnew as (r0 & Hn0 & Hl0 & _). rewrite nth_error_app2, Nat.sub_diag in Hn0 by lia. injection Hn0 as <-.
           pose proof (is_longest_unique _ _ _ _ Hl0 Hlg). lia.
      * exists i. split; [apply rule_longest_app_r; exact Hi|]. intros j k' m Hr.
        destruct (Nat.lt_ge_cases j (length pre)) as [Hj|Hj].
        -- apply (Hmax j k' m). eapply rule_longest_app_l; eauto.
        -- destruct (rule_longest_last _ _ _ _ _ _ _ Hr Hj) as (-> & _ & Hlg & _).
           destruct Hnew as (r0 & Hn0 & Hl0 & _). rewrite nth_error_app2, Nat.sub_diag in Hn0 by lia. injection Hn0 as <-.
           pose proof (is_longest_unique _ _ _ _ Hl0 Hlg) as Hu. subst m. split; [lia|]. intros _.
           destruct Hi as (ri & Hni & _). assert (i < length pre)%nat by (apply nth_error_Some; congruence). lia.
    + cbn. exists (length pre). split; [exact Hnew|]. intros j k' m Hr.
      destruct (Nat.lt_ge_cases j (length pre)) as [Hj|Hj].
      * exfalso. exact (Hinv j k' m (rule_longest_app_l _ _ _ _ _ _ Hr Hj)).
      * destruct (rule_longest_last _ _ _ _ _ _ _ Hr Hj) as (-> & _ & Hlg & _).
        destruct Hnew as (r0 & Hn0 & Hl0 & _). rewrite nth_error_app2, Nat.sub_diag in Hn0 by lia. injection Hn0 as <-.
        pose proof (is_longest_unique _ _ _ _ Hl0 Hlg). lia.
  - destruct best as [[kb nb]|]; cbn in Hinv |- *.
    + destruct Hinv as (i & Hi & Hmax). exists i. split; [apply rule_longest_app_r; exact Hi|].
      intros j k' m Hr. apply (Hmax j k' m). eapply rule_longest_app_l; [exact Hr|]. exact (Hnone (or_introl eq_refl) j k' m Hr).
    + intros j k' m Hr. apply (Hinv j k' m). eapply rule_longest_app_l; [exact Hr|]. exact (Hnone (or_introl eq_refl) j k' m Hr).
Qed.

Lemma best_rule_inv rules : forall pre s best, inv pre s best -> inv (pre ++ rules) s (best_rule rules s best).
Proof.
  induction rules as [|[k r] rest IH]; intros pre s best Hinv; cbn [best_rule].
  - rewrite app_nil_r. exact Hinv.
  - change (pre ++ (k, r) :: rest) with (pre ++ [(k, r)] ++ rest). rewrite app_assoc. apply IH. apply best_step. exact Hinv.
Qed.

Theorem best_rule_spec rules s : inv rules s (best_rule rules s None).
Proof. apply (best_rule_inv rules [] s None). intros j k' m (r & Hn & _). destruct j; discriminate. Qed.

(* ---------- token lists ---------- *)
Inductive tokens_spec (rules : lexrules) : text -> list (K * text) -> Prop :=
| TS_nil : tokens_spec rules [] []
| TS_cons s k n toks :
    s <> [] -> munch rules s k n -> tokens_spec rules (skipn n s) toks ->
    tokens_spec rules s ((k, firstn n s) :: toks).

Theorem lex_sound rules : forall fuel s toks, lex_fuel fuel rules s = Some toks -> tokens_spec rules s toks.
Proof.
  induction fuel as [|f IH]; intros s toks; cbn [lex_fuel].
  - destruct s; [intros [= <-]; constructor|discriminate].
  - destruct s as [|c s']; [intros [= <-]; constructor|].
    pose proof (best_rule_spec rules (c :: s')) as Hb.
    destruct (best_rule rules (c :: s') None) as [[k n]|]; [|discriminate].
    destruct (lex_fuel f rules (skipn n (c :: s'))) as [rest|] eqn:E; [|discriminate].
    intros [= <-]. constructor; [discriminate|exact Hb|apply IH; exact E].
Qed.

Lemma munch_det rules s k1 n1 k2 n2 : munch rules s k1 n1 -> munch rules s k2 n2 -> k1 = k2 /\ n1 = n2.
Proof.
  intros (i1 & H1 & M1) (i2 & H2 & M2).
  destruct (M1 _ _ _ H2) as [A1 A2], (M2 _ _ _ H1) as [B1 B2].
  assert (n1 = n2) by lia. subst n2. split; [|reflexivity].
  assert (i1 = i2) by (specialize (A2 eq_refl); specialize (B2 eq_refl); lia). subst i2.
  destruct H1 as (r1 & N1 & _), H2 as (r2 & N2 & _). congruence.
Qed.

Theorem lex_complete rules : forall s toks, tokens_spec rules s toks ->
  forall fuel, (length s <= fuel)%nat -> lex_fuel fuel rules s = Some toks.
Proof.
  intros s toks H. induction H as [|s k n toks Hne Hm Hrest IH]; intros fuel Hf.
  - destruct fuel; reflexivity.
  - destruct s as [|c s']; [congruence|]. destruct fuel as [|f]; [cbn in Hf; lia|]. cbn [lex_fuel].
    pose proof (best_rule_spec rules (c :: s')) as Hb.
    destruct (best_rule rules (c :: s') None) as [[k' n']|].
    + destruct (munch_det _ _ _ _ _ _ Hb Hm) as [-> ->].
      rewrite IH; [reflexivity|].
      destruct Hm as (i & (r & _ & (Hle & _) & Hpos) & _).
      rewrite skipn_length. cbn [length] in *. lia.
    + exfalso. destruct Hm as (i & Hi & _). exact (Hb _ _ _ Hi).
Qed.

(* the lexer (fuel = length of the input) computes exactly the maximal-munch tokenisation *)
Theorem lex_correct rules s toks : lex rules s = Some toks <-> tokens_spec rules s toks.
Proof.
  unfold lex. split; [apply lex_sound|]. intros H. apply lex_complete; [exact H|lia].
Qed.

(* ... and fails exactly when there is none *)
Theorem lex_none rules s : lex rules s = None <-> forall toks, ~ tokens_spec rules s toks.
Proof.
  split.
  - intros H toks Hs. apply lex_correct in Hs. congruence.
  - intros H. destruct (lex rules s) as [toks|] eqn:E; [|reflexivity]. exfalso. apply (H toks). apply lex_correct. exact E.
Qed.

End L.
