(* Lower.v — strings.ToLower as Map(unicode.ToLower, s): decode as Go's range
   loop does (invalid bytes become U+FFFD), map each rune through the table
   generated from the toolchain's unicode package, encode. *)
From Rules Require Export Base.
From Rules Require Import LowerGen.
From Coq Require Import FMapPositive.
Open Scope N_scope.

Definition lower_map : PositiveMap.t N := Eval vm_compute in
  fold_left (fun m p => match fst p with
                        | N0 => m
                        | Npos k => PositiveMap.add k (snd p) m
                        end) lower_pairs (PositiveMap.empty N).

Definition lower_cp (c : cp) : cp :=
  match c with
  | N0 => c
  | Npos k => match PositiveMap.find k lower_map with Some l => l | None => c end
  end.

Definition go_lower (s : bytes) : bytes := utf8_encode (map lower_cp (utf8_decode s)).
