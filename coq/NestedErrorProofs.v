(* NestedErrorProofs.v — C19: laws of the NestedError model. *)
From Rules Require Import NestedError.
Open Scope N_scope.

Lemma bytes_eqb_refl a : bytes_eqb a a = true.
Proof. unfold bytes_eqb. induction a as [|x a IH]; cbn; [reflexivity|]. rewrite N.eqb_refl. exact IH. Qed.

Lemma bytes_eqb_eq a : forall b, bytes_eqb a b = true <-> a = b.
Proof.
  unfold bytes_eqb. induction a as [|x a IH]; intros [|y b]; cbn; split; try discriminate; try reflexivity.
  - intros H. apply andb_prop in H. destruct H as [H1 H2]. apply N.eqb_eq in H1. apply IH in H2. congruence.
  - intros [= -> ->]. rewrite N.eqb_refl. apply IH. reflexivity.
Qed.

Lemma aget_aset_same k v m : aget k (aset k v m) = Some v.
Proof.
  induction m as [|[k' v'] r IH]; cbn.
  - rewrite bytes_eqb_refl. reflexivity.
  - destruct (bytes_eqb k k') eqn:E; cbn; [rewrite bytes_eqb_refl; reflexivity|rewrite E; exact IH].
Qed.

Lemma aget_aset_other k k2 v m : bytes_eqb k2 k = false -> aget k2 (aset k v m) = aget k2 m.
Proof.
  intros Hne. induction m as [|[k' v'] r IH]; cbn.
  - rewrite Hne. reflexivity.
  - destruct (bytes_eqb k k') eqn:E; cbn.
    + apply bytes_eqb_eq in E. subst k'. rewrite Hne. reflexivity.
    + destruct (bytes_eqb k2 k'); [reflexivity|exact IH].
Qed.

Lemma aset_present k v m : aget k m = Some v -> aset k v m = m.
Proof.
  induction m as [|[k' v'] r IH]; cbn; [discriminate|].
  destruct (bytes_eqb k k') eqn:E.
  - intros [= ->]. apply bytes_eqb_eq in E. subst. reflexivity.
  - intros H. rewrite (IH H). reflexivity.
Qed.

Lemma err_msg_distinct : bytes_eqb k_err k_msg = false /\ bytes_eqb k_msg k_err = false.
Proof. split; reflexivity. Qed.

Lemma aget_app_last l k k' v' :
  aget k (l ++ [(k', v')]) = match aget k l with Some v => Some v | None => if bytes_eqb k k' then Some v' else None end.
Proof. induction l as [|[k2 v2] l IHl]; cbn; [reflexivity|]. destruct (bytes_eqb k k2); [reflexivity|exact IHl]. Qed.

(* Set: later calls override earlier ones key by key; other keys are kept *)
Theorem set_lookup upd : forall m k,
  aget k (amerge m upd) = match aget k (rev upd) with Some v => Some v | None => aget k m end.
Proof.
  unfold amerge. induction upd as [|[k' v'] r IH]; intros m k; cbn [fold_left rev]; [reflexivity|].
  rewrite IH. cbn [fst snd].
  rewrite aget_app_last. destruct (aget k (rev r)); [reflexivity|].
  destruct (bytes_eqb k k') eqn:E.
  - apply bytes_eqb_eq in E. subst. apply aget_aset_same.
  - apply aget_aset_other. exact E.
Qed.

(* ---------- Error() ---------- *)
(* Original(): recursion through the nested layers ends at the plain cause *)
Fixpoint original_layers (cause : bytes) (ls_rev : list layer) : bytes :=
  match ls_rev with [] => cause | _ :: inner => original_layers cause inner end.

Theorem original_innermost cause ls_rev : original_layers cause ls_rev = cause.
Proof. induction ls_rev; cbn; auto. Qed.

(* calling Error() again returns the same text and changes nothing *)
Theorem error_idempotent cause ls_rev :
  let '(t, ls') := error_layers cause ls_rev in
  error_layers cause ls' = (t, ls').
Proof.
  induction ls_rev as [|l inner IH]; cbn [error_layers]; [reflexivity|].
  destruct (error_layers cause inner) as [itext inner'] eqn:E. cbn [error_layers]. rewrite IH.
  cbn [l_msg l_vals].
  set (vals' := aset k_msg (AStr (l_msg l)) (aset k_err (AStr itext) (l_vals l))).
  assert (H1 : aset k_err (AStr itext) vals' = vals').
  { apply aset_present. unfold vals'. rewrite aget_aset_other by reflexivity. apply aget_aset_same. }
  rewrite H1.
  assert (H2 : aset k_msg (AStr (l_msg l)) vals' = vals') by (apply aset_present; apply aget_aset_same).
  rewrite H2. reflexivity.
Qed.

(* the text: a JSON object when every attached value is encodable, else `msg: cause` *)
Theorem error_text cause l inner :
  let '(itext, inner') := error_layers cause inner in
  let vals' := aset k_msg (AStr (l_msg l)) (aset k_err (AStr itext) (l_vals l)) in
  fst (error_layers cause (l :: inner)) =
  match jobject vals' with Some t => t | None => l_msg l ++ [58; 32] ++ itext end.
Proof. cbn [error_layers]. destruct (error_layers cause inner) as [itext inner']. reflexivity. Qed.

(* the keys of that object: msg and err are the computed ones, every other key is what Set left *)
Theorem error_vals_lookup l itext k :
  let vals' := aset k_msg (AStr (l_msg l)) (aset k_err (AStr itext) (l_vals l)) in
  aget k vals' = if bytes_eqb k k_msg then Some (AStr (l_msg l))
                 else if bytes_eqb k k_err then Some (AStr itext) else aget k (l_vals l).
Proof.
  cbn. destruct (bytes_eqb k k_msg) eqn:E1.
  - apply bytes_eqb_eq in E1. subst. apply aget_aset_same.
  - rewrite aget_aset_other by exact E1. destruct (bytes_eqb k k_err) eqn:E2.
    + apply bytes_eqb_eq in E2. subst. apply aget_aset_same.
    + apply aget_aset_other. exact E2.
Qed.

(* json.Marshal fails exactly when some value cannot be encoded *)
Lemma jmembers_some m : jmembers m <> None <-> Forall (fun kv => enc_of (snd kv) <> None) m.
Proof.
  induction m as [|[k v] r IH]; cbn; [split; [constructor|discriminate]|].
  destruct (enc_of v) eqn:E; [destruct (jmembers r) eqn:Er|].
  - split; [intros _; constructor; [cbn; congruence|apply IH; discriminate]|discriminate].
  - split; [congruence|]. intros H. inversion H; subst. apply IH in H3. congruence.
  - split; [congruence|]. intros H. inversion H; subst. cbn in H2. congruence.
Qed.

(* Error() of a NestedError (at least one layer) is never the empty text: an object starts
   with '{', the fallback contains ": " *)
Theorem error_text_nonempty cause l inner : fst (error_layers cause (l :: inner)) <> [].
Proof.
  cbn [error_layers]. destruct (error_layers cause inner) as [itext inner']. cbn [fst].
  unfold jobject. destruct (jmembers _) as [ms|]; [discriminate|].
  intros H. apply app_eq_nil in H. destruct H as [_ H]. discriminate H.
Qed.
