(* SpellingProofs.v — character level of C15 for single tokens: a blank followed by ANY
   number of newlines is one SP token, a comma followed by ANY number of blanks is one COMMA
   token (the finite spellings are in the table of Props/C15.v). *)
From Rules Require Import Regex RegexProofs Lexer LexerProofs Tokens GrammarGen.
Open Scope N_scope.

(* the code points a match of r can start with *)
Fixpoint firsts (r : re) : list (N * N) :=
  match r with
  | Emp | Eps => []
  | Cls rs => rs
  | Cat a b => if nullable a then firsts a ++ firsts b else firsts a
  | Alt a b => firsts a ++ firsts b
  | Star a => firsts a
  end.

Lemma in_ranges_app c a b : in_ranges c (a ++ b) = (in_ranges c a || in_ranges c b)%bool.
Proof. induction a as [|[lo hi] a IH]; cbn; [reflexivity|]. rewrite IH, Bool.orb_assoc. reflexivity. Qed.

Lemma matches_first r : forall c s, matches r (c :: s) -> in_ranges c (firsts r) = true.
Proof.
  intros c s H. remember (c :: s) as w eqn:Ew. revert c s Ew.
  induction H; intros c0 s0 Ew; try discriminate.
  - injection Ew as -> _. cbn. exact H.
  - cbn [firsts]. destruct s as [|x s].
    + cbn in Ew. apply nullable_matches in H. rewrite H, in_ranges_app. rewrite (IHmatches2 _ _ Ew). apply Bool.orb_true_r.
    + cbn in Ew. injection Ew as -> _. specialize (IHmatches1 _ _ eq_refl).
      destruct (nullable a); [rewrite in_ranges_app, IHmatches1; reflexivity|exact IHmatches1].
  - cbn. rewrite in_ranges_app, (IHmatches _ _ Ew). reflexivity.
  - cbn. rewrite in_ranges_app, (IHmatches _ _ Ew). apply Bool.orb_true_r.
  - cbn [firsts]. destruct s as [|x s].
    + cbn in Ew. apply (IHmatches2 _ _ Ew).
    + cbn in Ew. injection Ew as -> _. apply (IHmatches1 _ _ eq_refl).
Qed.

(* a text none of whose non-empty prefixes can be started by r *)
Lemma no_start r c s m : in_ranges c (firsts r) = false -> (0 < m)%nat -> ~ prefix_matches r (c :: s) m.
Proof.
  intros Hf Hm H. unfold prefix_matches in H. destruct m as [|m]; [lia|]. cbn in H.
  apply matches_first in H. congruence.
Qed.

Section Single.
Context {K : Type}.

(* one token: rule i matches the whole text, no earlier rule can even start on its first character *)
Lemma single_token (rules : @lexrules K) i k r c s :
  nth_error rules i = Some (k, r) -> matches r (c :: s) ->
  (forall j k' r', (j < i)%nat -> nth_error rules j = Some (k', r') -> in_ranges c (firsts r') = false) ->
  lex rules (c :: s) = Some [(k, c :: s)].
Proof.
  intros Hn Hm Hearlier. apply lex_correct.
  set (w := c :: s). set (n := length w).
  assert (Hw : w = firstn n w) by (unfold n; rewrite firstn_all; reflexivity).
  assert (Hs : skipn n w = []) by (unfold n; apply skipn_all).
  replace (k, w) with (k, firstn n w) by (rewrite <- Hw; reflexivity).
  econstructor; [discriminate| |rewrite Hs; constructor].
  exists i. split.
  - exists r. split; [exact Hn|]. split; [|unfold n, w; cbn; lia].
    split; [unfold n; lia|]. split; [unfold prefix_matches; rewrite <- Hw; exact Hm|]. intros m Hmm. unfold n in Hmm. lia.
  - intros j k' m (r' & Hj & (Hle & Hpm & _) & Hpos). split; [unfold n; exact Hle|].
    intros ->. destruct (Nat.lt_ge_cases j i) as [Hlt|Hge]; [|exact Hge]. exfalso.
    apply (no_start r' c s n (Hearlier _ _ _ Hlt Hj) Hpos). exact Hpm.
Qed.
End Single.

Lemma star_chr_repeat c n : matches (Star (chr c)) (repeat c n).
Proof.
  induction n as [|n IH]; cbn; [constructor|].
  change (c :: repeat c n) with ([c] ++ repeat c n). constructor; [|exact IH].
  constructor. cbn. rewrite N.leb_refl. reflexivity.
Qed.

(* earlier rules, checked by computation on the generated rule list *)
Definition earlier_cannot_start (i : nat) (c : N) : bool :=
  forallb (fun e => negb (in_ranges c (firsts (snd e)))) (firstn i g4_lexer_rules).

Lemma nth_firstn {A} (l : list A) : forall i j x, (j < i)%nat -> nth_error l j = Some x -> In x (firstn i l).
Proof.
  induction l as [|y l IH]; intros i j x Hj Hn; [destruct j; discriminate|].
  destruct i as [|i]; [lia|]. destruct j as [|j]; cbn in *.
  - injection Hn as ->. left. reflexivity.
  - right. apply (IH i j); [lia|exact Hn].
Qed.

Lemma earlier_ok i c : earlier_cannot_start i c = true ->
  forall j k' r', (j < i)%nat -> nth_error g4_lexer_rules j = Some (k', r') -> in_ranges c (firsts r') = false.
Proof.
  intros H j k' r' Hj Hn. unfold earlier_cannot_start in H. rewrite forallb_forall in H.
  specialize (H _ (nth_firstn _ _ _ _ Hj Hn)). cbn in H. destruct (in_ranges c (firsts r')); [discriminate|reflexivity].
Qed.

(* a blank followed by any number of newlines is one SP token *)
Theorem sp_any_newlines n : lex g4_lexer_rules (32 :: repeat 10 n) = Some [(K_SP, 32 :: repeat 10 n)].
Proof.
  apply (single_token g4_lexer_rules 29 K_SP re_SP); [reflexivity| |apply earlier_ok; vm_compute; reflexivity].
  unfold re_SP. cbn [alts cats]. change (32 :: repeat 10 n) with ([32] ++ repeat 10 n).
  constructor.
  - change [32] with ([32] ++ []). constructor; [constructor; reflexivity|constructor].
  - assert (H : forall m, matches (Star re_NEWLINE) (repeat 10 m)).
    { induction m as [|m IH]; cbn; [constructor|]. change (10 :: repeat 10 m) with ([10] ++ repeat 10 m). constructor; [|exact IH].
      unfold re_NEWLINE. cbn [alts cats lit]. change [10] with ([10] ++ []). constructor; [constructor; reflexivity|constructor]. }
    apply H.
Qed.

(* a comma followed by any number of blanks is one COMMA token *)
Theorem comma_any_blanks n : lex g4_lexer_rules (44 :: repeat 32 n) = Some [(K_COMMA, 44 :: repeat 32 n)].
Proof.
  apply (single_token g4_lexer_rules 28 K_COMMA re_COMMA); [reflexivity| |apply earlier_ok; vm_compute; reflexivity].
  unfold re_COMMA. cbn [alts cats]. change (44 :: repeat 32 n) with ([44] ++ repeat 32 n).
  constructor.
  - change [44] with ([44] ++ []). constructor; [constructor; reflexivity|constructor].
  - assert (H : forall m, matches (Star (lit [32])) (repeat 32 m)).
    { induction m as [|m IH]; cbn [repeat]; [constructor|]. change (32 :: repeat 32 m) with ([32] ++ repeat 32 m). constructor; [|exact IH].
      cbn [lit]. change [32] with ([32] ++ []). constructor; [constructor; reflexivity|constructor]. }
    apply H.
Qed.
