(* Ops.v — the typed Operation tables: parser/{null,bool,int,float,string,
   version}_operation.go and operation.go, method by method.
   [lower] stands for strings.ToLower. *)
From Rules Require Export Values Ast Semver.
Open Scope Z_scope.

Inductive optype := OpNull | OpBool | OpInt | OpFloat | OpString | OpVersion.

(* the error an Operation method can return *)
Inductive operr :=
| EInvalidOperation     (* ErrInvalidOperation *)
| EMissing              (* ErrEvalOperandMissing *)
| EInvalidOperand       (* *ErrInvalidOperand *)
| EOtherErr.            (* anything else (semver parse errors) *)

Definition opres := res (bool * option operr).

Definition ret_ok (b : bool) : opres := Ok (b, None).
Definition ret_err (e : operr) : opres := Ok (false, Some e).

Definition is_relational (op : cmpop) : bool :=
  match op with EQ | NE | GT | LT | GE | LE => true | _ => false end.

(* verdict of a relational operator from a three-way comparison;
   None = unordered (NaN): only NE holds *)
Definition rel_holds (op : cmpop) (c : option comparison) : bool :=
  match op, c with
  | EQ, Some Eq => true
  | NE, Some Eq => false
  | NE, _ => true
  | GT, Some Gt => true
  | LT, Some Lt => true
  | GE, Some Gt | GE, Some Eq => true
  | LE, Some Lt | LE, Some Eq => true
  | _, _ => false
  end.

(* ---------- NullOperation ---------- *)
Definition null_apply (op : cmpop) (l : gval) : opres :=
  match op with
  | EQ => ret_ok (is_nil l)
  | NE => ret_ok (negb (is_nil l))
  | _ => ret_err EInvalidOperation
  end.

(* ---------- BoolOperation ---------- *)
Definition bool_apply (op : cmpop) (l : gval) (r : operand) : opres :=
  match op with
  | EQ | NE =>
    match l with
    | GNil => ret_err EMissing
    | GBool lb =>
      match r with
      | RBool rb => ret_ok (match op with EQ => Bool.eqb lb rb | _ => negb (Bool.eqb lb rb) end)
      | _ => ret_err EInvalidOperand
      end
    | _ => ret_err EInvalidOperand
    end
  | _ => ret_err EInvalidOperation
  end.

(* ---------- IntOperation ---------- *)
(* toInt on a rule operand / on an attribute that is not a float64 *)
Definition to_int_right (r : operand) : option Z :=
  match r with
  | RInt z => Some z
  | RF64 (FFin m e) => Some (Z.quot (m * 2 ^ (Z.max e 0)) (2 ^ (Z.max (- e) 0)))
  | _ => None
  end.

Definition to_int_left (l : gval) : option Z :=
  match l with
  | GInt z | GInt32 z | GInt64 z => Some z
  | _ => None
  end.

(* IntOperation.cmp: Ok (Some c) ordered, Ok None unordered (NaN) *)
Definition int_cmp (l : gval) (r : operand) : option comparison + operr :=
  match l with
  | GNil => inr EMissing
  | GF64 f =>
    match to_int_right r with
    | Some z => inl (compare_float_to_int f z)
    | None => inr EInvalidOperand
    end
  | _ =>
    match to_int_left l with
    | None => inr EInvalidOperand
    | Some a =>
      match to_int_right r with
      | Some b => inl (Some (Z.compare a b))
      | None => inr EInvalidOperand
      end
    end
  end.

Fixpoint int_in (l : gval) (nums : list Z) : bool * option operr :=
  match nums with
  | [] => (false, None)
  | n :: rest =>
    match int_cmp l (RInt n) with
    | inr e => (false, Some e)
    | inl (Some Eq) => (true, None)
    | inl _ => int_in l rest
    end
  end.

Definition int_apply (op : cmpop) (l : gval) (r : operand) : opres :=
  match op with
  | EQ | NE | GT | LT | GE | LE =>
    match int_cmp l r with
    | inl c => ret_ok (rel_holds op c)
    | inr e => ret_err e
    end
  | IN =>
    match r with
    | RInts nums => Ok (int_in l nums)
    | _ => ret_err EInvalidOperand
    end
  | _ => ret_err EInvalidOperation
  end.

(* ---------- FloatOperation ---------- *)
Definition to_float_left (l : gval) : option f64 :=
  match l with
  | GInt z => Some (f64_of_Z z)
  | GF64 f => Some f
  | _ => None
  end.

Definition to_float_right (r : operand) : option f64 :=
  match r with
  | RInt z => Some (f64_of_Z z)
  | RF64 f => Some f
  | _ => None
  end.

Definition f64_eqb (a b : f64) : bool :=
  match f64_compare a b with Some Eq => true | _ => false end.

Definition float_apply (op : cmpop) (l : gval) (r : operand) : opres :=
  match op with
  | EQ | NE | GT | LT | GE | LE =>
    match l with
    | GNil => ret_err EMissing
    | _ =>
      match to_float_left l with
      | None => ret_err EInvalidOperand
      | Some a =>
        match to_float_right r with
        | None => ret_err EInvalidOperand
        | Some b => ret_ok (rel_holds op (f64_compare a b))
        end
      end
    end
  | IN =>
    match to_float_left l with
    | None => ret_err EInvalidOperand
    | Some a =>
      match r with
      | RFloats nums => ret_ok (existsb (fun n => f64_eqb n a) nums)
      | _ => ret_err EInvalidOperand
      end
    end
  | _ => ret_err EInvalidOperation
  end.

(* ---------- StringOperation ---------- *)
Section WithLower.
Variable lower : bytes -> bytes.

(* getString on an attribute: Ok (inl s) | Ok (inr err) | Panic (String() panics) *)
Definition get_string_left (l : gval) : res (option bytes) :=
  match l with
  | GStr s => Ok (Some s)
  | GStringer (Some s) => Ok (Some s)
  | GStringer None => Panic
  | _ => Ok None
  end.

Definition string_rel (op : cmpop) (a b : bytes) : bool :=
  match op with
  | CO => contains a b
  | SW => is_prefix b a
  | EW => is_suffix b a
  | _ => rel_holds op (Some (bytes_compare a b))
  end.

Definition string_apply (op : cmpop) (l : gval) (r : operand) : opres :=
  match op with
  | IN =>
    s <- get_string_left l ;;
    match s with
    | None => ret_err EInvalidOperand
    | Some a =>
      match r with
      | RStrs vals => ret_ok (existsb (fun v => bytes_eqb (lower a) (lower v)) vals)
      | _ => ret_err EInvalidOperand
      end
    end
  | _ =>
    match l with
    | GNil => ret_err EMissing
    | _ =>
      s <- get_string_left l ;;
      match s with
      | None => ret_err EInvalidOperand
      | Some a =>
        match r with
        | RStr b => ret_ok (string_rel op (lower a) (lower b))
        | _ => ret_err EInvalidOperand
        end
      end
    end
  end.

(* ---------- VersionOperation ---------- *)
Definition version_apply (op : cmpop) (l : gval) (r : operand) : opres :=
  match op with
  | EQ | NE | GT | LT | GE | LE =>
    match l with
    | GStr a =>
      match r with
      | RStr b =>
        match sv_parse a with
        | None => ret_err EOtherErr
        | Some va =>
          match sv_parse b with
          | None => ret_err EOtherErr
          | Some vb => ret_ok (rel_holds op (Some (sv_compare va vb)))
          end
        end
      | _ => ret_err EInvalidOperand
      end
    | _ => ret_err EInvalidOperand
    end
  | _ => ret_err EInvalidOperation
  end.

Definition op_apply (t : optype) (op : cmpop) (l : gval) (r : operand) : opres :=
  match t with
  | OpNull => null_apply op l
  | OpBool => bool_apply op l r
  | OpInt => int_apply op l r
  | OpFloat => float_apply op l r
  | OpString => string_apply op l r
  | OpVersion => version_apply op l r
  end.

End WithLower.
