(* LexContext.v — lexing in context: when the maximal-munch choice made for a token text
   standing alone is also the choice made when other text follows, and how token-by-token
   facts compose to the tokenisation of a concatenation.  Generic in the rule list. *)
From Rules Require Import Regex RegexProofs Lexer LexerProofs.

Section Ctx.
Context {K : Type}.
Variable rules : @lexrules K.

(* no rule matches a prefix of w ++ rest that is longer than w *)
Definition closed_in (w rest : text) : Prop :=
  forall k r, In (k, r) rules -> forall m, (length w < m <= length (w ++ rest))%nat -> ~ matches r (firstn m (w ++ rest)).

(* no rule matches anything that extends w by c *)
Definition closed (w : text) (c : N) : Prop :=
  forall k r, In (k, r) rules -> forall s, ~ matches r (w ++ c :: s).

Lemma firstn_app_le {A} (a b : list A) n : (n <= length a)%nat -> firstn n (a ++ b) = firstn n a.
Proof. intros H. rewrite firstn_app. replace (n - length a)%nat with 0%nat by lia. cbn. apply app_nil_r. Qed.

Lemma firstn_app_gt {A} (a : list A) c b n : (length a < n)%nat -> exists x, firstn n (a ++ c :: b) = a ++ c :: x.
Proof.
  intros H. rewrite firstn_app. rewrite firstn_all2 by lia.
  destruct (n - length a)%nat as [|m] eqn:E; [lia|]. cbn. eexists. reflexivity.
Qed.

Lemma closed_closed_in w c rest : closed w c -> closed_in w (c :: rest).
Proof.
  intros Hc k r Hin m [Hm _] Hmt. destruct (firstn_app_gt w c rest m Hm) as [x Ex]. rewrite Ex in Hmt. exact (Hc k r Hin x Hmt).
Qed.

Lemma is_longest_ext k r w rest n :
  In (k, r) rules -> closed_in w rest ->
  (is_longest r (w ++ rest) n <-> is_longest r w n).
Proof.
  intros Hin Hc. unfold is_longest, prefix_matches. split.
  - intros (Hle & Hm & Hmax).
    assert (Hn : (n <= length w)%nat).
    { destruct (Nat.le_gt_cases n (length w)) as [H|H]; [exact H|]. exfalso. exact (Hc k r Hin n (conj H Hle) Hm). }
    split; [exact Hn|]. split; [rewrite firstn_app_le in Hm by exact Hn; exact Hm|].
    intros m Hmm Hmt. apply (Hmax m); [rewrite app_length; lia|]. rewrite firstn_app_le by lia. exact Hmt.
  - intros (Hle & Hm & Hmax). split; [rewrite app_length; lia|]. split; [rewrite firstn_app_le by exact Hle; exact Hm|].
    intros m Hmm Hmt. destruct (Nat.le_gt_cases m (length w)) as [H|H].
    + apply (Hmax m); [lia|]. rewrite firstn_app_le in Hmt by exact H. exact Hmt.
    + exact (Hc k r Hin m (conj H (proj2 Hmm)) Hmt).
Qed.

Lemma rule_longest_ext w rest i k n :
  closed_in w rest -> (rule_longest rules (w ++ rest) i k n <-> rule_longest rules w i k n).
Proof.
  intros Hc. unfold rule_longest. split; intros (r & Hn & Hl & Hp); exists r; (split; [exact Hn|]); (split; [|exact Hp]).
  - apply (proj1 (is_longest_ext k r w rest n (nth_error_In _ _ Hn) Hc)). exact Hl.
  - apply (proj2 (is_longest_ext k r w rest n (nth_error_In _ _ Hn) Hc)). exact Hl.
Qed.

Lemma closed_in_nil w : closed_in w [].
Proof. intros k r Hin m [H1 H2]. rewrite app_nil_r in H2. lia. Qed.

(* the token chosen for w alone is the token chosen when rest follows *)
Lemma munch_ext w rest k n :
  closed_in w rest -> munch rules w k n -> munch rules (w ++ rest) k n.
Proof.
  intros Hc (i & Hi & Hmax). exists i. split; [apply rule_longest_ext; assumption|].
  intros j k' m Hj. apply (Hmax j k' m). apply (rule_longest_ext w rest j k' m Hc). exact Hj.
Qed.

(* a text that lexes, alone, to the single token (k, w) *)
Lemma single_munch w k : lex rules w = Some [(k, w)] -> w <> [] /\ munch rules w k (length w).
Proof.
  intros H. apply lex_correct in H.
  remember [(k, w)] as tl eqn:Etl. destruct H as [|s k0 n toks Hne Hm Hrest]; [discriminate|].
  injection Etl as -> Ef ->. split; [exact Hne|].
  assert (Hn : n = length s).
  { destruct Hm as (i & (r & _ & (Hle & _) & _) & _).
    assert (Hl : length (firstn n s) = length s) by (rewrite Ef; reflexivity). rewrite firstn_length in Hl. lia. }
  subst n. exact Hm.
Qed.

(* ---------- composing token by token ---------- *)
Fixpoint cat_texts (ts : list (K * text)) : text :=
  match ts with [] => [] | t :: r => snd t ++ cat_texts r end.

(* every token stands alone, and is closed against everything that follows it *)
Fixpoint seq_ok (ts : list (K * text)) : Prop :=
  match ts with
  | [] => True
  | t :: r => lex rules (snd t) = Some [(fst t, snd t)] /\ closed_in (snd t) (cat_texts r) /\ seq_ok r
  end.

Theorem lex_concat ts : seq_ok ts -> lex rules (cat_texts ts) = Some ts.
Proof.
  intros H. apply lex_correct. induction ts as [|[k w] r IH]; cbn [cat_texts seq_ok snd fst] in *; [constructor|].
  destruct H as (H1 & H2 & H3). destruct (single_munch w k H1) as [Hne Hm].
  replace (k, w) with (k, firstn (length w) (w ++ cat_texts r)) by (rewrite firstn_app_le by lia; rewrite firstn_all; reflexivity).
  constructor.
  - destruct w; [congruence|discriminate].
  - apply munch_ext; assumption.
  - rewrite skipn_app, skipn_all, Nat.sub_diag. cbn. apply IH. exact H3.
Qed.

End Ctx.
