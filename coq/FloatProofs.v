(* FloatProofs.v — float64(int) is exact up to 2^53: the float the model computes for a Go
   int attribute denotes the integer itself, so comparisons with decimal literals across
   the int/float64 divide are comparisons of the mathematical values. *)
From Rules Require Import Values ValuesProps.
Open Scope Z_scope.

Definition two53 : Z := 9007199254740992.
Definition two52 : Z := 4503599627370496.

Lemma two53_pow : two53 = 2 ^ 53. Proof. reflexivity. Qed.
Lemma two52_pow : two52 = 2 ^ 52. Proof. reflexivity. Qed.

Lemma round_exact n : 0 < n <= two53 ->
  exists q e, round_pos_rational n 1 = Some (q, e) /\ dyadic_compare q e n 0 = Eq.
Proof.
  intros [Hpos Hle]. unfold round_pos_rational.
  destruct (Z.eqb_spec n 0) as [->|_]; [lia|].
  change (Z.log2 1) with 0. rewrite Z.sub_0_r.
  set (lb := Z.log2 n).
  assert (Hlb0 : 0 <= lb) by apply Z.log2_nonneg.
  destruct (Z.log2_spec n Hpos) as [Hlo Hhi]. fold lb in Hlo, Hhi.
  assert (Hlb53 : lb <= 53).
  { destruct (Z_le_gt_dec lb 53) as [H|H]; [exact H|]. exfalso.
    assert (2 ^ 54 <= 2 ^ lb) by (apply Z.pow_le_mono_r; lia). unfold two53 in Hle. change (2 ^ 54) with 18014398509481984 in H0. lia. }
  destruct (Z_le_gt_dec lb 52) as [H52|H52].
  - (* normal case: scale up to 53 bits, no remainder *)
    set (k0 := 52 - lb). assert (Hk0 : 0 <= k0 <= 52) by (unfold k0; lia).
    assert (Hk0b : (0 <=? k0) = true) by (apply Z.leb_le; lia). rewrite Hk0b.
    rewrite Z.div_1_r.
    set (P := 2 ^ k0). assert (HP : 0 < P) by (apply pow2_pos; lia).
    assert (HPP : 2 ^ lb * P = two52) by (unfold P, k0; rewrite <- Z.pow_add_r by lia; replace (lb + (52 - lb)) with 52 by lia; reflexivity).
    assert (Hq0lo : two52 <= n * P) by (rewrite <- HPP; apply Z.mul_le_mono_nonneg_r; lia).
    assert (Hq0hi : n * P < two53).
    { replace two53 with (2 ^ Z.succ lb * P); [apply Z.mul_lt_mono_pos_r; lia|].
      rewrite Z.pow_succ_r by lia. rewrite <- Z.mul_assoc, HPP. reflexivity. }
    assert (E1 : (9007199254740992 <=? n * P) = false) by (apply Z.leb_gt; unfold two53 in Hq0hi; lia). rewrite E1.
    assert (E2 : (n * P <? 4503599627370496) = false) by (apply Z.ltb_ge; unfold two52 in Hq0lo; lia). rewrite E2.
    assert (Emin : Z.min k0 1074 = k0) by lia. rewrite Emin, Hk0b.
    rewrite Z.div_1_r, Z.mod_1_r. cbn [Z.mul Z.compare].
    assert (E3 : (971 <? - k0) = false) by (apply Z.ltb_ge; lia). rewrite E3.
    assert (E4 : (- k0 =? 971) = false) by (apply Z.eqb_neq; lia). rewrite E4. cbn [orb andb].
    exists (n * P), (- k0). split; [reflexivity|].
    unfold dyadic_compare. replace (Z.min (- k0) 0) with (- k0) by lia.
    rewrite Z.sub_diag, Z.mul_1_r. replace (0 - - k0) with k0 by lia. fold P. apply Z.compare_refl.
  - (* n = 2^53 *)
    assert (Hlb : lb = 53) by lia.
    assert (Hn : n = two53).
    { rewrite Hlb in Hlo. change (2 ^ 53) with two53 in Hlo. lia. }
    subst n. exists two52, 1. split; [|reflexivity].
    unfold lb. vm_compute. reflexivity.
Qed.

Theorem f64_of_Z_exact z : Z.abs z <= two53 ->
  exists m e, f64_of_Z z = FFin m e /\ dyadic_compare m e z 0 = Eq.
Proof.
  intros Hz. unfold f64_of_Z. destruct (Z.eq_dec z 0) as [->|Hnz].
  - exists 0, 0. split; reflexivity.
  - destruct (round_exact (Z.abs z) ltac:(lia)) as (q & e & -> & Hq).
    destruct (Z.ltb_spec z 0) as [Hneg|Hpos].
    + exists (- q), e. split; [reflexivity|].
      unfold dyadic_compare in *. rewrite Z.abs_neq in Hq by lia.
      apply Z.compare_eq_iff in Hq. apply Z.compare_eq_iff. lia.
    + exists q, e. split; [reflexivity|]. rewrite Z.abs_eq in Hq by lia. exact Hq.
Qed.

(* hence comparing float64(z) with any float is comparing z itself *)
Corollary f64_of_Z_compare z x : Z.abs z <= two53 -> f64_compare (f64_of_Z z) x = f64_compare (FFin z 0) x.
Proof.
  intros Hz. destruct (f64_of_Z_exact z Hz) as (m & e & -> & Heq).
  destruct x as [|nx|m2 e2]; cbn; try reflexivity. f_equal. apply dyadic_compare_eq_l. 
  rewrite dyadic_compare_antisym, Heq. reflexivity.
Qed.

(* ---------- compareFloatToInt computes the exact order ---------- *)
Lemma quot_bounds m P : 0 < P -> let w := Z.quot m P in w * P - P < m < w * P + P.
Proof.
  intros HP w. pose proof (Z.quot_rem' m P) as E. fold w in E.
  destruct (Z_le_gt_dec 0 m) as [Hm|Hm].
  - pose proof (Z.rem_bound_pos_pos m P HP Hm). lia.
  - pose proof (Z.rem_bound_pos_neg m P HP ltac:(lia)). lia.
Qed.

Theorem compare_float_to_int_exact a r :
  min_int64 <= r <= max_int64 -> compare_float_to_int a r = f64_compare_Z a r.
Proof.
  intros Hr. unfold min_int64, max_int64 in Hr. destruct a as [|neg|m e]; [reflexivity|destruct neg; reflexivity|].
  unfold compare_float_to_int, f64_compare_Z. cbn [f64_compare]. unfold dyadic_compare.
  assert (HT : two63 = 9223372036854775808) by reflexivity. set (T := two63) in *.
  destruct (Z_le_gt_dec 0 e) as [He|He].
  - (* integral value m * 2^e *)
    replace (Z.min e 0) with 0 by lia. rewrite !Z.sub_0_r. change (2 ^ 0) with 1. rewrite !Z.mul_1_r.
    replace (Z.max e 0) with e by lia. replace (Z.max (- e) 0) with 0 by lia. change (2 ^ 0) with 1. rewrite Z.quot_1_r.
    set (v := m * 2 ^ e).
    destruct (Z.compare_spec v T) as [H1|H1|H1].
    + f_equal. symmetry. apply Z.compare_gt_iff. lia.
    + destruct (Z.compare_spec v (- T)) as [H2|H2|H2].
      * destruct (Z.compare_spec v r) as [H3|H3|H3]; [rewrite Z.compare_refl| |]; reflexivity.
      * f_equal. symmetry. apply Z.compare_lt_iff. lia.
      * destruct (Z.compare_spec v r) as [H3|H3|H3]; [rewrite Z.compare_refl| |]; reflexivity.
    + f_equal. symmetry. apply Z.compare_gt_iff. lia.
  - (* m / 2^k with k = -e > 0 *)
    replace (Z.min e 0) with e by lia. rewrite !Z.sub_diag. change (2 ^ 0) with 1. rewrite !Z.mul_1_r.
    replace (0 - e) with (- e) by lia.
    replace (Z.max e 0) with 0 by lia. replace (Z.max (- e) 0) with (- e) by lia. change (2 ^ 0) with 1. rewrite ?Z.mul_1_r.
    set (P := 2 ^ (- e)). assert (HP : 0 < P) by (apply pow2_pos; lia).
    pose proof (quot_bounds m P HP) as Hq. cbn zeta in Hq. set (w := Z.quot m P) in *.
    destruct (Z.compare_spec m (T * P)) as [H1|H1|H1].
    + f_equal. symmetry. apply Z.compare_gt_iff. nia.
    + destruct (Z.compare_spec m (- T * P)) as [H2|H2|H2].
      * destruct (Z.compare_spec w r) as [H3|H3|H3].
        -- subst r. reflexivity.
        -- f_equal. symmetry. apply Z.compare_lt_iff. nia.
        -- f_equal. symmetry. apply Z.compare_gt_iff. nia.
      * f_equal. symmetry. apply Z.compare_lt_iff. nia.
      * destruct (Z.compare_spec w r) as [H3|H3|H3].
        -- subst r. reflexivity.
        -- f_equal. symmetry. apply Z.compare_lt_iff. nia.
        -- f_equal. symmetry. apply Z.compare_gt_iff. nia.
    + f_equal. symmetry. apply Z.compare_gt_iff. nia.
Qed.

Lemma parse_int_range t n : parse_int t = Some n -> min_int64 <= n <= max_int64.
Proof.
  unfold parse_int.
  match goal with |- context [let '(n0, d0) := ?X in _] => destruct X as [neg ds] end.
  destruct (digits_val ds) as [v|]; [|discriminate].
  destruct (Z.leb_spec min_int64 (if neg then - v else v)); [|discriminate].
  destruct (Z.leb_spec (if neg then - v else v) max_int64); [|discriminate]. cbn. intros [= <-]. lia.
Qed.
