(* Eval.v — the public API: NewEvaluator / Process / Reset / LastDebugErr
   (parser/evaluate.go), parser.Evaluate, rules.Evaluate (evaluate.go). *)
From Rules Require Export Visitor Lexer Syntax Tokens GrammarGen Lower.
Open Scope N_scope.

(* unicode.IsSpace *)
Definition is_space (c : cp) : bool :=
  (9 <=? c) && (c <=? 13) || (c =? 32) || (c =? 133) || (c =? 160) || (c =? 5760)
  || (8192 <=? c) && (c <=? 8202) || (c =? 8232) || (c =? 8233) || (c =? 8239)
  || (c =? 8287) || (c =? 12288).

Fixpoint drop_space (t : text) : text :=
  match t with
  | c :: r => if is_space c then drop_space r else t
  | [] => []
  end.

(* strings.TrimSpace, on the decoded text *)
(* rev_append _ [] is List.rev in linear time (List.rev_alt) *)
Definition trim_space (t : text) : text := rev_append (drop_space (rev_append (drop_space t) [])) [].

(* lexer + parser on a text: Some q iff the text is one complete query *)
Definition parse_text (t : text) : option query :=
  match lex g4_lexer_rules t with
  | Some toks => parse_tokens toks
  | None => None
  end.

(* what NewEvaluator keeps of a rule string: the tree, or the fact that the
   (trimmed) text is not a sentence *)
Definition parse_rule (rule : bytes) : option query := parse_text (trim_space (utf8_decode rule)).

Inductive errclass := ErrNone | ErrInvalidOp | ErrOther.

Record outcome := mkOut { o_verdict : bool; o_err : errclass; o_dbg : option dbgerr }.

Section WithLower.
Variable lower : bytes -> bytes.

(* Process on a well-formed tree, including the deferred recover() *)
Definition process_tree (q : query) (o : object) : outcome :=
  match visit_query lower o q init_vstate with
  | Panic => mkOut false ErrOther None
  | Ok (b, st) =>
      match verror st with
      | Some VErrInvalidOp => mkOut false ErrInvalidOp (dbg st)
      | Some VErrOther => mkOut false ErrOther (dbg st)
      | None => mkOut b ErrNone (dbg st)
      end
  end.

(* ---------- the Evaluator object ---------- *)
Record evaluator := mkEv { ev_tree : option query; ev_last_dbg : option dbgerr }.

Definition new_evaluator (rule : bytes) : evaluator := mkEv (parse_rule rule) None.

Definition process (ev : evaluator) (o : object) : evaluator * outcome :=
  match ev_tree ev with
  | None => (mkEv None None, mkOut false ErrOther None)       (* syntaxErr *)
  | Some q => let out := process_tree q o in (mkEv (Some q) (o_dbg out), out)
  end.

Definition reset (ev : evaluator) : evaluator := mkEv (ev_tree ev) None.
Definition last_debug_err (ev : evaluator) : option dbgerr := ev_last_dbg ev.

(* NewEvaluator followed by Process *)
Definition run (rule : bytes) (o : object) : outcome := snd (process (new_evaluator rule) o).

(* rules.Evaluate: (verdict, error) *)
Definition rules_evaluate (rule : bytes) (o : object) : bool * errclass :=
  let out := run rule o in (o_verdict out, o_err out).

(* parser.Evaluate: verdict only *)
Definition parser_evaluate (rule : bytes) (o : object) : bool := o_verdict (run rule o).

(* ---------- histories on one evaluator ---------- *)
Inductive eop := OpProcess (o : object) | OpReset | OpLastDebugErr.
Inductive eout := OutProcess (r : outcome) | OutReset | OutDbg (d : option dbgerr).

Definition estep (ev : evaluator) (op : eop) : evaluator * eout :=
  match op with
  | OpProcess o => let '(ev', r) := process ev o in (ev', OutProcess r)
  | OpReset => (reset ev, OutReset)
  | OpLastDebugErr => (ev, OutDbg (last_debug_err ev))
  end.

Fixpoint erun (ev : evaluator) (ops : list eop) : list eout :=
  match ops with
  | [] => []
  | op :: r => let '(ev', out) := estep ev op in out :: erun ev' r
  end.

End WithLower.
