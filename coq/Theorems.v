(* Theorems.v — the property statements about the model of Process
   (process_tree / run), obtained by transporting the facts about the
   compositional semantics through the refinement theorem. *)
From Rules Require Import Spec Eval EvalProofs Refinement SemProps SemLaws OpsProps ValuesProps.
Open Scope Z_scope.

Section WithLower.
Variable lower : bytes -> bytes.
Variable top : object.

Notation P q := (process_tree lower q top).

Definition is_leaf (q : query) : Prop := match q with QPresent p | QCompare p _ _ => p <> [] | _ => False end.

Lemma leaf_wf q : is_leaf q -> wf_query q.
Proof. destruct q; cbn; tauto. Qed.

(* a comparison as a stand-alone rule *)
Lemma leaf_alone q : is_leaf q -> P q = outcome_of (of_lres None (leaf_res lower top q)).
Proof. intros H. rewrite process_tree_is_sem by (apply leaf_wf; exact H). destruct q; try contradiction; reflexivity. Qed.

Lemma leaf_alone_verdict q :
  is_leaf q -> (exists b d, leaf_res lower top q = LRes b None d) ->
  o_verdict (P q) = leaf_verdict lower top q /\ o_err (P q) = ErrNone.
Proof.
  intros H (b & d & E). rewrite (leaf_alone q H). unfold leaf_verdict. rewrite E. split; reflexivity.
Qed.

(* ---------- C01 ---------- *)
Theorem c01_boolean q :
  wf_query q -> leaves_decided lower top q ->
  o_verdict (P q) = bool_denote lower top q /\ o_err (P q) = ErrNone.
Proof.
  intros Hwf Hd. rewrite process_tree_is_sem by exact Hwf.
  destruct (sem_is_boolean lower top q Hd None) as [d' ->]. split; reflexivity.
Qed.

(* ---------- C02 ---------- *)
Lemma denote_from_nil p : denote_from GNil p = Ok GNil.
Proof. destruct p; reflexivity. Qed.

(* absent as soon as a step is missing or null: the remaining steps are not looked at *)
Theorem c02_denote_stops p : p <> [] -> forall item s, denote_from item p = Ok GNil -> denote_from item (p ++ s) = Ok GNil.
Proof.
  induction p as [|n r IH]; [congruence|]. intros _ item s.
  destruct r as [|n2 r].
  - cbn [app]. destruct s as [|s1 s]; [auto|]. cbn. destruct item; try discriminate; auto.
    intros [= ->]. destruct s; reflexivity.
  - change ((n :: n2 :: r) ++ s) with (n :: (n2 :: r) ++ s).
    destruct item; cbn [denote_from]; try discriminate; auto.
    change (match (n2 :: r) ++ s with [] => _ | _ :: _ => denote_from (lookup (utf8_encode n) kv) ((n2 :: r) ++ s) end)
      with (denote_from (lookup (utf8_encode n) kv) ((n2 :: r) ++ s)).
    apply IH. discriminate.
Qed.

Theorem c02_locality c l1 l2 :
  is_leaf l1 -> is_leaf l2 -> wf_query (plug c l1) -> wf_query (plug c l2) ->
  P l1 = P l2 -> leaf_res lower top l1 = leaf_res lower top l2 ->
  P (plug c l1) = P (plug c l2).
Proof.
  intros H1 H2 W1 W2 _ E. rewrite !process_tree_is_sem by assumption.
  f_equal. apply leaf_locality; try assumption; destruct l1, l2; cbn in *; tauto.
Qed.

(* ---------- C06 ---------- *)
Theorem c06_fail_iff_reached q :
  wf_query q ->
  (o_err (P q) = ErrInvalidOp <->
   exists pre l, fst (reached lower top q) = pre ++ [l] /\ leaf_fails lower top l VErrInvalidOp /\ snd (reached lower top q) = None).
Proof.
  intros Hwf. rewrite process_tree_is_sem by exact Hwf. split.
  - destruct (sem lower top q None) as [|e d|b d] eqn:E; cbn; try discriminate.
    destruct e; cbn; try discriminate. intros _. eapply sem_fail_reached. exact E.
  - intros (pre & l & H1 & H2 & H3). destruct (reached_fail_sem lower top q None pre l _ H1 H2 H3) as [d' ->]. reflexivity.
Qed.

Theorem c06_error_false q : wf_query q -> o_err (P q) <> ErrNone -> o_verdict (P q) = false.
Proof. intros _. apply process_tree_err_false. Qed.

(* ---------- C16 ---------- *)
Theorem c16_dbg_iff q :
  wf_query q -> sem lower top q None <> SPanic ->
  (o_dbg (P q) <> None <-> exists l, In l (fst (reached lower top q)) /\ leaf_dbg lower top l <> None).
Proof.
  intros Hwf Hnp. rewrite process_tree_is_sem by exact Hwf.
  destruct (sem lower top q None) as [|e d|b d] eqn:E; [congruence| |].
  - rewrite <- (dbg_iff_reached_undecided lower top q d) by (rewrite E; reflexivity). destruct e; reflexivity.
  - rewrite <- (dbg_iff_reached_undecided lower top q d) by (rewrite E; reflexivity). reflexivity.
Qed.

(* ---------- C17 ---------- *)
Definition same_result (o1 o2 : outcome) : Prop :=
  (o_err o1 = ErrNone /\ o_err o2 = ErrNone /\ o_verdict o1 = o_verdict o2) \/
  (o_err o1 <> ErrNone /\ o_err o2 <> ErrNone).

Lemma same_outcome_result A B :
  wf_query A -> wf_query B -> same_outcome (sh lower top A) (sh lower top B) -> same_result (P A) (P B).
Proof.
  intros WA WB. rewrite !process_tree_is_sem by assumption. unfold sh.
  destruct (sem lower top A None) as [|[] ?|? ?], (sem lower top B None) as [|[] ?|? ?]; cbn; intros H;
    try contradiction; try (right; split; discriminate); left; repeat split; assumption.
Qed.

Theorem c17_double_negation A : wf_query A -> same_result (P (QParen true (QParen true A))) (P A).
Proof. intros W. apply same_outcome_result; cbn; auto. apply law_double_negation. Qed.
Theorem c17_de_morgan_and A B : wf_query A -> wf_query B ->
  same_result (P (QParen true (QLogic false A B))) (P (QLogic true (QParen true A) (QParen true B))).
Proof. intros WA WB. apply same_outcome_result; cbn; auto. apply law_de_morgan_and. Qed.
Theorem c17_de_morgan_or A B : wf_query A -> wf_query B ->
  same_result (P (QParen true (QLogic true A B))) (P (QLogic false (QParen true A) (QParen true B))).
Proof. intros WA WB. apply same_outcome_result; cbn; auto. apply law_de_morgan_or. Qed.
Theorem c17_assoc A B C isor : wf_query A -> wf_query B -> wf_query C ->
  same_result (P (QLogic isor (QLogic isor A B) C)) (P (QLogic isor A (QLogic isor B C))).
Proof. intros WA WB WC. apply same_outcome_result; cbn; auto. apply law_assoc. Qed.
Theorem c17_idempotent A isor : wf_query A -> same_result (P (QLogic isor A A)) (P A).
Proof. intros WA. apply same_outcome_result; cbn; auto. apply law_idempotent. Qed.
Theorem c17_commutative A B isor : wf_query A -> wf_query B ->
  o_err (P A) = ErrNone -> o_err (P B) = ErrNone ->
  same_result (P (QLogic isor A B)) (P (QLogic isor B A)).
Proof.
  intros WA WB EA EB. apply same_outcome_result; cbn; auto. apply law_commutative.
  - revert EA. rewrite process_tree_is_sem by exact WA. unfold cannot_fail, sh.
    destruct (sem lower top A None) as [|[] ?|b ?]; cbn; try discriminate. intros _. exists b. reflexivity.
  - revert EB. rewrite process_tree_is_sem by exact WB. unfold cannot_fail, sh.
    destruct (sem lower top B None) as [|[] ?|b ?]; cbn; try discriminate. intros _. exists b. reflexivity.
Qed.
(* the parenthesised operands of the laws: redundant parentheses are transparent *)
Theorem c17_paren_transparent q : wf_query q -> P (QParen false q) = P q.
Proof. intros W. rewrite !process_tree_is_sem by (cbn; exact W). rewrite paren_transparent. reflexivity. Qed.

End WithLower.
