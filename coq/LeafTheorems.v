(* LeafTheorems.v — single comparisons as rules: what Process answers for
   `p op literal`, by literal kind (C03 C04 C08 C09 C10 C18). *)
From Rules Require Import Spec Eval EvalProofs Refinement SemProps OpsProps ValuesProps FloatProofs Theorems.
From Coq Require Import QArith.
Open Scope Z_scope.

Section WithLower.
Variable lower : bytes -> bytes.
Variable top : object.
Notation P q := (process_tree lower q top).

Definition leaf_outcome (b : bool) (e : option operr) : outcome :=
  match e with
  | None => mkOut b ErrNone None
  | Some EInvalidOperation => mkOut false ErrInvalidOp (Some DInvalidOp)
  | Some e' => mkOut false ErrNone (Some (dbg_of_operr e'))
  end.

Lemma compare_alone p op v lv t r b e :
  p <> [] -> denote top p = Ok lv -> lit_denote v = (t, r, None) -> op_apply lower t op lv r = Ok (b, e) ->
  P (QCompare p op v) = leaf_outcome b e.
Proof.
  intros Hp Hd Hl Ha. rewrite (leaf_alone lower top (QCompare p op v) Hp). cbn. unfold compare_sem.
  rewrite Hd, Hl, Ha. destruct e as [[]|]; reflexivity.
Qed.

Lemma present_alone p lv : p <> [] -> denote top p = Ok lv -> P (QPresent p) = mkOut (negb (is_nil lv)) ErrNone None.
Proof. intros Hp Hd. rewrite (leaf_alone lower top (QPresent p) Hp). cbn. unfold present_sem. rewrite Hd. reflexivity. Qed.

(* ---------- C10 ---------- *)
Theorem c10_pr p lv : p <> [] -> denote top p = Ok lv ->
  o_verdict (P (QPresent p)) = negb (is_nil lv) /\ o_err (P (QPresent p)) = ErrNone.
Proof. intros Hp Hd. rewrite (present_alone p lv Hp Hd). split; reflexivity. Qed.

Theorem c10_null p lv : p <> [] -> denote top p = Ok lv ->
  P (QCompare p EQ VNull) = mkOut (is_nil lv) ErrNone None /\
  P (QCompare p NE VNull) = mkOut (negb (is_nil lv)) ErrNone None.
Proof.
  intros Hp Hd. split.
  - rewrite (compare_alone p EQ VNull lv OpNull RNil (is_nil lv) None Hp Hd eq_refl eq_refl). reflexivity.
  - rewrite (compare_alone p NE VNull lv OpNull RNil (negb (is_nil lv)) None Hp Hd eq_refl eq_refl). reflexivity.
Qed.

Definition lit_bool (b : bool) : value := VBoolean (if b then t_true else t_false).

Lemma lit_bool_denote b : lit_denote (lit_bool b) = (OpBool, RBool b, None).
Proof. destruct b; reflexivity. Qed.

Theorem c10_bool p lv b : p <> [] -> denote top p = Ok lv ->
  o_verdict (P (QCompare p EQ (lit_bool b))) = (match lv with GBool x => Bool.eqb x b | _ => false end) /\
  o_verdict (P (QCompare p NE (lit_bool b))) = (match lv with GBool x => negb (Bool.eqb x b) | _ => false end) /\
  o_err (P (QCompare p EQ (lit_bool b))) = ErrNone /\ o_err (P (QCompare p NE (lit_bool b))) = ErrNone.
Proof.
  intros Hp Hd.
  assert (E1 : exists bb ee, op_apply lower OpBool EQ lv (RBool b) = Ok (bb, ee) /\ ee <> Some EInvalidOperation /\
                           bb = match lv with GBool x => Bool.eqb x b | _ => false end)
    by (destruct lv; cbn; eexists _, _; repeat split; discriminate).
  assert (E2 : exists bb ee, op_apply lower OpBool NE lv (RBool b) = Ok (bb, ee) /\ ee <> Some EInvalidOperation /\
                           bb = match lv with GBool x => negb (Bool.eqb x b) | _ => false end)
    by (destruct lv; cbn; eexists _, _; repeat split; discriminate).
  destruct E1 as (b1 & e1 & A1 & N1 & V1), E2 as (b2 & e2 & A2 & N2 & V2).
  rewrite (compare_alone p EQ _ lv _ _ _ _ Hp Hd (lit_bool_denote b) A1), (compare_alone p NE _ lv _ _ _ _ Hp Hd (lit_bool_denote b) A2).
  subst b1 b2. destruct lv, e1 as [[]|], e2 as [[]|]; cbn in *; try congruence; repeat split; try discriminate.
Qed.

(* ---------- C03 ---------- *)
Definition int_attr (l : gval) (z : Z) : Prop := l = GInt z \/ l = GInt32 z \/ l = GInt64 z.

Theorem c03_int_int p op neg i e l z n :
  p <> [] -> denote top p = Ok l -> int_attr l z -> parse_int (long_text neg i e) = Some n -> is_rel op ->
  P (QCompare p op (VLong neg i e)) = mkOut (rel_holds op (Some (Z.compare z n))) ErrNone None.
Proof.
  intros Hp Hd Hl Hn Hop.
  rewrite (compare_alone p op _ l OpInt (RInt n) (rel_holds op (Some (Z.compare z n))) None Hp Hd);
    [reflexivity|cbn; rewrite Hn; reflexivity|apply int_apply_int; assumption].
Qed.

Lemma Qval_int n : (Qval n 0 == inject_Z n)%Q.
Proof. unfold Qval. cbn. ring. Qed.

(* a finite float64 attribute m*2^e against an integer literal: the order of the rationals *)
Theorem c03_float_int p op neg i ex m e n :
  p <> [] -> denote top p = Ok (GF64 (FFin m e)) -> parse_int (long_text neg i ex) = Some n -> is_rel op ->
  P (QCompare p op (VLong neg i ex)) = mkOut (rel_holds op (Some (Qcompare (Qval m e) (inject_Z n)))) ErrNone None.
Proof.
  intros Hp Hd Hn Hop.
  rewrite <- (Qcompare_comp _ _ (Qeq_refl (Qval m e)) _ _ (Qval_int n)), <- dyadic_compare_is_Qcompare.
  rewrite (compare_alone p op _ _ OpInt (RInt n) (rel_holds op (f64_compare_Z (FFin m e) n)) None Hp Hd);
    [reflexivity|cbn; rewrite Hn; reflexivity|apply int_apply_float; [assumption|eapply parse_int_range; exact Hn]].
Qed.

Theorem c03_float_dec p op t m e m' e' :
  p <> [] -> denote top p = Ok (GF64 (FFin m e)) -> parse_float t = PFVal (FFin m' e') -> is_rel op ->
  P (QCompare p op (VDouble t)) = mkOut (rel_holds op (Some (Qcompare (Qval m e) (Qval m' e')))) ErrNone None.
Proof.
  intros Hp Hd Hn Hop. rewrite <- dyadic_compare_is_Qcompare.
  rewrite (compare_alone p op _ _ OpFloat (RF64 (FFin m' e')) (rel_holds op (f64_compare (FFin m e) (FFin m' e'))) None Hp Hd);
    [reflexivity|cbn; rewrite Hn; reflexivity|apply float_apply_float; assumption].
Qed.

Theorem c03_int_dec p op t z d :
  p <> [] -> denote top p = Ok (GInt z) -> parse_float t = PFVal d -> is_rel op ->
  P (QCompare p op (VDouble t)) = mkOut (rel_holds op (f64_compare (f64_of_Z z) d)) ErrNone None.
Proof.
  intros Hp Hd Hn Hop.
  rewrite (compare_alone p op _ _ OpFloat (RF64 d) (rel_holds op (f64_compare (f64_of_Z z) d)) None Hp Hd);
    [reflexivity|cbn; rewrite Hn; reflexivity|apply float_apply_int; assumption].
Qed.

(* Go int attribute with |z| <= 2^53 against a decimal literal: the order of the rationals *)
Theorem c03_int_dec_exact p op t z m' e' :
  p <> [] -> denote top p = Ok (GInt z) -> Z.abs z <= two53 -> parse_float t = PFVal (FFin m' e') -> is_rel op ->
  P (QCompare p op (VDouble t)) = mkOut (rel_holds op (Some (Qcompare (inject_Z z) (Qval m' e')))) ErrNone None.
Proof.
  intros Hp Hd Hz Hn Hop. rewrite (c03_int_dec p op t z _ Hp Hd Hn Hop).
  rewrite (f64_of_Z_compare z _ Hz). cbn [f64_compare].
  rewrite dyadic_compare_is_Qcompare, (Qcompare_comp _ _ (Qval_int z) _ _ (Qeq_refl (Qval m' e'))). reflexivity.
Qed.

Theorem c03_nan p op v t r :
  p <> [] -> denote top p = Ok (GF64 FNaN) -> is_rel op ->
  (lit_denote v = (OpInt, RInt r, None) \/ exists d, lit_denote v = (OpFloat, RF64 d, None) /\ t = d) ->
  P (QCompare p op v) = mkOut (match op with NE => true | _ => false end) ErrNone None.
Proof.
  intros Hp Hd Hop [Hl|(d & Hl & _)].
  - rewrite (compare_alone p op _ _ _ _ _ None Hp Hd Hl (nan_int lower op r Hop)). reflexivity.
  - rewrite (compare_alone p op _ _ _ _ _ None Hp Hd Hl (nan_float lower op d Hop)). reflexivity.
Qed.

Theorem c03_non_numeric p op v l :
  p <> [] -> denote top p = Ok l -> non_numeric l -> is_rel op ->
  ((exists n, lit_denote v = (OpInt, RInt n, None)) \/ (exists d, lit_denote v = (OpFloat, RF64 d, None))) ->
  o_verdict (P (QCompare p op v)) = false /\ o_err (P (QCompare p op v)) = ErrNone.
Proof.
  intros Hp Hd Hn Hop [[n Hl]|[d Hl]].
  - destruct (int_apply_non_numeric lower op l n Hop Hn) as (e & Ha & Hne).
    rewrite (compare_alone p op _ _ _ _ _ _ Hp Hd Hl Ha). destruct e; try congruence; split; reflexivity.
  - destruct (float_apply_non_numeric lower op l d Hop Hn) as (e & Ha & Hne).
    rewrite (compare_alone p op _ _ _ _ _ _ Hp Hd Hl Ha). destruct e; try congruence; split; reflexivity.
Qed.

(* ---------- C04 ---------- *)
Lemma utf8_encode_app a b : utf8_encode (a ++ b) = utf8_encode a ++ utf8_encode b.
Proof. unfold utf8_encode. apply flat_map_app. Qed.

(* the literal denotes exactly the characters between its quotes *)
Theorem c04_literal_exact s : get_string (34%N :: s ++ [34%N]) = utf8_encode s.
Proof.
  unfold get_string. change (34%N :: s ++ [34%N]) with ([34%N] ++ s ++ [34%N]).
  rewrite !utf8_encode_app. change (utf8_encode [34%N]) with [34%N]. cbn [app tl].
  rewrite removelast_last. cbn [length]. rewrite app_length. cbn [length].
  destruct (utf8_encode s) as [|x l] eqn:E; [reflexivity|].
  cbn [length]. destruct (Nat.ltb_spec 2 (S (S (length l) + 1))); [reflexivity|lia].
Qed.

Theorem c04_string p op t l a :
  p <> [] -> denote top p = Ok l -> string_of l = Some a -> op <> IN ->
  P (QCompare p op (VString t)) = mkOut (string_rel op (lower a) (lower (get_string t))) ErrNone None.
Proof.
  intros Hp Hd Hs Hop.
  rewrite (compare_alone p op (VString t) _ OpString (RStr (get_string t)) _ None Hp Hd eq_refl (string_apply_string lower op l a _ Hop Hs)). reflexivity.
Qed.

Theorem c04_non_string p op t l :
  p <> [] -> denote top p = Ok l -> string_of l = None -> l <> GStringer None -> op <> IN ->
  o_verdict (P (QCompare p op (VString t))) = false /\ o_err (P (QCompare p op (VString t))) = ErrNone.
Proof.
  intros Hp Hd Hs Hn Hop.
  destruct (string_apply_non_string lower op l (get_string t) Hop Hs Hn) as (e & Ha & Hne).
  rewrite (compare_alone p op (VString t) _ OpString _ _ _ Hp Hd eq_refl Ha). destruct e; try congruence; split; reflexivity.
Qed.

(* ---------- C09 ---------- *)
Theorem c09_valid p op t a va vb :
  p <> [] -> denote top p = Ok (GStr a) -> sv_parse a = Some va -> sv_parse (utf8_encode t) = Some vb -> is_rel op ->
  P (QCompare p op (VVersion t)) = mkOut (rel_holds op (Some (sv_compare va vb))) ErrNone None.
Proof.
  intros Hp Hd Ha Hb Hop.
  rewrite (compare_alone p op (VVersion t) _ OpVersion (RStr (utf8_encode t)) _ None Hp Hd eq_refl (version_apply_valid lower op a _ va vb Hop Ha Hb)). reflexivity.
Qed.

Theorem c09_other p op t l :
  p <> [] -> denote top p = Ok l -> (match l with GStr a => sv_parse a = None | _ => True end) -> is_rel op ->
  o_verdict (P (QCompare p op (VVersion t))) = false /\ o_err (P (QCompare p op (VVersion t))) = ErrNone.
Proof.
  intros Hp Hd Hl Hop.
  destruct (version_apply_other lower op l (utf8_encode t) Hop Hl) as (e & Ha & Hne).
  rewrite (compare_alone p op (VVersion t) _ OpVersion _ _ _ Hp Hd eq_refl Ha). destruct e; try congruence; split; reflexivity.
Qed.

End WithLower.
