(* RegexAnalysis.v — what a regular expression can start with and which code points it can
   contain; a computable sufficient condition for "no rule matches anything extending w·c". *)
From Rules Require Import Regex RegexProofs Lexer LexerProofs LexContext SpellingProofs.
Open Scope N_scope.

(* every code point a match of r can contain *)
Fixpoint chars (r : re) : list (N * N) :=
  match r with
  | Emp | Eps => []
  | Cls rs => rs
  | Cat a b | Alt a b => chars a ++ chars b
  | Star a => chars a
  end.

Lemma matches_chars r s : matches r s -> forall x, In x s -> in_ranges x (chars r) = true.
Proof.
  induction 1; intros x Hx; cbn [chars]; try contradiction.
  - destruct Hx as [<-|[]]. exact H.
  - rewrite in_ranges_app. apply in_app_or in Hx. destruct Hx as [Hx|Hx]; [rewrite (IHmatches1 _ Hx)|rewrite (IHmatches2 _ Hx), Bool.orb_true_r]; reflexivity.
  - rewrite in_ranges_app, (IHmatches _ Hx). reflexivity.
  - rewrite in_ranges_app, (IHmatches _ Hx). apply Bool.orb_true_r.
  - apply in_app_or in Hx. destruct Hx as [Hx|Hx]; [apply (IHmatches1 _ Hx)|apply (IHmatches2 _ Hx)].
Qed.

Definition ranges_disjoint (a b : list (N * N)) : bool :=
  forallb (fun p => forallb (fun q => (snd p <? fst q) || (snd q <? fst p)) b) a.

Lemma ranges_disjoint_spec a b x : ranges_disjoint a b = true -> in_ranges x a = true -> in_ranges x b = false.
Proof.
  unfold ranges_disjoint. intros Hd Ha.
  induction a as [|[lo hi] a IH]; cbn in *; [discriminate|].
  apply andb_prop in Hd. destruct Hd as [Hd1 Hd2].
  apply Bool.orb_prop in Ha. destruct Ha as [Ha|Ha]; [|apply IH; assumption].
  clear IH Hd2. induction b as [|[lo2 hi2] b IHb]; cbn in *; [reflexivity|].
  apply andb_prop in Hd1. destruct Hd1 as [H1 H2]. rewrite (IHb H2), Bool.orb_false_r.
  apply andb_prop in Ha. destruct Ha as [A1 A2]. apply N.leb_le in A1, A2.
  apply Bool.orb_prop in H1. destruct H1 as [H1|H1]; apply N.ltb_lt in H1.
  - apply Bool.andb_false_iff. left. apply N.leb_gt. lia.
  - apply Bool.andb_false_iff. right. apply N.leb_gt. lia.
Qed.

Section Sep.
Context {K : Type}.
Variable rules : @lexrules K.

(* H: where w can start, C: what can follow.  For every rule: C avoids its characters, or H
   avoids its first characters *)
Definition sep_check (H C : list (N * N)) : bool :=
  forallb (fun kr => ranges_disjoint C (chars (snd kr)) || ranges_disjoint H (firsts (snd kr))) rules.

Lemma sep_check_closed H C h w c :
  sep_check H C = true -> in_ranges h H = true -> in_ranges c C = true -> closed rules (h :: w) c.
Proof.
  intros Hs Hh Hc k r Hin s Hm. unfold sep_check in Hs. rewrite forallb_forall in Hs.
  specialize (Hs _ Hin). cbn in Hs. apply Bool.orb_prop in Hs. destruct Hs as [Hs|Hs].
  - pose proof (ranges_disjoint_spec _ _ c Hs Hc) as Hn.
    rewrite (matches_chars _ _ Hm c) in Hn; [discriminate|]. cbn. right. apply in_or_app. right. left. reflexivity.
  - pose proof (ranges_disjoint_spec _ _ h Hs Hh) as Hn. cbn in Hm. rewrite (matches_first _ _ _ Hm) in Hn. discriminate.
Qed.
End Sep.

(* ---------- derivative by a word; literals ---------- *)
Definition derivs (w : text) (r : re) : re := fold_left (fun r c => deriv c r) w r.

Lemma matches_derivs w : forall r s, matches (derivs w r) s <-> matches r (w ++ s).
Proof.
  induction w as [|c w IH]; intros r s; cbn; [tauto|].
  unfold derivs in *. cbn. rewrite IH. apply deriv_matches.
Qed.

Lemma lit_matches t x : matches (lit t) x -> x = t.
Proof.
  revert x. induction t as [|c t IH]; cbn; intros x H.
  - inversion H. reflexivity.
  - inversion H as [| |a b s1 s2 H1 H2| | | |]; subst. inversion H1; subst.
    cbn in H3. apply Bool.orb_prop in H3. destruct H3 as [H3|H3]; [|discriminate].
    apply andb_prop in H3. destruct H3 as [A B]. apply N.leb_le in A, B. assert (c0 = c) by lia. subst.
    cbn. f_equal. apply IH. exact H2.
Qed.
