(* SourceC13.v — C13, the checked tie to the source of this run: in the model the input object is
   an immutable value (every visitor primitive only reads it).  In the hand-written code every
   write through a field, an index or a pointer, and every delete / clear / copy, targets
   - a field of the method's own receiver (the evaluator, the visitor, its stack, the error
     collector, a NestedError) or of a value created in the same function, or
   - an element of the receiver itself when the receiver is a map or slice type (ErrVals) or of
     a map / slice created in the same function, or
   - `*p = v` where p is a parameter of an unexported function that is only ever called with
     `&x`, x a plain variable of the caller (a result handed back through a pointer), or
   - inside parser/nester_error.go only: an element of an error-value map reached without a
     type assertion or call (those maps are made by the error code, never the input object). *)
From Coq Require Import List String Bool.
Import ListNotations.
From Rules Require SourceFacts.
Open Scope string_scope.

Definition mem (x : string) (l : list string) : bool := existsb (String.eqb x) l.

Definition private_target (site : string * string * string * string * string) : bool :=
  let '(file, _, _, shape, root) := site in
  if mem shape ["field"] then mem root ["receiver"; "fresh-local"]
  else if mem shape ["deref"] then mem root ["receiver"; "fresh-local"; "out-param"]
  else if mem shape ["index"; "delete"; "clear"; "copy"] then
    mem root ["receiver"; "fresh-local"]
    || (String.eqb file "parser/nester_error.go" && mem root ["receiver-field"; "local"; "param"])
  else false.

Theorem c13_write_sites_private : forallb private_target SourceFacts.write_sites = true.
Proof. vm_compute. reflexivity. Qed.
