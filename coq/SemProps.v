(* SemProps.v — properties of the compositional semantics (Spec.v): Boolean
   reading, locality/congruence, reachedness under short-circuit, stickiness of
   failures, diagnostics, Boolean-algebra laws. *)
From Rules Require Import Spec.
Open Scope Z_scope.

Section WithLower.
Variable lower : bytes -> bytes.
Variable top : object.

Notation sem := (sem lower top).

(* the result of a leaf as a stand-alone rule *)
Definition leaf_res (q : query) : lres :=
  match q with
  | QPresent p => present_sem top p
  | QCompare p op v => compare_sem lower top p op v
  | _ => LPanic
  end.

(* ---------- the diagnostic never influences verdict or failure ---------- *)
Definition shape (r : sres) : option (bool + verr) :=
  match r with
  | SPanic => None
  | SFail e _ => Some (inr e)
  | SVal b _ => Some (inl b)
  end.

Lemma of_lres_shape d1 d2 r : shape (of_lres d1 r) = shape (of_lres d2 r).
Proof. destruct r as [|b [e|] d]; reflexivity. Qed.

Lemma sem_shape q : forall d1 d2, shape (sem q d1) = shape (sem q d2).
Proof.
  induction q as [neg q1 IH|isor l IHl r IHr|p|p op v]; intros d1 d2; cbn [Spec.sem].
  - specialize (IH d1 d2). destruct (sem q1 d1) as [|e1 x1|b1 x1], (sem q1 d2) as [|e2 x2|b2 x2]; cbn in IH |- *; try congruence.
    injection IH as ->. reflexivity.
  - specialize (IHl d1 d2).
    destruct (sem l d1) as [|e1 x1|b1 x1], (sem l d2) as [|e2 x2|b2 x2]; cbn in IHl |- *; try congruence.
    assert (b1 = b2) by congruence. subst b2.
    destruct isor, b1; try reflexivity; apply IHr.
  - apply of_lres_shape.
  - apply of_lres_shape.
Qed.

(* ---------- C01: Boolean reading ---------- *)
Fixpoint leaves_decided (q : query) : Prop :=
  match q with
  | QParen _ q1 => leaves_decided q1
  | QLogic _ l r => leaves_decided l /\ leaves_decided r
  | _ => exists b d, leaf_res q = LRes b None d
  end.

Definition leaf_verdict (q : query) : bool :=
  match leaf_res q with LRes b None _ => b | _ => false end.

(* plain, non-short-circuit Boolean denotation *)
Fixpoint bool_denote (q : query) : bool :=
  match q with
  | QParen neg q1 => if neg then negb (bool_denote q1) else bool_denote q1
  | QLogic isor l r => if isor then bool_denote l || bool_denote r else bool_denote l && bool_denote r
  | _ => leaf_verdict q
  end.

Theorem sem_is_boolean q :
  leaves_decided q -> forall d, exists d', sem q d = SVal (bool_denote q) d'.
Proof.
  induction q as [neg q1 IH|isor l IHl r IHr|p|p op v]; intros Hd d; cbn [Spec.sem bool_denote].
  - destruct (IH Hd d) as [d' ->]. eexists; reflexivity.
  - destruct Hd as [Hl Hr]. destruct (IHl Hl d) as [d1 ->].
    destruct isor, (bool_denote l); cbn; try (eexists; reflexivity); apply IHr; assumption.
  - destruct Hd as (b & dd & E). unfold leaf_verdict. cbn in E |- *. rewrite E. eexists; reflexivity.
  - destruct Hd as (b & dd & E). unfold leaf_verdict. cbn in E |- *. rewrite E. eexists; reflexivity.
Qed.

(* ---------- C02: locality / congruence ---------- *)
Inductive context :=
| CHole
| CParen (neg : bool) (c : context)
| CLogicL (isor : bool) (c : context) (r : query)
| CLogicR (isor : bool) (l : query) (c : context).

Fixpoint plug (c : context) (q : query) : query :=
  match c with
  | CHole => q
  | CParen neg c1 => QParen neg (plug c1 q)
  | CLogicL isor c1 r => QLogic isor (plug c1 q) r
  | CLogicR isor l c1 => QLogic isor l (plug c1 q)
  end.

(* two sub-rules with the same meaning are interchangeable in every context *)
Theorem sem_congruence c q1 q2 :
  (forall d, sem q1 d = sem q2 d) -> forall d, sem (plug c q1) d = sem (plug c q2) d.
Proof.
  intros H. induction c as [|neg c IH|isor c IH r|isor l c IH]; intros d; cbn [plug Spec.sem].
  - apply H.
  - rewrite IH. reflexivity.
  - rewrite IH. reflexivity.
  - destruct (sem l d) as [| |b d1]; try reflexivity. destruct isor, b; try reflexivity; apply IH.
Qed.

(* a comparison contributes to a compound exactly what it yields as a stand-alone rule *)
Theorem leaf_locality c l1 l2 :
  (match l1 with QPresent _ | QCompare _ _ _ => True | _ => False end) ->
  (match l2 with QPresent _ | QCompare _ _ _ => True | _ => False end) ->
  leaf_res l1 = leaf_res l2 -> forall d, sem (plug c l1) d = sem (plug c l2) d.
Proof.
  intros H1 H2 E. apply sem_congruence. intros d.
  destruct l1, l2; try contradiction; cbn in E |- *; rewrite E; reflexivity.
Qed.

(* ---------- reached comparisons under left-to-right short-circuit ---------- *)
(* the comparisons evaluated, in order, and the verdict when evaluation completes;
   the list ends at the first comparison that fails or panics *)
Fixpoint reached (q : query) : list query * option bool :=
  match q with
  | QParen neg q1 => let '(t, v) := reached q1 in (t, option_map (fun b => if neg then negb b else b) v)
  | QLogic isor l r =>
      let '(tl, vl) := reached l in
      match vl with
      | None => (tl, None)
      | Some b =>
          if (if isor then b else negb b) then (tl, Some b)
          else let '(tr, vr) := reached r in (tl ++ tr, vr)
      end
  | _ => ([q], match leaf_res q with LRes b None _ => Some b | _ => None end)
  end.

Definition leaf_fails (l : query) (e : verr) : Prop := exists b d, leaf_res l = LRes b (Some e) d.
Definition leaf_panics (l : query) : Prop := leaf_res l = LPanic.
Definition leaf_dbg (l : query) : option dbgerr := match leaf_res l with LRes _ _ d => d | LPanic => None end.

Lemma sem_reached_val q : forall d b d',
  sem q d = SVal b d' -> snd (reached q) = Some b.
Proof.
  induction q as [neg q1 IH|isor l IHl r IHr|p|p op v]; intros d b d'; cbn [Spec.sem reached].
  - destruct (sem q1 d) as [| |b1 d1] eqn:E; try discriminate. intros [= <- <-].
    specialize (IH _ _ _ E). destruct (reached q1) as [t v]. cbn in *. rewrite IH. reflexivity.
  - destruct (sem l d) as [| |b1 d1] eqn:E; try discriminate.
    specialize (IHl _ _ _ E). destruct (reached l) as [tl vl]. cbn in IHl. subst vl.
    destruct isor, b1; cbn; intros H; try (injection H as <- <-; reflexivity);
      specialize (IHr _ _ _ H); destruct (reached r); assumption.
  - unfold of_lres. cbn. destruct (present_sem top p) as [|b0 [e|] d0]; try discriminate. intros [= <- <-]. reflexivity.
  - unfold of_lres. cbn. destruct (compare_sem lower top p op v) as [|b0 [e|] d0]; try discriminate. intros [= <- <-]. reflexivity.
Qed.

(* C06: a failure comes from a reached comparison, namely the last one reached *)
Lemma sem_fail_reached q : forall d e d',
  sem q d = SFail e d' -> exists pre l, fst (reached q) = pre ++ [l] /\ leaf_fails l e /\ snd (reached q) = None.
Proof.
  induction q as [neg q1 IH|isor l IHl r IHr|p|p op v]; intros d e d'; cbn [Spec.sem reached].
  - destruct (sem q1 d) as [|e1 d1|b1 d1] eqn:E; try discriminate. intros [= <- <-].
    destruct (IH _ _ _ E) as (pre & lf & H1 & H2 & H3). destruct (reached q1) as [t v]. cbn in *.
    exists pre, lf. subst v. auto.
  - destruct (sem l d) as [|e1 d1|b1 d1] eqn:E; try discriminate.
    + intros [= <- <-]. destruct (IHl _ _ _ E) as (pre & lf & H1 & H2 & H3).
      destruct (reached l) as [tl vl]. cbn in *. subst vl. exists pre, lf. auto.
    + pose proof (sem_reached_val _ _ _ _ E) as Hv. destruct (reached l) as [tl vl]. cbn in Hv. subst vl.
      destruct isor, b1; cbn; intros H; try discriminate;
        destruct (IHr _ _ _ H) as (pre & lf & H1 & H2 & H3); destruct (reached r) as [tr vr]; cbn in *;
        exists (tl ++ pre), lf; rewrite H1, app_assoc; auto.
  - unfold of_lres. destruct (present_sem top p) as [|b0 [e0|] d0] eqn:E; try discriminate. intros [= <- <-].
    exists [], (QPresent p). cbn. rewrite E. repeat split. exists b0, d0. exact E.
  - unfold of_lres. destruct (compare_sem lower top p op v) as [|b0 [e0|] d0] eqn:E; try discriminate. intros [= <- <-].
    exists [], (QCompare p op v). cbn. rewrite E. repeat split. exists b0, d0. exact E.
Qed.

Lemma reached_nonempty q : fst (reached q) <> [].
Proof.
  induction q as [neg q1 IH|isor l IHl r IHr|p|p op v]; cbn [reached].
  - destruct (reached q1); exact IH.
  - destruct (reached l) as [tl vl]. cbn in IHl. destruct vl as [b|]; [|exact IHl].
    destruct (if isor then b else negb b); [exact IHl|]. destruct (reached r). cbn. intros H. apply app_eq_nil in H. tauto.
  - discriminate.
  - discriminate.
Qed.

Lemma sem_panic_reached q : forall d, sem q d = SPanic -> snd (reached q) = None.
Proof.
  induction q as [neg q1 IH|isor l IHl r IHr|p|p op v]; intros dd; cbn [Spec.sem reached].
  - destruct (sem q1 dd) eqn:E; try discriminate. intros _. rewrite (surjective_pairing (reached q1)), (IH _ E). reflexivity.
  - destruct (sem l dd) as [| |b1 d1] eqn:E; try discriminate.
    + intros _. rewrite (surjective_pairing (reached l)), (IHl _ E). reflexivity.
    + pose proof (sem_reached_val _ _ _ _ E) as Hv. rewrite (surjective_pairing (reached l)), Hv.
      destruct isor, b1; cbn; try discriminate; intros H; rewrite (surjective_pairing (reached r)), (IHr _ H); reflexivity.
  - unfold of_lres. destruct (present_sem top p) as [|b0 [e0|] d0] eqn:E; try discriminate. intros _. cbn. rewrite E. reflexivity.
  - unfold of_lres. destruct (compare_sem lower top p op v) as [|b0 [e0|] d0] eqn:E; try discriminate. intros _. cbn. rewrite E. reflexivity.
Qed.

Lemma reached_val_sem q b d : snd (reached q) = Some b -> exists d', sem q d = SVal b d'.
Proof.
  intros H. destruct (sem q d) as [|e1 d1|b1 d1] eqn:E.
  - rewrite (sem_panic_reached _ _ E) in H. discriminate.
  - destruct (sem_fail_reached _ _ _ _ E) as (_ & _ & _ & _ & H'). rewrite H' in H. discriminate.
  - rewrite (sem_reached_val _ _ _ _ E) in H. injection H as <-. eexists; reflexivity.
Qed.

Lemma split_last_app {A} (tl tr pre : list A) (x : A) :
  tr <> [] -> tl ++ tr = pre ++ [x] -> exists pre', tr = pre' ++ [x].
Proof.
  intros Hne H. destruct (exists_last Hne) as (tr' & y & ->).
  rewrite app_assoc in H. apply app_inj_tail in H. destruct H as [_ ->]. eexists; reflexivity.
Qed.

(* conversely: if the evaluation order reaches a failing comparison, the rule fails with that error *)
Lemma reached_fail_sem q : forall d pre l e,
  fst (reached q) = pre ++ [l] -> leaf_fails l e -> snd (reached q) = None ->
  exists d', sem q d = SFail e d'.
Proof.
  induction q as [neg q1 IH|isor lq IHl r IHr|p|p op v]; intros d pre lf e; cbn [Spec.sem reached].
  - destruct (reached q1) as [t v] eqn:R. cbn. intros H1 H2 H3. destruct v; [discriminate|].
    destruct (IH d pre lf e H1 H2 eq_refl) as [d' ->]. eexists; reflexivity.
  - destruct (reached lq) as [tl vl] eqn:Rl. destruct vl as [b|].
    + destruct (reached_val_sem lq b d) as [d1 Hs]; [rewrite Rl; reflexivity|]. rewrite Hs.
      pose proof (reached_nonempty r) as Hne.
      destruct (reached r) as [tr vr] eqn:Rr. cbn in Hne.
      destruct isor, b; cbn; try discriminate; intros H1 H2 H3;
        destruct (split_last_app _ _ _ _ Hne H1) as [pre' ->]; subst vr;
        apply (IHr d1 pre' lf e); auto.
    + cbn. intros H1 H2 _. destruct (IHl d pre lf e H1 H2 eq_refl) as [d' ->]. eexists; reflexivity.
  - cbn. intros H1 (b & dd & E) _. destruct pre; [|destruct pre; discriminate]. injection H1 as <-.
    cbn in E. unfold of_lres. rewrite E. eexists; reflexivity.
  - cbn. intros H1 (b & dd & E) _. destruct pre; [|destruct pre; discriminate]. injection H1 as <-.
    cbn in E. unfold of_lres. rewrite E. eexists; reflexivity.
Qed.

(* C06: a reached failure is final *)
Lemma fail_sticky_logic isor l r d e d' : sem l d = SFail e d' -> sem (QLogic isor l r) d = SFail e d'.
Proof. cbn. intros ->. reflexivity. Qed.
Lemma fail_sticky_paren neg q d e d' : sem q d = SFail e d' -> sem (QParen neg q) d = SFail e d'.
Proof. cbn. intros ->. reflexivity. Qed.
Lemma fail_sticky_right (isor : bool) l r d (b : bool) d1 e d' :
  sem l d = SVal b d1 -> (if isor then b else negb b) = false -> sem r d1 = SFail e d' ->
  sem (QLogic isor l r) d = SFail e d'.
Proof. cbn. intros -> H ->. destruct isor, b; cbn in H; try discriminate; reflexivity. Qed.

End WithLower.
