(* DecimalProofs.v — what a decimal literal means: parse_float returns the float64 nearest
   (ties to even) to the number the text denotes, and exactly that number when it is a float64. *)
From Coq Require Import ZArith Lia Bool List QArith Qpower Qfield.
From Rules Require Import Base Values ValuesProps FloatProofs RoundProofs.
Open Scope Z_scope.

(* the rational (-1)^neg * D * 10^e10 *)
Definition Qdec (neg : bool) (D e10 : Z) : Q :=
  (if neg then - (inject_Z D * Qpower 10 e10) else inject_Z D * Qpower 10 e10)%Q.

Lemma Qpower_pos_Z (b z : Z) : 0 <= z -> (Qpower (inject_Z b) z == inject_Z (b ^ z))%Q.
Proof. intros H. rewrite Zpower_Qpower by exact H. reflexivity. Qed.

(* num / den as a rational *)
Definition Qfrac (num den : Z) : Q := (inject_Z num / inject_Z den)%Q.

Lemma dec_fraction_Q D e10 : let '(num, den) := dec_fraction D e10 in 0 < den /\ (Qfrac num den == inject_Z D * Qpower 10 e10)%Q.
Proof.
  unfold dec_fraction. destruct (0 <=? e10) eqn:E.
  - apply Z.leb_le in E. split; [lia|]. unfold Qfrac. rewrite inject_Z_mult. change (inject_Z 1) with 1%Q.
    change 10%Q with (inject_Z 10). rewrite Qpower_pos_Z by exact E. field.
  - apply Z.leb_gt in E. split; [apply Z.pow_pos_nonneg; lia|]. unfold Qfrac.
    replace e10 with (- (- e10)) at 2 by lia. rewrite Qpower_opp. change 10%Q with (inject_Z 10).
    rewrite Qpower_pos_Z by lia. reflexivity.
Qed.

(* the integer identity m * Dk = Nk says: m * 2^(-k) = num / den *)
Lemma inj_nonzero z : z <> 0 -> ~ (inject_Z z == 0)%Q.
Proof. intros H E. change 0%Q with (inject_Z 0) in E. exact (H (proj1 (inject_Z_injective z 0) E)). Qed.

Lemma Qval_of_ND num den m k : 0 < den -> m * Dk den k = Nk num k -> (Qval m (- k) == Qfrac num den)%Q.
Proof.
  intros Hd H. unfold Qval, Qfrac, Dk, Nk, Mk, Pk in *.
  assert (Hdq : ~ (inject_Z den == 0)%Q) by (apply inj_nonzero; lia).
  destruct (0 <=? k) eqn:E.
  - apply Z.leb_le in E. rewrite Z.mul_1_r in H. rewrite Qpower_opp. change 2%Q with (inject_Z 2). rewrite Qpower_pos_Z by exact E.
    assert (Hp : ~ (inject_Z (2 ^ k) == 0)%Q) by (apply inj_nonzero; pose proof (Z.pow_pos_nonneg 2 k); lia).
    assert (Hq : (inject_Z m * inject_Z den == inject_Z num * inject_Z (2 ^ k))%Q) by (rewrite <- !inject_Z_mult, H; reflexivity).
    field_simplify_eq; [|split; assumption]. rewrite Hq. ring.
  - apply Z.leb_gt in E. rewrite Z.mul_1_r in H. change 2%Q with (inject_Z 2). rewrite Qpower_pos_Z by lia.
    assert (Hq : (inject_Z m * (inject_Z den * inject_Z (2 ^ (- k))) == inject_Z num)%Q) by (rewrite <- !inject_Z_mult, H; reflexivity).
    field_simplify_eq; [|assumption]. rewrite <- Hq. ring.
Qed.

(* ---------- the shortcut for tiny values ---------- *)
Lemma digits_bound D : 0 < D -> D < 10 ^ (Z.log2 D / 3 + 1).
Proof.
  intros HD. destruct (Z.log2_spec D HD) as [_ H]. pose proof (Z.log2_nonneg D) as H0.
  set (l := Z.log2 D) in *. set (nd := l / 3 + 1).
  assert (Hl : Z.succ l <= 3 * nd) by (unfold nd; pose proof (Z.div_mod l 3 ltac:(lia)); pose proof (Z.mod_pos_bound l 3 ltac:(lia)); lia).
  assert (Hnd : 0 <= nd) by (unfold nd; pose proof (Z.div_pos l 3); lia).
  apply Z.lt_le_trans with (2 ^ Z.succ l); [exact H|].
  apply Z.le_trans with (2 ^ (3 * nd)); [apply Z.pow_le_mono_r; lia|].
  rewrite Z.pow_mul_r by lia. change (2 ^ 3) with 8. apply Z.pow_le_mono_l. lia.
Qed.

Lemma pow10_330 : 2 ^ 1074 < 10 ^ 330.
Proof. vm_compute. reflexivity. Qed.

(* a value below 10^-330 is not a positive float64 *)
Lemma tiny_not_dyadic D e10 M E :
  0 < D -> e10 + (Z.log2 D / 3 + 1) <= -330 -> 0 < M -> -1074 <= E ->
  ~ is_dyadic D (10 ^ (- e10)) M E.
Proof.
  intros HD Ht HM HE Hdy. unfold is_dyadic in Hdy. set (nd := Z.log2 D / 3 + 1) in *.
  pose proof (digits_bound D HD) as Hb. fold nd in Hb.
  assert (Hnd : 0 < nd) by (unfold nd; pose proof (Z.div_pos (Z.log2 D) 3 (Z.log2_nonneg D)); lia).
  pose proof (Pk_pos E) as HP. pose proof (Mk_pos E) as HMk.
  assert (HMk' : Mk E <= 2 ^ 1074).
  { unfold Mk. destruct (0 <=? E) eqn:EE; [apply (Z.pow_le_mono_r 2 0); lia|]. apply Z.pow_le_mono_r; lia. }
  (* 10^(-e10) = 10^nd * 10^(-e10-nd), and 10^(-e10-nd) >= 10^330 *)
  assert (Hsplit : 10 ^ (- e10) = 10 ^ nd * 10 ^ (- e10 - nd)) by (rewrite <- Z.pow_add_r by lia; f_equal; lia).
  assert (Hbig : 10 ^ 330 <= 10 ^ (- e10 - nd)) by (apply Z.pow_le_mono_r; lia).
  assert (H10 : 0 < 10 ^ nd) by (apply Z.pow_pos_nonneg; lia).
  (* D * Mk E < 10^nd * 2^1074 < 10^nd * 10^330 <= 10^(-e10) <= M * Pk E * 10^(-e10) *)
  assert (H1 : D * Mk E < 10 ^ nd * 10 ^ 330).
  { apply Z.le_lt_trans with (D * 2 ^ 1074); [apply Z.mul_le_mono_nonneg_l; lia|].
    apply Z.lt_trans with (10 ^ nd * 2 ^ 1074); [apply Z.mul_lt_mono_pos_r; [apply Z.pow_pos_nonneg|]; lia|].
    apply Z.mul_lt_mono_pos_l; [exact H10|exact pow10_330]. }
  assert (H2 : 10 ^ nd * 10 ^ 330 <= M * Pk E * 10 ^ (- e10)).
  { rewrite Hsplit. apply Z.le_trans with (10 ^ nd * 10 ^ (- e10 - nd)); [apply Z.mul_le_mono_nonneg_l; lia|].
    assert (0 < 10 ^ nd * 10 ^ (- e10 - nd)) by (apply Z.mul_pos_pos; [exact H10|apply Z.pow_pos_nonneg; lia]).
    assert (1 <= M * Pk E) by nia. nia. }
  lia.
Qed.

(* ---------- parse_float ---------- *)
(* the denoted number is a float64: zero, or M * 2^E with a 53-bit M and E >= -1074 *)
Definition dec_is_float64 (D e10 : Z) : Prop :=
  D = 0 \/ exists M E, 0 < M < two53 /\ -1074 <= E /\ is_dyadic (fst (dec_fraction D e10)) (snd (dec_fraction D e10)) M E.

Lemma Qval_opp m e : (Qval (- m) e == - Qval m e)%Q.
Proof. unfold Qval. rewrite inject_Z_opp. ring. Qed.

Lemma digits_val_acc_nonneg t : forall acc v, 0 <= acc -> digits_val_acc acc t = Some v -> 0 <= v.
Proof.
  induction t as [|c t IH]; intros acc v Ha; cbn [digits_val_acc]; [intros [= <-]; exact Ha|].
  destruct (is_digit c) eqn:Ed; [|discriminate]. apply IH.
  unfold is_digit in Ed. apply andb_prop in Ed. destruct Ed as [E1 _]. apply N.leb_le in E1. lia.
Qed.

Lemma dec_parts_nonneg t neg D e10 : dec_parts t = Some (neg, D, e10) -> 0 <= D.
Proof.
  unfold dec_parts. destruct (match t with 45%N :: r => _ | 43%N :: r => _ | _ => _ end) as [ng t1].
  destruct (span_digits t1) as [ip t2]. destruct (match t2 with 46%N :: r => _ | _ => _ end) as [fp t3].
  destruct (ip ++ fp) as [|d ds] eqn:Eds; [discriminate|].
  destruct (match t3 with [] => _ | c :: r => _ end) as [ex|]; [|discriminate].
  destruct (digits_val (d :: ds)) as [v|] eqn:Ev; [|discriminate]. intros [= _ <- _].
  unfold digits_val in Ev. eapply digits_val_acc_nonneg; [|exact Ev]. lia.
Qed.

(* THE decimal theorem: a literal that denotes a float64 is converted to exactly that number *)
Theorem parse_float_exact t neg D e10 m e :
  dec_parts t = Some (neg, D, e10) -> dec_is_float64 D e10 ->
  parse_float t = PFVal (FFin m e) -> (Qval m e == Qdec neg D e10)%Q.
Proof.
  intros Hp Hf. pose proof (dec_parts_nonneg _ _ _ _ Hp) as HD0. unfold parse_float. rewrite Hp.
  destruct (D =? 0) eqn:E0.
  - apply Z.eqb_eq in E0. subst D. intros [= <- <-]. unfold Qval, Qdec. destruct neg; ring.
  - apply Z.eqb_neq in E0. destruct Hf as [->|(M & E & HM & HE & Hdy)]; [contradiction|].
    assert (HD : 0 < D) by lia.
    destruct (310 <=? e10); [discriminate|].
    destruct (e10 + (Z.log2 D / 3 + 1) <=? -330) eqn:Et.
    + exfalso. apply Z.leb_le in Et. unfold dec_fraction in Hdy.
      destruct (0 <=? e10) eqn:Ee; [apply Z.leb_le in Ee; pose proof (Z.div_pos (Z.log2 D) 3 (Z.log2_nonneg D)); lia|].
      cbn [fst snd] in Hdy. exact (tiny_not_dyadic D e10 M E HD Et (proj1 HM) HE Hdy).
    + pose proof (dec_fraction_Q D e10) as Hq. destruct (dec_fraction D e10) as [num den]. cbn [fst snd] in Hdy. destruct Hq as [Hden Hq].
      assert (Hnum : 0 < num).
      { unfold is_dyadic in Hdy. pose proof (Pk_pos E). pose proof (Mk_pos E). 
        assert (0 < M * Pk E * den) by (apply Z.mul_pos_pos; [apply Z.mul_pos_pos|]; lia). nia. }
      destruct (round_pos_rational num den) as [[m0 e0]|] eqn:Er; [|discriminate]. intros [= <- <-].
      pose proof (round_exact_dyadic num den M E m0 e0 Hnum Hden HM HE Hdy Er) as Hex.
      pose proof (Qval_of_ND num den m0 (- e0) Hden Hex) as Hv. rewrite Z.opp_involutive in Hv.
      unfold Qdec. destruct neg; [rewrite Qval_opp|]; rewrite Hv, Hq; reflexivity.
Qed.

(* in general: the nearest float64, ties to even (or zero for values below 10^-330) *)
Theorem parse_float_nearest t neg D e10 m e :
  dec_parts t = Some (neg, D, e10) -> 0 < D -> parse_float t = PFVal (FFin m e) ->
  (e10 + (Z.log2 D / 3 + 1) <= -330 /\ m = 0 /\ e = 0) \/
  (let num := fst (dec_fraction D e10) in let den := snd (dec_fraction D e10) in
   exists m0, m = (if neg then - m0 else m0) /\
   let n := Nk num (- e) in let d := Dk den (- e) in
   Z.abs (2 * (m0 * d - n)) <= d /\ (Z.abs (2 * (m0 * d - n)) = d -> Z.even m0 = true) /\
   ((two52 <= m0 <= two53) \/ (e = -1074 /\ 0 <= m0 <= two53)) /\ -1074 <= e <= 971 /\ (e = 971 -> m0 < two53)).
Proof.
  intros Hp HD. unfold parse_float. rewrite Hp. destruct (D =? 0) eqn:E0; [apply Z.eqb_eq in E0; lia|].
  destruct (310 <=? e10); [discriminate|].
  destruct (e10 + (Z.log2 D / 3 + 1) <=? -330) eqn:Et.
  - apply Z.leb_le in Et. intros [= <- <-]. left. repeat split; try reflexivity. exact Et.
  - pose proof (dec_fraction_Q D e10) as Hq. destruct (dec_fraction D e10) as [num den] eqn:Ef. destruct Hq as [Hden _].
    assert (Hnum : 0 < num).
    { unfold dec_fraction in Ef. destruct (0 <=? e10) eqn:Ee; injection Ef as <- <-; [|exact HD].
      apply Z.leb_le in Ee. apply Z.mul_pos_pos; [exact HD|apply Z.pow_pos_nonneg; lia]. }
    destruct (round_pos_rational num den) as [[m0 e0]|] eqn:Er; [|discriminate]. intros [= <- <-].
    right. cbn [fst snd]. exists m0. split; [reflexivity|]. exact (round_nearest_even num den m0 e0 Hnum Hden Er).
Qed.

(* ---------- acceptance: a literal that denotes a finite float64 is never refused ---------- *)
Definition dec_is_finite_float64 (D e10 : Z) : Prop :=
  D = 0 \/ exists M E, 0 < M < two53 /\ -1074 <= E /\
                       is_dyadic (fst (dec_fraction D e10)) (snd (dec_fraction D e10)) M E /\
                       M * Pk E < 2 ^ 1024 * Mk E.

Lemma finite_is_float64 D e10 : dec_is_finite_float64 D e10 -> dec_is_float64 D e10.
Proof. intros [H|(M & E & H1 & H2 & H3 & _)]; [left; exact H|right; exists M, E; auto]. Qed.

Lemma pow10_310 : 2 ^ 1024 < 10 ^ 310.
Proof. vm_compute. reflexivity. Qed.

Theorem parse_float_accepts t neg D e10 :
  dec_parts t = Some (neg, D, e10) -> dec_is_finite_float64 D e10 ->
  exists m e, parse_float t = PFVal (FFin m e).
Proof.
  intros Hp Hf. pose proof (dec_parts_nonneg _ _ _ _ Hp) as HD0. unfold parse_float. rewrite Hp.
  destruct (D =? 0) eqn:E0; [exists 0, 0; reflexivity|]. apply Z.eqb_neq in E0.
  destruct Hf as [->|(M & E & HM & HE & Hdy & Hfin)]; [contradiction|]. assert (HD : 0 < D) by lia.
  destruct (310 <=? e10) eqn:E310.
  - exfalso. apply Z.leb_le in E310. unfold dec_fraction in Hdy, Hfin. destruct (0 <=? e10) eqn:Ee; [|apply Z.leb_gt in Ee; lia].
    cbn [fst snd] in Hdy. unfold is_dyadic in Hdy. rewrite Z.mul_1_r in Hdy. pose proof (Mk_pos E) as HME.
    assert (H1 : D * 10 ^ e10 < 2 ^ 1024).
    { apply Z.mul_lt_mono_pos_r with (Mk E); [exact HME|]. rewrite Hdy. exact Hfin. }
    assert (H2 : 10 ^ 310 <= 10 ^ e10) by (apply Z.pow_le_mono_r; lia).
    assert (H3 : 10 ^ e10 <= D * 10 ^ e10) by (assert (0 < 10 ^ e10) by (apply Z.pow_pos_nonneg; lia); nia).
    pose proof pow10_310. lia.
  - destruct (e10 + (Z.log2 D / 3 + 1) <=? -330); [exists 0, 0; reflexivity|].
    pose proof (dec_fraction_Q D e10) as Hq. destruct (dec_fraction D e10) as [num den]. cbn [fst snd] in Hdy. destruct Hq as [Hden _].
    assert (Hnum : 0 < num).
    { unfold is_dyadic in Hdy. pose proof (Pk_pos E). pose proof (Mk_pos E).
      assert (0 < M * Pk E * den) by (apply Z.mul_pos_pos; [apply Z.mul_pos_pos|]; lia). nia. }
    destruct (round_accepts_dyadic num den M E Hnum Hden HM HE Hdy Hfin) as (m & e & ->).
    eexists _, _. reflexivity.
Qed.

(* both together: the literal is accepted and converted to exactly the number it denotes *)
Theorem parse_float_value t neg D e10 :
  dec_parts t = Some (neg, D, e10) -> dec_is_finite_float64 D e10 ->
  exists m e, parse_float t = PFVal (FFin m e) /\ (Qval m e == Qdec neg D e10)%Q.
Proof.
  intros Hp Hf. destruct (parse_float_accepts t neg D e10 Hp Hf) as (m & e & H). exists m, e. split; [exact H|].
  exact (parse_float_exact t neg D e10 m e Hp (finite_is_float64 D e10 Hf) H).
Qed.
