(* SemLaws.v — diagnostics (C16) and Boolean-algebra laws including failures (C17)
   for the compositional semantics. *)
From Rules Require Import Spec SemProps.
Open Scope Z_scope.

Section WithLower.
Variable lower : bytes -> bytes.
Variable top : object.
Notation sem := (sem lower top).
Notation reached := (reached lower top).
Notation leaf_dbg := (leaf_dbg lower top).

(* ---------- C16: the diagnostic is the latest one produced by a reached comparison ---------- *)
Definition dbg_result (r : sres) : option (option dbgerr) :=
  match r with SPanic => None | SFail _ d => Some d | SVal _ d => Some d end.

Definition fold_dbg (d : option dbgerr) (ls : list query) : option dbgerr :=
  fold_left merge_dbg (map leaf_dbg ls) d.

Lemma fold_dbg_app d a b : fold_dbg d (a ++ b) = fold_dbg (fold_dbg d a) b.
Proof. unfold fold_dbg. rewrite map_app, fold_left_app. reflexivity. Qed.

Lemma sem_dbg q : forall d d',
  dbg_result (sem q d) = Some d' -> d' = fold_dbg d (fst (reached q)).
Proof.
  induction q as [neg q1 IH|isor l IHl r IHr|p|p op v]; intros d d'; cbn [Spec.sem SemProps.reached].
  - destruct (sem q1 d) as [|e1 d1|b1 d1] eqn:E; cbn; try discriminate; intros [= <-];
      rewrite (surjective_pairing (reached q1)); cbn; apply IH; rewrite E; reflexivity.
  - destruct (sem l d) as [|e1 d1|b1 d1] eqn:E; cbn; try discriminate.
    + intros [= <-]. destruct (sem_fail_reached _ _ _ _ _ _ E) as (_ & _ & _ & _ & Hn).
      rewrite (surjective_pairing (reached l)), Hn. cbn. apply IHl. rewrite E. reflexivity.
    + pose proof (sem_reached_val _ _ _ _ _ _ E) as Hv.
      rewrite (surjective_pairing (reached l)), Hv.
      assert (Hd1 : d1 = fold_dbg d (fst (reached l))) by (apply IHl; rewrite E; reflexivity).
      destruct isor, b1; cbn.
      * intros [= <-]. exact Hd1.
      * intros H. rewrite (surjective_pairing (reached r)). cbn [fst snd]. rewrite fold_dbg_app, <- Hd1. apply IHr. exact H.
      * intros H. rewrite (surjective_pairing (reached r)). cbn [fst snd]. rewrite fold_dbg_app, <- Hd1. apply IHr. exact H.
      * intros [= <-]. exact Hd1.
  - unfold of_lres, fold_dbg, SemProps.leaf_dbg. cbn.
    destruct (present_sem top p) as [|b0 [e0|] d0]; cbn; try discriminate; intros [= <-]; reflexivity.
  - unfold of_lres, fold_dbg, SemProps.leaf_dbg. cbn.
    destruct (compare_sem lower top p op v) as [|b0 [e0|] d0]; cbn; try discriminate; intros [= <-]; reflexivity.
Qed.

Lemma fold_dbg_some ls : forall d, fold_dbg d ls <> None <-> (d <> None \/ exists l, In l ls /\ leaf_dbg l <> None).
Proof.
  induction ls as [|x r IH]; intros d; cbn.
  - split; [tauto|]. intros [H|(l & [] & _)]. exact H.
  - change (fold_left merge_dbg (map leaf_dbg r) (merge_dbg d (leaf_dbg x))) with (fold_dbg (merge_dbg d (leaf_dbg x)) r).
    rewrite IH. unfold merge_dbg. split.
    + intros [H|(l & Hin & Hl)].
      * destruct (leaf_dbg x) eqn:E; [right; exists x; split; [left; reflexivity|congruence]|left; exact H].
      * right. exists l. split; [right; exact Hin|exact Hl].
    + intros [H|(l & [<-|Hin] & Hl)].
      * left. destruct (leaf_dbg x); [discriminate|exact H].
      * left. destruct (leaf_dbg x); [discriminate|congruence].
      * right. exists l. split; assumption.
Qed.

(* LastDebugErr is non-nil exactly when some reached comparison produced a diagnostic *)
Theorem dbg_iff_reached_undecided q d' :
  dbg_result (sem q None) = Some d' ->
  (d' <> None <-> exists l, In l (fst (reached q)) /\ leaf_dbg l <> None).
Proof.
  intros H. rewrite (sem_dbg _ _ _ H), fold_dbg_some. split; [intros [C|E]; [congruence|exact E]|intros E; right; exact E].
Qed.

(* ---------- C17: laws ---------- *)
Definition sh (q : query) : option (bool + verr) := shape (sem q None).

Lemma sh_any q d : shape (sem q d) = sh q.
Proof. apply sem_shape. Qed.

Definition s_not (neg : bool) (s : option (bool + verr)) : option (bool + verr) :=
  match s with Some (inl b) => Some (inl (if neg then negb b else b)) | x => x end.

Definition s_logic (isor : bool) (sa sb : option (bool + verr)) : option (bool + verr) :=
  match sa with
  | Some (inl b) => if isor then (if b then Some (inl b) else sb) else (if b then sb else Some (inl b))
  | x => x
  end.

Lemma sh_paren neg q : sh (QParen neg q) = s_not neg (sh q).
Proof. unfold sh. cbn. destruct (sem q None); reflexivity. Qed.

Lemma sh_logic isor a b : sh (QLogic isor a b) = s_logic isor (sh a) (sh b).
Proof.
  unfold sh at 1 2. cbn. destruct (sem a None) as [|e d|x d]; try reflexivity. cbn.
  destruct isor, x; try reflexivity; apply sh_any.
Qed.

(* same verdict, or both fail (a recovered panic is a failure) *)
Definition same_outcome (s1 s2 : option (bool + verr)) : Prop :=
  match s1, s2 with
  | Some (inl b1), Some (inl b2) => b1 = b2
  | Some (inl _), _ | _, Some (inl _) => False
  | _, _ => True
  end.

Ltac laws := repeat rewrite ?sh_paren, ?sh_logic;
  repeat match goal with |- context [sh ?q] => destruct (sh q) as [[[]|[]]|] end; cbn; auto.

Theorem law_double_negation A : same_outcome (sh (QParen true (QParen true A))) (sh A).
Proof. laws. Qed.

Theorem law_de_morgan_and A B :
  same_outcome (sh (QParen true (QLogic false A B))) (sh (QLogic true (QParen true A) (QParen true B))).
Proof. laws. Qed.

Theorem law_de_morgan_or A B :
  same_outcome (sh (QParen true (QLogic true A B))) (sh (QLogic false (QParen true A) (QParen true B))).
Proof. laws. Qed.

Theorem law_assoc A B C isor :
  same_outcome (sh (QLogic isor (QLogic isor A B) C)) (sh (QLogic isor A (QLogic isor B C))).
Proof. destruct isor; laws. Qed.

Theorem law_idempotent A isor : same_outcome (sh (QLogic isor A A)) (sh A).
Proof. destruct isor; laws. Qed.

Definition cannot_fail (q : query) : Prop := exists b, sh q = Some (inl b).

Theorem law_commutative A B isor :
  cannot_fail A -> cannot_fail B -> same_outcome (sh (QLogic isor A B)) (sh (QLogic isor B A)).
Proof.
  intros [a Ha] [b Hb]. rewrite !sh_logic, Ha, Hb. destruct isor, a, b; cbn; auto.
Qed.

(* redundant parentheses are transparent (used for the parenthesised operands of the laws, and C15) *)
Theorem paren_transparent q d : sem (QParen false q) d = sem q d.
Proof. cbn. destruct (sem q d); reflexivity. Qed.

End WithLower.
