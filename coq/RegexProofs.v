(* RegexProofs.v — the derivative matcher computes the declarative matching
   relation; [longest_match] returns the length of the longest matching prefix. *)
From Rules Require Import Regex.
Open Scope N_scope.

Inductive matches : re -> text -> Prop :=
| MEps : matches Eps []
| MCls rs c : in_ranges c rs = true -> matches (Cls rs) [c]
| MCat a b s t : matches a s -> matches b t -> matches (Cat a b) (s ++ t)
| MAltL a b s : matches a s -> matches (Alt a b) s
| MAltR a b s : matches b s -> matches (Alt a b) s
| MStar0 a : matches (Star a) []
| MStarS a s t : matches a s -> matches (Star a) t -> matches (Star a) (s ++ t).

Lemma nullable_matches r : nullable r = true <-> matches r [].
Proof.
  split.
  - induction r; cbn; intros H; try discriminate.
    + constructor.
    + apply andb_prop in H. destruct H. change (@nil N) with (@nil N ++ []). constructor; auto.
    + apply Bool.orb_prop in H. destruct H; [apply MAltL|apply MAltR]; auto.
    + constructor.
  - intros H. remember [] as s eqn:Es. induction H; cbn; try reflexivity; try discriminate.
    + apply app_eq_nil in Es. destruct Es. rewrite IHmatches1, IHmatches2 by assumption. reflexivity.
    + rewrite IHmatches by assumption. reflexivity.
    + rewrite IHmatches by assumption. apply Bool.orb_true_r.
Qed.

Lemma no_match_emp s : ~ matches Emp s.
Proof. intros H. inversion H. Qed.

Lemma match_eps s : matches Eps s <-> s = [].
Proof. split; [intros H; inversion H; reflexivity|intros ->; constructor]. Qed.

Lemma cat_matches a b s : matches (cat a b) s <-> matches (Cat a b) s.
Proof.
  assert (E1 : forall b s, matches (Cat Emp b) s <-> False) by (intros; split; [intros H; inversion H; subst; eapply no_match_emp; eauto|tauto]).
  assert (E2 : forall a s, matches (Cat a Emp) s <-> False) by (intros; split; [intros H; inversion H; subst; eapply no_match_emp; eauto|tauto]).
  assert (E3 : forall b s, matches (Cat Eps b) s <-> matches b s).
  { intros; split; intros H.
    - inversion H; subst. match goal with H1 : matches Eps _ |- _ => inversion H1; subst end. assumption.
    - change s0 with ([] ++ s0). constructor; [constructor|assumption]. }
  assert (E4 : forall a s, matches (Cat a Eps) s <-> matches a s).
  { intros; split; intros H.
    - inversion H; subst. match goal with H1 : matches Eps _ |- _ => inversion H1; subst end. rewrite app_nil_r. assumption.
    - rewrite <- (app_nil_r s0). constructor; [assumption|constructor]. }
  destruct a; destruct b; cbn [cat]; rewrite ?E1, ?E2, ?E3, ?E4; try tauto;
    try (split; [intros H; eapply no_match_emp; eauto|tauto]).
Qed.

Lemma alt_matches a b s : matches (alt a b) s <-> matches (Alt a b) s.
Proof.
  assert (E : forall x s, matches (Alt Emp x) s <-> matches x s).
  { intros; split; intros H; [inversion H; subst; [exfalso; eapply no_match_emp; eauto|assumption]|apply MAltR; assumption]. }
  assert (E' : forall x s, matches (Alt x Emp) s <-> matches x s).
  { intros; split; intros H; [inversion H; subst; [assumption|exfalso; eapply no_match_emp; eauto]|apply MAltL; assumption]. }
  destruct a; destruct b; cbn [alt]; rewrite ?E, ?E'; tauto.
Qed.

Lemma cat_inv a b s : matches (Cat a b) s <-> exists s1 s2, s = s1 ++ s2 /\ matches a s1 /\ matches b s2.
Proof.
  split; [intros H; inversion H; subst; eauto|intros (s1 & s2 & -> & H1 & H2); constructor; assumption].
Qed.

Lemma alt_inv a b s : matches (Alt a b) s <-> matches a s \/ matches b s.
Proof. split; [intros H; inversion H; subst; auto|intros [H|H]; [apply MAltL|apply MAltR]; assumption]. Qed.

(* a non-empty match of a star starts with a non-empty match of the body *)
Lemma star_cons a c s : matches (Star a) (c :: s) -> exists s1 s2, s = s1 ++ s2 /\ matches a (c :: s1) /\ matches (Star a) s2.
Proof.
  intros H. remember (Star a) as r eqn:Er. remember (c :: s) as w eqn:Ew. revert c s Ew.
  induction H; intros c0 s0 Ew; try discriminate.
  injection Er as ->. destruct s as [|x s].
  - cbn in Ew. apply IHmatches2; auto.
  - cbn in Ew. injection Ew as -> <-. eauto.
Qed.

Lemma deriv_matches c r : forall s, matches (deriv c r) s <-> matches r (c :: s).
Proof.
  induction r as [| |rs|a IHa b IHb|a IHa b IHb|a IHa]; intros s; cbn [deriv].
  - split; intros H; inversion H.
  - split; intros H; inversion H.
  - destruct (in_ranges c rs) eqn:E.
    + rewrite match_eps. split; [intros ->; constructor; assumption|intros H; inversion H; reflexivity].
    + split; intros H; [exfalso; eapply no_match_emp; eauto|inversion H; congruence].
  - assert (Hcat : matches (cat (deriv c a) b) s <-> exists s1 s2, s = s1 ++ s2 /\ matches a (c :: s1) /\ matches b s2).
    { rewrite cat_matches, cat_inv. split; intros (s1 & s2 & E & H1 & H2); exists s1, s2; repeat split; auto; apply IHa; assumption. }
    assert (Hmain : matches (Cat a b) (c :: s) <->
              (exists s1 s2, s = s1 ++ s2 /\ matches a (c :: s1) /\ matches b s2) \/ (matches a [] /\ matches b (c :: s))).
    { rewrite cat_inv. split.
      - intros (s1 & s2 & E & H1 & H2). destruct s1 as [|x s1]; cbn in E.
        + right. subst s2. auto.
        + injection E as <- ->. left. eauto.
      - intros [(s1 & s2 & -> & H1 & H2)|[H1 H2]]; [exists (c :: s1), s2|exists [], (c :: s)]; auto. }
    rewrite Hmain. destruct (nullable a) eqn:En.
    + rewrite alt_matches, alt_inv, Hcat, IHb. apply nullable_matches in En. tauto.
    + rewrite Hcat. split; [tauto|]. intros [H|[H _]]; [exact H|]. apply nullable_matches in H. congruence.
  - rewrite alt_matches, !alt_inv, IHa, IHb. tauto.
  - rewrite cat_matches, cat_inv. split.
    + intros (s1 & s2 & -> & H1 & H2). apply IHa in H1. change (c :: s1 ++ s2) with ((c :: s1) ++ s2). constructor; assumption.
    + intros H. apply star_cons in H. destruct H as (s1 & s2 & -> & H1 & H2). exists s1, s2. repeat split; auto. apply IHa. exact H1.
Qed.

(* ---------- longest prefix ---------- *)
Definition prefix_matches (r : re) (s : text) (k : nat) : Prop := matches r (firstn k s).

Definition is_longest (r : re) (s : text) (k : nat) : Prop :=
  (k <= length s)%nat /\ prefix_matches r s k /\ forall m, (k < m <= length s)%nat -> ~ prefix_matches r s m.

Definition no_prefix (r : re) (s : text) : Prop := forall m, (m <= length s)%nat -> ~ prefix_matches r s m.

Lemma longest_spec s : forall r n best,
  (exists k, is_longest r s k /\ longest r s n best = Some (n + k)%nat) \/
  (no_prefix r s /\ longest r s n best = best).
Proof.
  induction s as [|c s IH]; intros r n best; cbn [longest].
  - destruct (nullable r) eqn:En.
    + left. exists 0%nat. split; [|f_equal; lia]. repeat split; [cbn; lia|apply nullable_matches; exact En|cbn; lia].
    + right. split; [|reflexivity]. intros m Hm. cbn in Hm. assert (m = 0)%nat by lia. subst. unfold prefix_matches. cbn.
      intros H. apply nullable_matches in H. congruence.
  - destruct (is_emp r) eqn:Ee.
    + destruct r; try discriminate. cbn. right. split; [|reflexivity]. intros m _ H. eapply no_match_emp; exact H.
    + set (best' := if nullable r then Some n else best).
      destruct (IH (deriv c r) (S n) best') as [(k & (Hk1 & Hk2 & Hk3) & Hres)|[Hnone Hres]].
      * left. exists (S k). split; [|rewrite Hres; f_equal; lia].
        repeat split; [cbn; lia|unfold prefix_matches; cbn; apply deriv_matches; exact Hk2|].
        intros m Hm. destruct m as [|m]; [lia|]. unfold prefix_matches. cbn. rewrite <- deriv_matches. apply Hk3. cbn in Hm. lia.
      * rewrite Hres. unfold best'. destruct (nullable r) eqn:En.
        -- left. exists 0%nat. split; [|f_equal; lia]. repeat split; [cbn; lia|apply nullable_matches; exact En|].
           intros m Hm. destruct m as [|m]; [lia|]. unfold prefix_matches. cbn. rewrite <- deriv_matches. apply Hnone. cbn in Hm. lia.
        -- right. split; [|reflexivity]. intros m Hm. destruct m as [|m]; unfold prefix_matches; cbn.
           ++ intros H. apply nullable_matches in H. congruence.
           ++ rewrite <- deriv_matches. apply Hnone. cbn in Hm. lia.
Qed.

Lemma is_longest_unique r s k1 k2 : is_longest r s k1 -> is_longest r s k2 -> k1 = k2.
Proof.
  intros (A1 & A2 & A3) (B1 & B2 & B3).
  destruct (Nat.lt_trichotomy k1 k2) as [H|[H|H]]; [exfalso; apply (A3 k2); [lia|assumption]|assumption|exfalso; apply (B3 k1); [lia|assumption]].
Qed.

Theorem longest_match_some r s k : longest_match r s = Some k <-> is_longest r s k.
Proof.
  unfold longest_match. destruct (longest_spec s r 0%nat None) as [(k' & Hk & Hres)|[Hnone Hres]]; rewrite Hres.
  - cbn. split; [intros [= <-]; exact Hk|intros H; f_equal; eapply is_longest_unique; eassumption].
  - split; [discriminate|]. intros (H1 & H2 & _). exfalso. exact (Hnone k H1 H2).
Qed.

Theorem longest_match_none r s : longest_match r s = None <-> no_prefix r s.
Proof.
  unfold longest_match. destruct (longest_spec s r 0%nat None) as [(k' & (Hk1 & Hk2 & Hk3) & Hres)|[Hnone Hres]]; rewrite Hres.
  - split; [discriminate|]. intros H. exfalso. exact (H k' Hk1 Hk2).
  - tauto.
Qed.
