(* Tokens.v — token kinds, non-terminal names and grammar symbols.  The names
   are those of parser/JsonQuery.g4 (K_<lexer rule>; the seven implicit literal
   tokens of the parser rules are K_LP K_RP K_PR K_DOT K_MINUS K_LB K_RB). *)
From Rules Require Export Base.

Inductive tkind :=
| K_LP | K_RP | K_PR | K_DOT | K_MINUS | K_LB | K_RB
| K_NOT | K_LOGICAL_OPERATOR | K_BOOLEAN | K_NULL
| K_IN | K_EQ | K_NE | K_GT | K_LT | K_GE | K_LE | K_CO | K_SW | K_EW
| K_ATTRNAME | K_VERSION | K_STRING | K_DOUBLE | K_INT | K_EXP | K_NEWLINE | K_COMMA | K_SP.

Definition tkind_eq_dec (a b : tkind) : {a = b} + {a <> b}.
Proof. decide equality. Defined.

Definition tkind_eqb (a b : tkind) : bool := if tkind_eq_dec a b then true else false.

Inductive ntname :=
| N_query | N_attrPath | N_subAttr | N_value
| N_listStrings | N_subListOfStrings | N_listDoubles | N_subListOfDoubles
| N_listInts | N_subListOfInts.

Inductive sym :=
| T (k : tkind)
| NT (n : ntname)
| Opt (s : sym)
| TSet (ks : list tkind).

Definition tok := (tkind * text)%type.
