(* EvalProofs.v — facts about the public entry points (Eval.v). *)
From Rules Require Import Eval.

Section WithLower.
Variable lower : bytes -> bytes.

Lemma process_tree_err_false q o :
  o_err (process_tree lower q o) <> ErrNone -> o_verdict (process_tree lower q o) = false.
Proof.
  unfold process_tree.
  destruct (visit_query lower o q init_vstate) as [[b st]|]; cbn; [|reflexivity].
  destruct (verror st) as [[|]|]; cbn; intros H; try reflexivity.
  exfalso; apply H; reflexivity.
Qed.

Lemma process_err_false ev o :
  o_err (snd (process lower ev o)) <> ErrNone -> o_verdict (snd (process lower ev o)) = false.
Proof.
  unfold process. destruct (ev_tree ev) as [q|]; cbn; [|reflexivity].
  apply process_tree_err_false.
Qed.

(* error => verdict false, for NewEvaluator followed by Process *)
Lemma run_err_false rule o :
  o_err (run lower rule o) <> ErrNone -> o_verdict (run lower rule o) = false.
Proof. unfold run. apply process_err_false. Qed.

(* rules.Evaluate returns the verdict and the error-or-not of NewEvaluator+Process *)
Lemma rules_evaluate_is_run rule o :
  rules_evaluate lower rule o = (o_verdict (run lower rule o), o_err (run lower rule o)).
Proof. reflexivity. Qed.

(* parser.Evaluate returns that verdict *)
Lemma parser_evaluate_is_run rule o :
  parser_evaluate lower rule o = o_verdict (run lower rule o).
Proof. reflexivity. Qed.

(* a text that is not a sentence: (false, error) on all three entry points, for every object *)
Lemma run_reject rule o :
  parse_rule rule = None ->
  run lower rule o = mkOut false ErrOther None.
Proof. unfold run, new_evaluator, process; cbn. intros ->. reflexivity. Qed.

Lemma entry_points_agree rule o :
  let r := run lower rule o in
  rules_evaluate lower rule o = (o_verdict r, o_err r) /\
  parser_evaluate lower rule o = o_verdict r /\
  (o_err r <> ErrNone -> o_verdict r = false /\ parser_evaluate lower rule o = false /\ fst (rules_evaluate lower rule o) = false).
Proof.
  cbn. repeat split; try reflexivity; apply run_err_false; assumption.
Qed.

End WithLower.
