(* Visitor.v — the stateful evaluator: parser/jsonquery_visitor_impl.go,
   function by function, with the same state components and the same order of
   effects.  A Go panic (failed type assertion, panicking String()) is the
   result [Panic]; Process recovers it (Eval.v). *)
From Rules Require Export Ops.
Open Scope Z_scope.

Inductive verr := VErrInvalidOp | VErrOther.
Inductive dbgerr := DInvalidOp | DMissing | DOperand | DUnknown.

Record vstate := mkV {
  stack : list gval;            (* objStack, top first *)
  leftOp : gval;
  rightOp : operand;
  curOp : option optype;        (* currentOperation; None = nil interface *)
  verror : option verr;         (* err *)
  dbg : option dbgerr           (* debugErr *)
}.

Definition init_vstate : vstate := mkV [] GNil RNil None None None.

Definition set_stack s st := mkV s (leftOp st) (rightOp st) (curOp st) (verror st) (dbg st).
Definition set_left l st := mkV (stack st) l (rightOp st) (curOp st) (verror st) (dbg st).
Definition set_right r st := mkV (stack st) (leftOp st) r (curOp st) (verror st) (dbg st).
Definition set_op t st := mkV (stack st) (leftOp st) (rightOp st) (Some t) (verror st) (dbg st).
Definition set_err e st := mkV (stack st) (leftOp st) (rightOp st) (curOp st) (Some e) (dbg st).
Definition set_dbg d st := mkV (stack st) (leftOp st) (rightOp st) (curOp st) (verror st) (Some d).

Definition has_err (st : vstate) : bool := match verror st with Some _ => true | None => false end.

Definition object := list (bytes * gval).

(* ---------- VisitAttrPath / VisitSubAttr ---------- *)
Fixpoint visit_attr_path (top : object) (p : path) (st : vstate) : res vstate :=
  match p with
  | [] => Ok st
  | [name] =>
      (* no SubAttr: pop (or take the input object), look the last name up *)
      let '(item, st1) := match stack st with
                          | [] => (GMap top, st)
                          | x :: rest => (x, set_stack rest st)
                          end in
      match item with
      | GNil => Ok st1
      | GMap m => Ok (set_stack [] (set_left (lookup (utf8_encode name) m) st1))
      | _ => Panic
      end
  | name :: rest =>
      let item := match stack st with [] => GMap top | x :: _ => x end in
      match item with
      | GNil => Ok st
      | GMap m => visit_attr_path top rest (set_stack (lookup (utf8_encode name) m :: stack st) st)
      | _ => Panic
      end
  end.

(* ---------- literal visitors ---------- *)
Definition t_true : text := [116; 114; 117; 101]%N.
Definition t_false : text := [102; 97; 108; 115; 101]%N.
Definition text_eqb : text -> text -> bool := list_eqb N.eqb.

(* getString: strip the quotes of a STRING token (on the bytes of the Go string) *)
Definition get_string (t : text) : bytes :=
  let b := utf8_encode t in
  if (2 <? length b)%nat then removelast (tl b) else [].

Definition long_text (neg : bool) (i : text) (e : option text) : text :=
  (if neg then [45%N] else []) ++ i ++ match e with Some x => x | None => [] end.

(* VisitSubListOfInts *)
Fixpoint visit_sublist_ints (l : list text) (st : vstate) : res vstate :=
  match l with
  | [] => Ok st
  | x :: rest =>
      let st1 := match rightOp st with RNil => set_right (RInts []) st | _ => st end in
      match rightOp st1 with
      | RInts cur =>
          match parse_int x with
          | None => Ok (set_err VErrOther st1)
          | Some z => visit_sublist_ints rest (set_right (RInts (cur ++ [z])) st1)
          end
      | _ => Panic
      end
  end.

Fixpoint visit_sublist_doubles (l : list text) (st : vstate) : res vstate :=
  match l with
  | [] => Ok st
  | x :: rest =>
      let st1 := match rightOp st with RNil => set_right (RFloats []) st | _ => st end in
      match rightOp st1 with
      | RFloats cur =>
          match parse_float x with
          | PFError => Ok (set_err VErrOther st1)
          | PFVal f => visit_sublist_doubles rest (set_right (RFloats (cur ++ [f])) st1)
          end
      | _ => Panic
      end
  end.

Fixpoint visit_sublist_strings (l : list text) (st : vstate) : res vstate :=
  match l with
  | [] => Ok st
  | x :: rest =>
      let st1 := match rightOp st with RNil => set_right (RStrs []) st | _ => st end in
      match rightOp st1 with
      | RStrs cur => visit_sublist_strings rest (set_right (RStrs (cur ++ [get_string x])) st1)
      | _ => Panic
      end
  end.

Definition visit_value (v : value) (st : vstate) : res vstate :=
  match v with
  | VBoolean t =>
      let st1 := set_op OpBool st in
      if text_eqb t t_true then Ok (set_right (RBool true) st1)
      else if text_eqb t t_false then Ok (set_right (RBool false) st1)
      else Ok (set_err VErrOther (set_right RNil st1))
  | VNull => Ok (set_right RNil (set_op OpNull st))
  | VString t => Ok (set_right (RStr (get_string t)) (set_op OpString st))
  | VDouble t =>
      let st1 := set_op OpFloat st in
      match parse_float t with
      | PFError => Ok (set_right RNil st1)
      | PFVal f => Ok (set_right (RF64 f) st1)
      end
  | VVersion t => Ok (set_right (RStr (utf8_encode t)) (set_op OpVersion st))
  | VLong neg i e =>
      let st1 := set_op OpInt st in
      match parse_int (long_text neg i e) with
      | None => Ok (set_err VErrOther (set_right RNil st1))
      | Some z => Ok (set_right (RInt z) st1)
      end
  | VListInts l => visit_sublist_ints l (set_op OpInt st)
  | VListDoubles l => visit_sublist_doubles l (set_op OpFloat st)
  | VListStrings l => visit_sublist_strings l (set_op OpString st)
  end.

Section WithLower.
Variable lower : bytes -> bytes.

(* resetPath *)
Definition reset_path (st : vstate) : vstate := set_stack [] (set_left GNil st).

(* VisitPresentExp *)
Definition visit_present (top : object) (p : path) (st : vstate) : res (bool * vstate) :=
  st1 <- visit_attr_path top p (reset_path st) ;;
  Ok (negb (is_nil (leftOp st1)), st1).

Definition dbg_of_operr (e : operr) : dbgerr :=
  match e with
  | EInvalidOperation => DInvalidOp
  | EMissing => DMissing
  | EInvalidOperand => DOperand
  | EOtherErr => DUnknown
  end.

(* VisitCompareExp *)
Definition visit_compare (top : object) (p : path) (op : cmpop) (v : value) (st : vstate)
  : res (bool * vstate) :=
  st1 <- visit_attr_path top p (reset_path st) ;;
  st2 <- visit_value v st1 ;;
  if has_err st2 then Ok (false, st2)
  else
    match curOp st2 with
    | None => Panic
    | Some t =>
      r <- op_apply lower t op (leftOp st2) (rightOp st2) ;;
      (* defer func() { j.rightOp = nil }() *)
      let st3 := set_right RNil st2 in
      match r with
      | (b, None) => Ok (b, st3)
      | (_, Some EInvalidOperation) => Ok (false, set_dbg DInvalidOp (set_err VErrInvalidOp st3))
      | (_, Some e) => Ok (false, set_dbg (dbg_of_operr e) st3)
      end
    end.

(* VisitParenExp / VisitLogicalExp / dispatch *)
Fixpoint visit_query (top : object) (q : query) (st : vstate) : res (bool * vstate) :=
  match q with
  | QParen neg q1 =>
      r <- visit_query top q1 st ;;
      let '(b, st1) := r in
      Ok (if neg then negb b else b, st1)
  | QLogic isor l r =>
      rl <- visit_query top l st ;;
      let '(lv, st1) := rl in
      if has_err st1 then Ok (false, st1)
      else if isor then (if lv then Ok (lv, st1) else visit_query top r st1)
      else (if lv then visit_query top r st1 else Ok (lv, st1))
  | QPresent p => visit_present top p st
  | QCompare p op v => visit_compare top p op v st
  end.

End WithLower.
