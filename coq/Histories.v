(* Histories.v — evaluator histories (C11), interleavings of evaluators owned by
   different goroutines (C12), the frame condition on the input object (C13). *)
From Rules Require Import Eval EvalProofs.

Section WithLower.
Variable lower : bytes -> bytes.

(* ---------- C11 ---------- *)
Fixpoint esteps (ev : evaluator) (ops : list eop) : evaluator :=
  match ops with
  | [] => ev
  | op :: r => esteps (fst (estep lower ev op)) r
  end.

Lemma estep_tree ev op : ev_tree (fst (estep lower ev op)) = ev_tree ev.
Proof.
  destruct op; cbn; try reflexivity.
  unfold process. destruct (ev_tree ev); reflexivity.
Qed.

Lemma esteps_tree ops : forall ev, ev_tree (esteps ev ops) = ev_tree ev.
Proof. induction ops as [|op r IH]; intros ev; cbn; [reflexivity|]. rewrite IH. apply estep_tree. Qed.

Lemma process_depends_on_tree ev1 ev2 o : ev_tree ev1 = ev_tree ev2 -> snd (process lower ev1 o) = snd (process lower ev2 o).
Proof. unfold process. intros ->. destruct (ev_tree ev2); reflexivity. Qed.

(* whatever calls came before, Process answers like a fresh evaluator for the same rule text *)
Theorem c11_history rule ops o :
  snd (process lower (esteps (new_evaluator rule) ops) o) = run lower rule o.
Proof. unfold run. apply process_depends_on_tree. apply esteps_tree. Qed.

(* LastDebugErr describes the most recent Process call only, and is nil after Reset *)
Theorem c11_dbg_latest ev o : last_debug_err (fst (process lower ev o)) = o_dbg (snd (process lower ev o)).
Proof. unfold process. destruct (ev_tree ev); reflexivity. Qed.

Theorem c11_dbg_reset ev : last_debug_err (reset ev) = None.
Proof. reflexivity. Qed.

Theorem c11_dbg_query_pure ev : fst (estep lower ev OpLastDebugErr) = ev.
Proof. reflexivity. Qed.

(* the k-th output of a history: every Process output is the fresh one *)
Theorem c11_erun rule : forall ops ev, ev_tree ev = parse_rule rule ->
  forall k o, nth_error ops k = Some (OpProcess o) ->
  nth_error (erun lower ev ops) k = Some (OutProcess (run lower rule o)).
Proof.
  induction ops as [|op r IH]; intros ev Ht k o Hk; [destruct k; discriminate|].
  cbn [erun]. destruct (estep lower ev op) as [ev' out] eqn:E.
  destruct k as [|k]; cbn in Hk |- *.
  - injection Hk as ->. cbn in E. destruct (process lower ev o) as [ev2 r2] eqn:Ep. injection E as <- <-.
    f_equal. f_equal. change r2 with (snd (ev2, r2)). rewrite <- Ep. unfold run.
    apply process_depends_on_tree. exact Ht.
  - apply IH; [|exact Hk]. replace ev' with (fst (estep lower ev op)) by (rewrite E; reflexivity).
    rewrite estep_tree. exact Ht.
Qed.

(* ---------- C12 ---------- *)
(* a system of evaluators, each owned by one goroutine; a schedule is any interleaving
   of (goroutine, operation) steps; a step of g touches the evaluator of g only *)
Definition system := nat -> evaluator.

Definition sys_step (s : system) (g : nat) (op : eop) : system * eout :=
  let '(ev', out) := estep lower (s g) op in
  (fun h => if Nat.eqb h g then ev' else s h, out).

Fixpoint sys_run (s : system) (sched : list (nat * eop)) : list (nat * eout) :=
  match sched with
  | [] => []
  | (g, op) :: r => let '(s', out) := sys_step s g op in (g, out) :: sys_run s' r
  end.

Definition proj_ops (g : nat) (sched : list (nat * eop)) : list eop :=
  map snd (filter (fun x => Nat.eqb (fst x) g) sched).
Definition proj_outs (g : nat) (outs : list (nat * eout)) : list eout :=
  map snd (filter (fun x => Nat.eqb (fst x) g) outs).

(* for EVERY schedule, what goroutine g observes is what it observes running alone *)
Theorem c12_interleaving sched : forall s g,
  proj_outs g (sys_run s sched) = erun lower (s g) (proj_ops g sched).
Proof.
  induction sched as [|[h op] r IH]; intros s g; [reflexivity|].
  cbn [sys_run]. unfold sys_step. destruct (estep lower (s h) op) as [ev' out] eqn:E.
  unfold proj_outs, proj_ops in *. cbn [filter map fst snd].
  destruct (Nat.eqb_spec h g) as [->|Hne].
  - cbn [map snd erun]. rewrite E. f_equal. rewrite IH. rewrite Nat.eqb_refl. reflexivity.
  - rewrite IH. destruct (Nat.eqb_spec g h); [congruence|]. reflexivity.
Qed.

End WithLower.

(* frame: Process is a function of (tree, object) that returns no object; the same object
   value can be evaluated again and yields the same answer (store-passing reading: the
   store is threaded unchanged) *)
Theorem c13_frame lower (ev : evaluator) (o : object) :
  let '(ev', out) := process lower ev o in
  snd (process lower ev' o) = out.
Proof.
  destruct (process lower ev o) as [ev' out] eqn:E.
  rewrite <- (process_depends_on_tree lower ev ev' o); [rewrite E; reflexivity|].
  unfold process in E. destruct (ev_tree ev); injection E as <- _; reflexivity.
Qed.

(* ---------- the caller's object between calls (C11, C13) ----------
   The caller owns one object and may change it in place at any moment; Process is called on
   the object as it is at that moment.  What the evaluator answers - including what
   LastDebugErr answers after later changes of the object - is what the plain history answers
   in which every Process carries the object of its own moment: the evaluator keeps no
   reference to the caller's object. *)
Inductive cop := CProcess | CChange (o : object) | CReset | CLastDebugErr.

Section CallerStore.
Variable lower : bytes -> bytes.

Fixpoint wrun (ev : evaluator) (cur : object) (ops : list cop) : list eout :=
  match ops with
  | [] => []
  | CProcess :: r => let '(ev', out) := estep lower ev (OpProcess cur) in out :: wrun ev' cur r
  | CChange o :: r => wrun ev o r
  | CReset :: r => let '(ev', out) := estep lower ev OpReset in out :: wrun ev' cur r
  | CLastDebugErr :: r => let '(ev', out) := estep lower ev OpLastDebugErr in out :: wrun ev' cur r
  end.

Fixpoint at_call_time (cur : object) (ops : list cop) : list eop :=
  match ops with
  | [] => []
  | CProcess :: r => OpProcess cur :: at_call_time cur r
  | CChange o :: r => at_call_time o r
  | CReset :: r => OpReset :: at_call_time cur r
  | CLastDebugErr :: r => OpLastDebugErr :: at_call_time cur r
  end.

Theorem c11_caller_changes ops : forall ev cur, wrun ev cur ops = erun lower ev (at_call_time cur ops).
Proof.
  induction ops as [|op r IH]; intros ev cur; [reflexivity|].
  destruct op; cbn [wrun at_call_time erun].
  - destruct (estep lower ev (OpProcess cur)) as [ev' out]. rewrite IH. reflexivity.
  - apply IH.
  - destruct (estep lower ev OpReset) as [ev' out]. rewrite IH. reflexivity.
  - destruct (estep lower ev OpLastDebugErr) as [ev' out]. rewrite IH. reflexivity.
Qed.

(* in particular: the diagnostic read after the object was changed is the diagnostic of the call *)
Corollary c11_dbg_after_change ev o o' :
  wrun ev o [CProcess; CChange o'; CLastDebugErr]
  = [OutProcess (snd (process lower ev o)); OutDbg (o_dbg (snd (process lower ev o)))].
Proof.
  cbn [wrun estep]. destruct (process lower ev o) as [ev' r] eqn:E. cbn [snd].
  f_equal. f_equal. f_equal.
  change ev' with (fst (ev', r)). change r with (snd (ev', r)) at 2. rewrite <- E. apply c11_dbg_latest.
Qed.
End CallerStore.
