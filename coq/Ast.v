(* Ast.v — abstract syntax of rules: one constructor per labelled alternative
   of parser/JsonQuery.g4.  Literals keep their token texts, as the ANTLR
   contexts do; the visitor converts them. *)
From Rules Require Export Base.

Inductive cmpop := EQ | NE | GT | LT | GE | LE | CO | SW | EW | IN.

Inductive value :=
| VBoolean (t : text)                    (* 'true' | 'false' *)
| VNull
| VVersion (t : text)
| VString (t : text)                     (* token text including the quotes *)
| VDouble (t : text)
| VLong (neg : bool) (i : text) (e : option text)   (* '-'? INT EXP? *)
| VListInts (l : list text)
| VListDoubles (l : list text)
| VListStrings (l : list text).

Definition path := list text.            (* ATTRNAME ('.' ATTRNAME)*, non-empty *)

Inductive query :=
| QParen (neg : bool) (q : query)        (* NOT? '(' query ')' *)
| QLogic (isor : bool) (l r : query)     (* query LOGICAL_OPERATOR query *)
| QPresent (p : path)                    (* attrPath 'pr' *)
| QCompare (p : path) (op : cmpop) (v : value).

Definition cmpop_eqb (a b : cmpop) : bool :=
  match a, b with
  | EQ, EQ | NE, NE | GT, GT | LT, LT | GE, GE | LE, LE | CO, CO | SW, SW | EW, EW | IN, IN => true
  | _, _ => false
  end.
