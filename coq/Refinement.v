(* Refinement.v — the stateful visitor (Visitor.v) refines the compositional
   semantics (Spec.v): started in ANY state without error and with an empty
   rule operand — arbitrary stale stack, left operand, current operation and
   diagnostic — it produces exactly what [sem] says.  Quantifying over the
   start state is non-interference between comparisons. *)
From Rules Require Import Spec Eval.
Open Scope Z_scope.

Definition keeps (st st' : vstate) : Prop :=
  rightOp st' = rightOp st /\ curOp st' = curOp st /\ verror st' = verror st /\ dbg st' = dbg st.

Lemma keeps_refl st : keeps st st.
Proof. repeat split. Qed.

Definition cur_item (top : object) (st : vstate) : gval :=
  match stack st with [] => GMap top | x :: _ => x end.

Lemma vap_last top name st :
  visit_attr_path top [name] st =
  let '(item, st1) := match stack st with
                      | [] => (GMap top, st)
                      | x :: rest => (x, set_stack rest st)
                      end in
  match item with
  | GNil => Ok st1
  | GMap m => Ok (set_stack [] (set_left (lookup (utf8_encode name) m) st1))
  | _ => Panic
  end.
Proof. reflexivity. Qed.

Lemma vap_step top name n2 rest st :
  visit_attr_path top (name :: n2 :: rest) st =
  match cur_item top st with
  | GNil => Ok st
  | GMap m => visit_attr_path top (n2 :: rest) (set_stack (lookup (utf8_encode name) m :: stack st) st)
  | _ => Panic
  end.
Proof. reflexivity. Qed.

Lemma denote_from_step m name n2 rest :
  denote_from (GMap m) (name :: n2 :: rest) = denote_from (lookup (utf8_encode name) m) (n2 :: rest).
Proof. reflexivity. Qed.

Lemma visit_attr_path_spec top p :
  p <> [] -> forall st, leftOp st = GNil ->
  match denote_from (cur_item top st) p with
  | Panic => visit_attr_path top p st = Panic
  | Ok v => exists st', visit_attr_path top p st = Ok st' /\ leftOp st' = v /\ keeps st st'
  end.
Proof.
  induction p as [|name rest IH]; [congruence|]. intros _ st Hl.
  destruct rest as [|n2 rest].
  - rewrite vap_last. unfold cur_item.
    destruct (stack st) as [|x srest] eqn:Hs.
    + cbn [denote_from]. eexists; split; [reflexivity|]. destruct st; cbn in *; repeat split.
    + destruct x; cbn [denote_from]; try reflexivity.
      * eexists; split; [reflexivity|]. destruct st; cbn in *; subst; repeat split.
      * eexists; split; [reflexivity|]. destruct st; cbn in *; repeat split.
  - rewrite vap_step.
    destruct (cur_item top st) eqn:Hc; try reflexivity.
    + cbn [denote_from]. eexists; split; [reflexivity|]. split; [assumption|apply keeps_refl].
    + rewrite denote_from_step.
      set (st2 := set_stack (lookup (utf8_encode name) kv :: stack st) st).
      assert (Hc2 : cur_item top st2 = lookup (utf8_encode name) kv) by (destruct st; reflexivity).
      assert (Hl2 : leftOp st2 = GNil) by (destruct st; cbn in *; assumption).
      specialize (IH ltac:(congruence) st2 Hl2). rewrite Hc2 in IH.
      destruct (denote_from (lookup (utf8_encode name) kv) (n2 :: rest)) as [v|]; [|exact IH].
      destruct IH as (st' & E & Hv & K). exists st'. split; [exact E|]. split; [exact Hv|].
      destruct st; cbn in *. exact K.
Qed.

(* after resetPath the walk starts at the input object with an empty left operand,
   whatever the previous comparison left behind *)
Lemma visit_path_after_reset top p st :
  p <> [] ->
  match denote top p with
  | Panic => visit_attr_path top p (reset_path st) = Panic
  | Ok v => exists st', visit_attr_path top p (reset_path st) = Ok st' /\ leftOp st' = v /\ keeps st st'
  end.
Proof.
  intros Hp. pose proof (visit_attr_path_spec top p Hp (reset_path st)) as H.
  assert (Hci : cur_item top (reset_path st) = GMap top) by (destruct st; reflexivity).
  rewrite Hci in H.
  specialize (H ltac:(destruct st; reflexivity)). unfold denote.
  destruct (denote_from (GMap top) p); [|exact H].
  destruct H as (st' & E & Hv & K). exists st'. repeat split; try assumption; destruct K as (K1 & K2 & K3 & K4);
    destruct st; cbn in *; assumption.
Qed.

(* ---------- literals ---------- *)
Definition with_lit (st : vstate) (t : optype) (r : operand) (e : option verr) : vstate :=
  mkV (stack st) (leftOp st) r (Some t)
      (match e with Some x => Some x | None => verror st end) (dbg st).

Lemma sublist_ints_spec l : forall acc st t,
  rightOp st = RInts acc -> curOp st = Some t ->
  visit_sublist_ints l st = Ok (with_lit st t (fst (ints_denote l acc)) (snd (ints_denote l acc))).
Proof.
  induction l as [|x r IH]; intros acc st t Hr Hc.
  - cbn. f_equal. destruct st; cbn in *; subst; reflexivity.
  - cbn [visit_sublist_ints ints_denote]. rewrite Hr. cbn. rewrite Hr.
    destruct (parse_int x) as [z|].
    + rewrite (IH (acc ++ [z]) _ t); [|destruct st; reflexivity|destruct st; cbn in *; assumption];
        try (f_equal; destruct st; cbn in *; reflexivity).
    + cbn. f_equal. destruct st; cbn in *; subst; reflexivity.
Qed.

Lemma sublist_doubles_spec l : forall acc st t,
  rightOp st = RFloats acc -> curOp st = Some t ->
  visit_sublist_doubles l st = Ok (with_lit st t (fst (doubles_denote l acc)) (snd (doubles_denote l acc))).
Proof.
  induction l as [|x r IH]; intros acc st t Hr Hc.
  - cbn. f_equal. destruct st; cbn in *; subst; reflexivity.
  - cbn [visit_sublist_doubles doubles_denote]. rewrite Hr. cbn. rewrite Hr.
    destruct (parse_float x) as [|f].
    + cbn. f_equal. destruct st; cbn in *; subst; reflexivity.
    + rewrite (IH (acc ++ [f]) _ t); [|destruct st; reflexivity|destruct st; cbn in *; assumption];
        try (f_equal; destruct st; cbn in *; reflexivity).
Qed.

Lemma sublist_strings_spec l : forall acc st t,
  rightOp st = RStrs acc -> curOp st = Some t ->
  visit_sublist_strings l st = Ok (with_lit st t (RStrs (acc ++ map get_string l)) None).
Proof.
  induction l as [|x r IH]; intros acc st t Hr Hc.
  - cbn. rewrite app_nil_r. f_equal. destruct st; cbn in *; subst; reflexivity.
  - cbn [visit_sublist_strings map]. rewrite Hr. cbn. rewrite Hr.
    rewrite (IH (acc ++ [get_string x]) _ t); [|destruct st; reflexivity|destruct st; cbn in *; assumption].
    rewrite <- app_assoc. try (f_equal; destruct st; cbn in *; reflexivity).
Qed.

Lemma visit_value_spec v st :
  rightOp st = RNil ->
  visit_value v st = Ok (let '(t, r, e) := lit_denote v in with_lit st t r e).
Proof.
  intros Hr. destruct v; cbn [visit_value lit_denote].
  - destruct (text_eqb t t_true); [f_equal; destruct st; reflexivity|].
    destruct (text_eqb t t_false); f_equal; destruct st; reflexivity.
  - f_equal; destruct st; reflexivity.
  - f_equal; destruct st; reflexivity.
  - f_equal; destruct st; reflexivity.
  - destruct (parse_float t); f_equal; destruct st; reflexivity.
  - destruct (parse_int (long_text neg i e)); f_equal; destruct st; reflexivity.
  - destruct l as [|x r].
    + cbn. f_equal. destruct st; cbn in *; subst; reflexivity.
    + cbn [visit_sublist_ints]. assert (rightOp (set_op OpInt st) = RNil) as -> by (destruct st; assumption).
      change (rightOp (set_right (RInts []) (set_op OpInt st))) with (RInts []).
      change (match RInts [] with RInts cur => ?f cur | _ => ?g end) with (f (@nil Z)).
      pose proof (sublist_ints_spec (x :: r) [] (set_right (RInts []) (set_op OpInt st)) OpInt eq_refl eq_refl) as H.
      cbn [visit_sublist_ints] in H.
      change (rightOp (set_right (RInts []) (set_op OpInt st))) with (RInts []) in H. cbn iota in H.
      etransitivity; [exact H|]. destruct (ints_denote (x :: r) []) as [rr ee]. f_equal.
  - destruct l as [|x r].
    + cbn. f_equal. destruct st; cbn in *; subst; reflexivity.
    + pose proof (sublist_doubles_spec (x :: r) [] (set_right (RFloats []) (set_op OpFloat st)) OpFloat eq_refl eq_refl) as H.
      cbn [visit_sublist_doubles] in H |- *.
      assert (rightOp (set_op OpFloat st) = RNil) as -> by (destruct st; assumption).
      change (rightOp (set_right (RFloats []) (set_op OpFloat st))) with (RFloats []) in H |- *. cbn iota in H |- *.
      etransitivity; [exact H|]. destruct (doubles_denote (x :: r) []) as [rr ee]. f_equal.
  - destruct l as [|x r].
    + cbn. f_equal. destruct st; cbn in *; subst; reflexivity.
    + pose proof (sublist_strings_spec (x :: r) [] (set_right (RStrs []) (set_op OpString st)) OpString eq_refl eq_refl) as H.
      cbn [visit_sublist_strings] in H |- *.
      assert (rightOp (set_op OpString st) = RNil) as -> by (destruct st; assumption).
      change (rightOp (set_right (RStrs []) (set_op OpString st))) with (RStrs []) in H |- *. cbn iota in H |- *.
      etransitivity; [exact H|]. f_equal.
Qed.

(* ---------- what "the visitor produced r" means ---------- *)
Definition refines (r : sres) (x : res (bool * vstate)) : Prop :=
  match r with
  | SPanic => x = Panic
  | SFail e d => exists b st', x = Ok (b, st') /\ verror st' = Some e /\ dbg st' = d
  | SVal b d => exists st', x = Ok (b, st') /\ verror st' = None /\ dbg st' = d /\ rightOp st' = RNil
  end.

Section WithLower.
Variable lower : bytes -> bytes.

(* a well-formed tree has no empty path *)
Fixpoint wf_query (q : query) : Prop :=
  match q with
  | QParen _ q1 => wf_query q1
  | QLogic _ l r => wf_query l /\ wf_query r
  | QPresent p => p <> []
  | QCompare p _ _ => p <> []
  end.

Lemma visit_present_refines top p st :
  p <> [] -> verror st = None -> rightOp st = RNil ->
  refines (of_lres (dbg st) (present_sem top p)) (visit_present top p st).
Proof.
  intros Hp He Hr. unfold visit_present, present_sem.
  pose proof (visit_path_after_reset top p st Hp) as H.
  destruct (denote top p) as [v|].
  - destruct H as (st' & -> & Hv & K1 & K2 & K3 & K4). cbn.
    exists st'. rewrite Hv. repeat split; congruence.
  - rewrite H. reflexivity.
Qed.

Lemma visit_compare_refines top p op v st :
  p <> [] -> verror st = None -> rightOp st = RNil ->
  refines (of_lres (dbg st) (compare_sem lower top p op v)) (visit_compare lower top p op v st).
Proof.
  intros Hp He Hr. unfold visit_compare, compare_sem.
  pose proof (visit_path_after_reset top p st Hp) as H.
  destruct (denote top p) as [lv|]; [|rewrite H; reflexivity].
  destruct H as (st1 & -> & Hv & K1 & K2 & K3 & K4). cbn [rbind].
  rewrite (visit_value_spec v st1) by congruence. cbn [rbind].
  destruct (lit_denote v) as [[t r] e].
  destruct e as [err|].
  - (* the literal itself fails *)
    cbn. eexists _, _. split; [reflexivity|]. cbn. split; [reflexivity|]. rewrite K4. reflexivity.
  - assert (Hh : has_err (with_lit st1 t r None) = false) by (unfold has_err, with_lit; cbn; rewrite K3, He; reflexivity).
    rewrite Hh. cbn [curOp with_lit leftOp rightOp]. rewrite Hv.
    destruct (op_apply lower t op lv r) as [[b oe]|]; [|reflexivity]. cbn [rbind].
    destruct oe as [oe|].
    + destruct oe; cbn.
      * eexists _, _. split; [reflexivity|]. cbn. split; reflexivity.
      * eexists. split; [reflexivity|]. cbn. rewrite K3, He. repeat split.
      * eexists. split; [reflexivity|]. cbn. rewrite K3, He. repeat split.
      * eexists. split; [reflexivity|]. cbn. rewrite K3, He. repeat split.
    + cbn. eexists. split; [reflexivity|]. cbn. rewrite K3, He, K4. repeat split.
Qed.

(* THE refinement theorem *)
Theorem visitor_refines_sem top q :
  wf_query q ->
  forall st, verror st = None -> rightOp st = RNil ->
  refines (sem lower top q (dbg st)) (visit_query lower top q st).
Proof.
  induction q as [neg q1 IH|isor l IHl r IHr|p|p op v]; intros Hwf st He Hr; cbn [sem visit_query].
  - specialize (IH Hwf st He Hr). destruct (sem lower top q1 (dbg st)) as [|e d|b d]; cbn in IH |- *.
    + rewrite IH. reflexivity.
    + destruct IH as (b & st' & -> & H1 & H2). cbn. eexists _, _. split; [reflexivity|]. split; assumption.
    + destruct IH as (st' & -> & H1 & H2 & H3). cbn. eexists. split; [reflexivity|]. repeat split; assumption.
  - destruct Hwf as [Hwl Hwr]. specialize (IHl Hwl st He Hr).
    destruct (sem lower top l (dbg st)) as [|e d|b d]; cbn in IHl |- *.
    + rewrite IHl. reflexivity.
    + destruct IHl as (b & st' & -> & H1 & H2). cbn. unfold has_err. rewrite H1.
      eexists _, _. split; [reflexivity|]. split; assumption.
    + destruct IHl as (st' & -> & H1 & H2 & H3). cbn. unfold has_err. rewrite H1.
      specialize (IHr Hwr st' H1 H3). rewrite H2 in IHr.
      destruct isor, b; try exact IHr; cbn; eexists; (split; [reflexivity|]); repeat split; assumption.
  - apply visit_present_refines; assumption.
  - apply visit_compare_refines; assumption.
Qed.

Definition outcome_of (r : sres) : outcome :=
  match r with
  | SPanic => mkOut false ErrOther None
  | SFail VErrInvalidOp d => mkOut false ErrInvalidOp d
  | SFail VErrOther d => mkOut false ErrOther d
  | SVal b d => mkOut b ErrNone d
  end.

(* Process on a parsed rule is the compositional semantics *)
Theorem process_tree_is_sem q top :
  wf_query q -> process_tree lower q top = outcome_of (sem lower top q None).
Proof.
  intros Hwf. unfold process_tree.
  pose proof (visitor_refines_sem top q Hwf init_vstate eq_refl eq_refl) as H.
  change (dbg init_vstate) with (@None dbgerr) in H.
  destruct (sem lower top q None) as [|e d|b d]; cbn in H.
  - rewrite H. reflexivity.
  - destruct H as (b & st' & -> & H1 & H2). rewrite H1, H2. destruct e; reflexivity.
  - destruct H as (st' & -> & H1 & H2 & H3). rewrite H1, H2. reflexivity.
Qed.

End WithLower.
