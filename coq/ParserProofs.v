(* ParserProofs.v — the parser reads back every printed layout tree as its AST:
   parse_tokens (print_chain c) = Some (erase_chain c), for all shapes, all
   depths, all choices of the optional blanks.  Consequences: chains associate
   to the left at equal precedence (C01), layout does not matter (C15). *)
From Rules Require Import Layout.
Open Scope N_scope.

Definition pfollow (rest : list tok) : Prop :=
  match rest with
  | [] => True
  | (K_RP, _) :: _ => True
  | (K_SP, _) :: _ => True
  | _ => False
  end.

(* what may follow a whole chain: end of input, ')' or SP ')' *)
Definition cfollow (rest : list tok) : Prop :=
  match rest with
  | [] => True
  | (K_RP, _) :: _ => True
  | (K_SP, _) :: (K_RP, _) :: _ => True
  | _ => False
  end.

Lemma cfollow_pfollow rest : cfollow rest -> pfollow rest.
Proof. destruct rest as [|[[] ?] [|[[] ?] ?]]; cbn; tauto. Qed.

Lemma parse_path_print p : p <> [] -> forall rest,
  (match rest with (K_DOT, _) :: _ => False | _ => True end) ->
  parse_path (print_path p ++ rest) = Some (p, rest).
Proof.
  induction p as [|n r IH]; [congruence|]. intros _ rest Hr.
  destruct r as [|n2 r].
  - cbn. destruct rest as [|[[] ?] ?]; try reflexivity. contradiction.
  - change (print_path (n :: n2 :: r)) with ((K_ATTRNAME, n) :: tDOT :: print_path (n2 :: r)).
    cbn [app parse_path tDOT]. rewrite IH; [reflexivity|discriminate|exact Hr].
Qed.

Lemma parse_sublist_print k l : l <> [] -> forall rest,
  parse_sublist k (print_sublist k l ++ rest) = Some (l, rest).
Proof.
  induction l as [|x r IH]; [congruence|]. intros _ rest.
  destruct r as [|y r].
  - cbn. unfold tkind_eqb. destruct (tkind_eq_dec k k); [reflexivity|congruence].
  - change (print_sublist k (x :: y :: r)) with ((k, x) :: tCOMMA :: print_sublist k (y :: r)).
    cbn [app parse_sublist tCOMMA]. unfold tkind_eqb at 1. destruct (tkind_eq_dec k k); [|congruence].
    rewrite IH by discriminate. reflexivity.
Qed.

Lemma print_sublist_head k l : l <> [] -> exists x r, print_sublist k l = (k, x) :: r.
Proof. destruct l as [|x [|y r]]; [congruence| |]; intros _; eexists _, _; reflexivity. Qed.

Lemma parse_value_print v rest : wf_value v -> pfollow rest ->
  parse_value (print_value v ++ rest) = Some (v, rest).
Proof.
  intros Hw Hf. destruct v; cbn [print_value]; try reflexivity.
  - (* long *)
    destruct neg, e; cbn; try reflexivity; destruct rest as [|[[] ?] ?]; cbn in Hf |- *; try reflexivity; contradiction.
  - destruct (print_sublist_head K_INT l Hw) as (x & r & E).
    cbn [app parse_value tLB]. pose proof (parse_sublist_print K_INT l Hw rest) as H. rewrite E in H |- *.
    cbn [app] in H |- *. rewrite H. reflexivity.
  - destruct (print_sublist_head K_DOUBLE l Hw) as (x & r & E).
    cbn [app parse_value tLB]. pose proof (parse_sublist_print K_DOUBLE l Hw rest) as H. rewrite E in H |- *.
    cbn [app] in H |- *. rewrite H. reflexivity.
  - destruct (print_sublist_head K_STRING l Hw) as (x & r & E).
    cbn [app parse_value tLB]. pose proof (parse_sublist_print K_STRING l Hw rest) as H. rewrite E in H |- *.
    cbn [app] in H |- *. rewrite H. reflexivity.
Qed.

Lemma cmpop_of_kind op : cmpop_of (op_kind op) = Some op.
Proof. destruct op; reflexivity. Qed.

Lemma op_kind_not_pr op : op_kind op <> K_PR.
Proof. destruct op; discriminate. Qed.

Lemma parse_leaf_print q rest : wf_leaf q -> pfollow rest ->
  parse_leaf (print_leaf q ++ rest) = Some (q, rest).
Proof.
  intros Hw Hf. destruct q as [| |p|p op v]; try contradiction.
  - cbn [print_leaf]. rewrite <- app_assoc. unfold parse_leaf.
    rewrite parse_path_print by (try exact Hw; exact I). reflexivity.
  - destruct Hw as [Hp Hv]. cbn [print_leaf]. rewrite <- !app_assoc. unfold parse_leaf.
    rewrite parse_path_print by (try exact Hp; exact I).
    cbn [app tSP]. rewrite cmpop_of_kind, parse_value_print by assumption.
    destruct op; reflexivity.
Qed.

Lemma print_leaf_head q : wf_leaf q -> exists n r, print_leaf q = (K_ATTRNAME, n) :: r.
Proof.
  destruct q as [| |p|p op v]; try contradiction.
  - intros Hp. destruct p as [|n [|n2 r]]; [congruence| |]; eexists _, _; reflexivity.
  - intros [Hp _]. destruct p as [|n [|n2 r]]; [congruence| |]; eexists _, _; reflexivity.
Qed.

(* ---------- the recursive structure ---------- *)
Definition rec_ok (rec : list tok -> option (query * list tok)) (d : nat) : Prop :=
  forall c rest, wf_chain c -> (depth_chain c < d)%nat -> cfollow rest ->
    rec (print_chain c ++ rest) = Some (erase_chain c, rest) /\
    rec (skip_sp (print_chain c ++ rest)) = Some (erase_chain c, rest).

Fixpoint print_rest (l : list (bool * lprim)) : list tok :=
  match l with
  | [] => []
  | (isor, p) :: l' => tSP :: (K_LOGICAL_OPERATOR, if isor then t_or else t_and) :: tSP :: print_prim p ++ print_rest l'
  end.
Fixpoint erase_rest (acc : query) (l : list (bool * lprim)) : query :=
  match l with
  | [] => acc
  | (isor, p) :: l' => erase_rest (QLogic isor acc (erase_prim p)) l'
  end.
Fixpoint depth_rest (l : list (bool * lprim)) : nat :=
  match l with [] => O | (_, p) :: l' => Nat.max (depth_prim p) (depth_rest l') end.
Fixpoint wf_rest (l : list (bool * lprim)) : Prop :=
  match l with [] => True | (_, p) :: l' => wf_prim p /\ wf_rest l' end.

Lemma print_chain_eq f rest : print_chain (LChain f rest) = print_prim f ++ print_rest rest.
Proof. reflexivity. Qed.
Lemma erase_chain_eq f rest : erase_chain (LChain f rest) = erase_rest (erase_prim f) rest.
Proof. reflexivity. Qed.
Lemma depth_chain_eq f rest : depth_chain (LChain f rest) = Nat.max (depth_prim f) (depth_rest rest).
Proof. reflexivity. Qed.
Lemma wf_chain_eq f rest : wf_chain (LChain f rest) <-> wf_prim f /\ wf_rest rest.
Proof. reflexivity. Qed.

Lemma is_or_spec (isor : bool) : is_or (if isor then t_or else t_and) = isor.
Proof. destruct isor; reflexivity. Qed.

(* what may follow a primary inside a chain *)
Definition primfollow (rest : list tok) : Prop := pfollow rest.

Lemma prim_ok rec d p rest :
  rec_ok rec d -> wf_prim p -> (depth_prim p <= d)%nat -> pfollow rest ->
  prim rec (print_prim p ++ rest) = Some (erase_prim p, rest) /\
  (match p with LLeaf _ => True | LParen neg _ _ _ _ => neg = false end ->
   prim rec (skip_sp (print_prim p ++ rest)) = Some (erase_prim p, rest)).
Proof.
  intros Hrec Hw Hd Hf. destruct p as [q|neg sp0 sp1 sp2 inner].
  - cbn [print_prim erase_prim]. destruct (print_leaf_head q Hw) as (n & r & E).
    assert (H : prim rec (print_leaf q ++ rest) = Some (q, rest)).
    { unfold prim. rewrite E. cbn [app]. change ((K_ATTRNAME, n) :: r ++ rest) with (((K_ATTRNAME, n) :: r) ++ rest).
      rewrite <- E. apply parse_leaf_print; assumption. }
    split; [exact H|]. intros _. rewrite E in H |- *. cbn [app skip_sp] in H |- *. exact H.
  - cbn [print_prim erase_prim depth_prim] in *.
    assert (Hd' : (depth_chain inner < d)%nat) by lia.
    assert (Hcf : cfollow (osp sp2 ++ [tRP] ++ rest)) by (destruct sp2; cbn; exact I).
    destruct (Hrec inner (osp sp2 ++ [tRP] ++ rest) Hw Hd' Hcf) as [R1 R2].
    assert (Hclose : skip_sp (osp sp2 ++ [tRP] ++ rest) = tRP :: rest) by (destruct sp2; reflexivity).
    assert (Hinner : forall pre, (pre = [] \/ pre = [tSP]) ->
               rec (skip_sp (pre ++ print_chain inner ++ osp sp2 ++ [tRP] ++ rest)) = Some (erase_chain inner, osp sp2 ++ [tRP] ++ rest)).
    { intros pre [-> | ->]; cbn [app]; [exact R2|]. cbn [skip_sp tSP]. exact R1. }
    assert (Hbody : forall r0, r0 = osp sp1 ++ print_chain inner ++ osp sp2 ++ [tRP] ++ rest ->
               match rec (skip_sp r0) with
               | Some (q, rest0) => match skip_sp rest0 with (K_RP, _) :: rest' => Some (QParen neg q, rest') | _ => None end
               | None => None
               end = Some (QParen neg (erase_chain inner), rest)).
    { intros r0 ->. rewrite (Hinner (osp sp1)) by (destruct sp1; auto). rewrite Hclose. reflexivity. }
    split.
    + rewrite <- !app_assoc. destruct neg, sp0; cbn [app osp tNOT tSP tLP prim skip_sp]; apply Hbody; reflexivity.
    + intros ->. rewrite <- !app_assoc. destruct sp0; cbn [app osp tSP tLP prim skip_sp]; apply Hbody; reflexivity.
Qed.

Lemma print_prim_nonempty p : wf_prim p -> exists t r, print_prim p = t :: r /\ (fst t = K_ATTRNAME \/ fst t = K_NOT \/ fst t = K_SP \/ fst t = K_LP).
Proof.
  destruct p as [q|neg sp0 sp1 sp2 inner]; intros Hw.
  - destruct (print_leaf_head q Hw) as (n & r & E). exists (K_ATTRNAME, n), r. split; [exact E|auto].
  - destruct neg, sp0; cbn; eexists _, _; split; try reflexivity; cbn; auto.
Qed.

Lemma loop_ok rec d l : forall n acc rest,
  rec_ok rec d -> wf_rest l -> (depth_rest l <= d)%nat -> cfollow rest ->
  (length (print_rest l ++ rest) <= n)%nat ->
  loop rec n acc (print_rest l ++ rest) = Some (erase_rest acc l, rest).
Proof.
  induction l as [|[isor p] l IH]; intros n acc rest Hrec Hw Hd Hf Hn.
  - cbn [print_rest app erase_rest]. destruct rest as [|[[] ?] [|[[] ?] ?]]; cbn in Hf |- *; try contradiction; try reflexivity;
      destruct n; reflexivity.
  - destruct Hw as [Hwp Hwl]. cbn [depth_rest] in Hd.
    cbn [print_rest app erase_rest]. rewrite <- app_assoc.
    cbn [print_rest app length] in Hn.
    destruct n as [|n]; [lia|].
    assert (Hpf : pfollow (print_rest l ++ rest)).
    { destruct l as [|[o2 p2] l2]; [cbn; apply cfollow_pfollow; exact Hf|cbn; exact I]. }
    destruct (prim_ok rec d p (print_rest l ++ rest) Hrec Hwp ltac:(lia) Hpf) as [Hp _].
    cbn [loop tSP]. rewrite Hp. rewrite is_or_spec.
    apply IH; try assumption; try lia.
    rewrite <- app_assoc, app_length in Hn. lia.
Qed.

Lemma rec_ok_fuel f : rec_ok (parse_query f) f.
Proof.
  induction f as [|f IH]; intros c rest Hw Hd Hf; [lia|].
  destruct c as [p l]. rewrite print_chain_eq, erase_chain_eq, <- app_assoc.
  apply wf_chain_eq in Hw. destruct Hw as [Hwp Hwl]. rewrite depth_chain_eq in Hd.
  assert (Hpf : pfollow (print_rest l ++ rest)).
  { destruct l as [|[o2 p2] l2]; [cbn; apply cfollow_pfollow; exact Hf|cbn; exact I]. }
  destruct (prim_ok (parse_query f) f p (print_rest l ++ rest) IH Hwp ltac:(lia) Hpf) as [Hp Hps].
  assert (Hloop : loop (parse_query f) (length (print_rest l ++ rest)) (erase_prim p) (print_rest l ++ rest)
                  = Some (erase_rest (erase_prim p) l, rest)).
  { apply (loop_ok (parse_query f) f); try assumption; lia. }
  split.
  - cbn [parse_query]. rewrite Hp. exact Hloop.
  - (* a leading SP can only be the optional SP of an un-negated parenExp *)
    cbn [parse_query].
    destruct p as [q|neg sp0 sp1 sp2 inner].
    + destruct (print_leaf_head q Hwp) as (n' & r' & E').
      assert (Hs : skip_sp (print_prim (LLeaf q) ++ print_rest l ++ rest) = print_prim (LLeaf q) ++ print_rest l ++ rest)
        by (cbn [print_prim]; rewrite E'; reflexivity).
      rewrite Hs, Hp. exact Hloop.
    + destruct neg.
      * assert (Hs : skip_sp (print_prim (LParen true sp0 sp1 sp2 inner) ++ print_rest l ++ rest)
                     = print_prim (LParen true sp0 sp1 sp2 inner) ++ print_rest l ++ rest) by reflexivity.
        rewrite Hs, Hp. exact Hloop.
      * rewrite (Hps eq_refl). exact Hloop.
Qed.

(* a printed tree is at least as long as it is deep: the fuel of parse_tokens suffices *)
Lemma depth_le_len : forall c, wf_chain c -> (depth_chain c < S (length (print_chain c)))%nat
with depth_le_len_prim : forall p, wf_prim p -> (depth_prim p < S (length (print_prim p)))%nat.
Proof.
  - intros [f l] Hw. apply wf_chain_eq in Hw. destruct Hw as [Hf Hl].
    rewrite depth_chain_eq, print_chain_eq, app_length.
    pose proof (depth_le_len_prim f Hf) as H1.
    assert (H2 : (depth_rest l <= length (print_rest l))%nat).
    { clear -Hl depth_le_len_prim. induction l as [|[o p] l IH]; [cbn; lia|]. destruct Hl as [Hp Hl'].
      cbn [depth_rest print_rest length]. rewrite app_length. pose proof (depth_le_len_prim p Hp). specialize (IH Hl'). lia. }
    lia.
  - intros [q|neg sp0 sp1 sp2 inner] Hw.
    + cbn. lia.
    + cbn [depth_prim print_prim wf_prim] in *. pose proof (depth_le_len inner Hw) as H.
      rewrite !app_length. cbn [length]. lia.
Qed.

(* THE round-trip theorem *)
Theorem parse_core_print c : wf_chain c -> parse_core (print_chain c) = Some (erase_chain c).
Proof.
  intros Hw. unfold parse_core.
  pose proof (rec_ok_fuel (S (length (print_chain c))) c [] Hw (depth_le_len c Hw) I) as [H _].
  rewrite app_nil_r in H. rewrite H. reflexivity.
Qed.

(* printed trees are already normalised *)
Lemma norm_path p : map norm (print_path p) = print_path p.
Proof. induction p as [|n [|n2 r] IH]; [reflexivity|reflexivity|]. change (print_path (n :: n2 :: r)) with ((K_ATTRNAME, n) :: tDOT :: print_path (n2 :: r)). cbn [map]. rewrite IH. reflexivity. Qed.

Lemma norm_sublist k l :
  (k = K_INT \/ k = K_DOUBLE \/ k = K_STRING) -> map norm (print_sublist k l) = print_sublist k l.
Proof.
  intros Hk. induction l as [|x [|y r] IH]; [reflexivity| |].
  - destruct Hk as [-> | [-> | ->]]; reflexivity.
  - change (print_sublist k (x :: y :: r)) with ((k, x) :: tCOMMA :: print_sublist k (y :: r)). cbn [map]. rewrite IH.
    destruct Hk as [-> | [-> | ->]]; reflexivity.
Qed.

Lemma norm_leaf q : map norm (print_leaf q) = print_leaf q.
Proof.
  destruct q as [| |p|p op v]; try reflexivity; cbn [print_leaf]; rewrite !map_app, norm_path.
  - reflexivity.
  - f_equal. cbn [map app]. assert (Ho : norm (op_kind op, []) = (op_kind op, [])) by (destruct op; reflexivity). rewrite Ho.
    assert (Ht : norm tSP = tSP) by reflexivity. rewrite Ht. do 3 f_equal.
    destruct v; cbn [print_value map]; try reflexivity.
    + destruct neg, e; reflexivity.
    + rewrite norm_sublist by auto. reflexivity.
    + rewrite norm_sublist by auto. reflexivity.
    + rewrite norm_sublist by auto. reflexivity.
Qed.

Lemma norm_print : forall c, map norm (print_chain c) = print_chain c
with norm_print_prim : forall p, map norm (print_prim p) = print_prim p.
Proof.
  - intros [f l]. rewrite print_chain_eq, map_app, norm_print_prim. f_equal.
    induction l as [|[o p] l IH]; [reflexivity|]. cbn [print_rest map]. rewrite map_app, norm_print_prim, IH.
    destruct o; reflexivity.
  - intros [q|neg sp0 sp1 sp2 inner].
    + apply norm_leaf.
    + cbn [print_prim]. rewrite !map_app, norm_print. destruct neg, sp0, sp1, sp2; reflexivity.
Qed.

Theorem parse_print c : wf_chain c -> parse_tokens (print_chain c) = Some (erase_chain c).
Proof. intros Hw. unfold parse_tokens. rewrite norm_print. apply parse_core_print. exact Hw. Qed.

(* C15 (spelling, token level): the parser only sees the normalised tokens, so the text
   of operators, not/NOT, blanks with newlines, commas with blanks cannot matter *)
Lemma norm_idem t : norm (norm t) = norm t.
Proof. destruct t as [[] tx]; cbn; try reflexivity. unfold is_or. destruct (list_eqb N.eqb tx t_or); reflexivity. Qed.

Theorem spelling_irrelevant ts1 ts2 : map norm ts1 = map norm ts2 -> parse_tokens ts1 = parse_tokens ts2.
Proof. unfold parse_tokens. intros ->. reflexivity. Qed.

(* C15 (token level): the same AST under every choice of optional blanks and redundant parentheses *)
Corollary layout_irrelevant c1 c2 :
  wf_chain c1 -> wf_chain c2 -> erase_chain c1 = erase_chain c2 ->
  parse_tokens (print_chain c1) = parse_tokens (print_chain c2).
Proof. intros H1 H2 E. rewrite !parse_print, E by assumption. reflexivity. Qed.

(* C01: a chain without parentheses associates to the left, `and` and `or` at the same precedence *)
Corollary chain_left_assoc f l :
  wf_chain (LChain f l) ->
  parse_tokens (print_chain (LChain f l)) =
  Some (fold_left (fun acc op => QLogic (fst op) acc (erase_prim (snd op))) l (erase_prim f)).
Proof.
  intros Hw. rewrite parse_print by exact Hw. rewrite erase_chain_eq.
  assert (H : forall acc, erase_rest acc l = fold_left (fun acc op => QLogic (fst op) acc (erase_prim (snd op))) l acc).
  { induction l as [|[o p] l IH]; intros acc; [reflexivity|]. cbn [erase_rest fold_left fst snd]. apply IH.
    apply wf_chain_eq in Hw. apply wf_chain_eq. cbn in Hw |- *. tauto. }
  rewrite H. reflexivity.
Qed.
