(* Grammar.v — context-free derivations over the production DATA generated from
   JsonQuery.g4 (GrammarGen.g4_parser_rules): a terminal matches a token of its
   kind (any text), `?` is optional, a token set matches any of its kinds. *)
From Rules Require Export Tokens.
From Coq Require Import String.

Section CFG.
Variable rules : list (ntname * list (string * list sym)).

Inductive dsym : sym -> list tok -> Prop :=
| DT k t : dsym (T k) [(k, t)]
| DNT n alts lab body ts : In (n, alts) rules -> In (lab, body) alts -> dseq body ts -> dsym (NT n) ts
| DOptN s : dsym (Opt s) []
| DOptS s ts : dsym s ts -> dsym (Opt s) ts
| DSet ks k t : In k ks -> dsym (TSet ks) [(k, t)]
with dseq : list sym -> list tok -> Prop :=
| DNil : dseq [] []
| DCons s ss a b : dsym s a -> dseq ss b -> dseq (s :: ss) (a ++ b).

Scheme dsym_mut := Induction for dsym Sort Prop
  with dseq_mut := Induction for dseq Sort Prop.

(* a sentence: the whole token list derives from the start rule *)
Definition sentence (start : ntname) (ts : list tok) : Prop := dsym (NT start) ts.
End CFG.
