(* SourceC12.v — facts about the hand-written Go source of this run (SourceFacts.v is regenerated
   by tools/gofacts on every check), C12: the model has no component shared between evaluators;
   the checked part of that modelling assumption is that the hand-written code starts no
   goroutine, never assigns to (or through) a package-level variable, never takes the address
   of one, and mentions package-level variables only in ways that cannot change them:
   error sentinels anywhere; basic values anywhere (they are copied); arrays, structs, maps,
   slices and everything of unknown shape only in reads (index, field, range, len, or their
   address handed to a function of these files whose parameter is only read); function values
   only in calls. *)
From Coq Require Import List String Bool.
Import ListNotations.
From Rules Require SourceFacts.
Open Scope string_scope.

Definition mem (x : string) (l : list string) : bool := existsb (String.eqb x) l.

Definition kind_of (n : string) : string :=
  match find (fun v => String.eqb (fst (fst v)) n) SourceFacts.pkg_vars with
  | Some v => snd v
  | None => "unknown"
  end.

Definition use_ok (kind ctx : string) : bool :=
  if String.eqb kind "sentinel" then true
  else if String.eqb ctx "addr-readonly" then true   (* the address goes to a parameter that is only read *)
  else if String.eqb kind "basic" then mem ctx ["index-read"; "field-read"; "range"; "len"; "other"]
  else if String.eqb kind "func" then mem ctx ["call"; "other"]
  else mem ctx ["index-read"; "field-read"; "range"; "len"].

Theorem c12_no_shared_state :
  forallb (fun u => use_ok (kind_of (snd (fst u))) (snd u)) SourceFacts.pkg_uses = true /\
  SourceFacts.pkg_assigns = [] /\ SourceFacts.go_stmts = [].
Proof. repeat split; vm_compute; reflexivity. Qed.
