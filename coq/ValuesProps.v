(* ValuesProps.v — order facts: bytewise string order, exact dyadic order of
   float64 values (against the rationals of QArith), semantic-version precedence. *)
From Rules Require Import Values Semver.
From Coq Require Import QArith Qpower.
Open Scope Z_scope.

(* ---------- generic: a comparison function that is a total order ---------- *)
Definition cmp_antisym {A} (cmp : A -> A -> comparison) := forall a b, cmp b a = CompOpp (cmp a b).
Definition cmp_trans {A} (cmp : A -> A -> comparison) :=
  forall a b c x, cmp a b = x -> cmp b c = x -> cmp a c = x.
Definition cmp_eq_trans {A} (cmp : A -> A -> comparison) :=
  (forall a b c, cmp a b = Eq -> cmp b c = cmp a c) /\ (forall a b c, cmp b c = Eq -> cmp a b = cmp a c).

(* ---------- bytes ---------- *)
Lemma bytes_compare_refl a : bytes_compare a a = Eq.
Proof. induction a as [|x a IH]; cbn; [reflexivity|]. rewrite N.compare_refl. exact IH. Qed.

Lemma bytes_compare_eq a : forall b, bytes_compare a b = Eq <-> a = b.
Proof.
  induction a as [|x a IH]; intros [|y b]; cbn; try (split; [discriminate|discriminate]); [tauto|].
  destruct (N.compare_spec x y) as [->|H|H].
  - rewrite IH. split; congruence.
  - split; [discriminate|]. intros [= -> _]. lia.
  - split; [discriminate|]. intros [= -> _]. lia.
Qed.

Lemma bytes_compare_antisym : cmp_antisym bytes_compare.
Proof.
  intros a. induction a as [|x a IH]; intros [|y b]; cbn; try reflexivity.
  rewrite (N.compare_antisym x y). destruct (N.compare x y); cbn; auto.
Qed.

Lemma N_compare_lt x z : (x < z)%N -> N.compare x z = Lt.
Proof. intros H. apply N.compare_lt_iff. exact H. Qed.
Lemma N_compare_gt x z : (z < x)%N -> N.compare x z = Gt.
Proof. intros H. apply N.compare_gt_iff. exact H. Qed.

Lemma bytes_compare_trans : cmp_trans bytes_compare.
Proof.
  intros a. induction a as [|x a IH]; intros [|y b] [|z c] r; cbn; try congruence.
  destruct (N.compare_spec x y) as [H1|H1|H1]; destruct (N.compare_spec y z) as [H2|H2|H2]; try congruence.
  - assert (H : x = z) by lia. rewrite H, N.compare_refl. apply IH.
  - intros _ <-. rewrite N_compare_lt by lia. reflexivity.
  - intros _ <-. rewrite N_compare_gt by lia. reflexivity.
  - intros <- _. rewrite N_compare_lt by lia. reflexivity.
  - intros <- _. rewrite N_compare_lt by lia. reflexivity.
  - intros <- _. rewrite N_compare_gt by lia. reflexivity.
  - intros <- _. rewrite N_compare_gt by lia. reflexivity.
Qed.

(* ---------- dyadic numbers ---------- *)
Lemma pow2_pos k : 0 <= k -> 0 < 2 ^ k.
Proof. intros. apply Z.pow_pos_nonneg; lia. Qed.

(* the comparison may be carried out at any common exponent below both *)
Lemma dyadic_compare_at m1 e1 m2 e2 E :
  E <= e1 -> E <= e2 -> dyadic_compare m1 e1 m2 e2 = Z.compare (m1 * 2 ^ (e1 - E)) (m2 * 2 ^ (e2 - E)).
Proof.
  intros H1 H2. unfold dyadic_compare. set (e := Z.min e1 e2).
  assert (He : E <= e) by (unfold e; lia).
  replace (e1 - E) with ((e1 - e) + (e - E)) by lia.
  replace (e2 - E) with ((e2 - e) + (e - E)) by lia.
  rewrite !Z.pow_add_r by (unfold e; lia). rewrite !Z.mul_assoc.
  apply Zmult_compare_compat_r. apply Z.lt_gt, pow2_pos. lia.
Qed.

Lemma dyadic_compare_antisym m1 e1 m2 e2 :
  dyadic_compare m2 e2 m1 e1 = CompOpp (dyadic_compare m1 e1 m2 e2).
Proof. unfold dyadic_compare. rewrite (Z.min_comm e2 e1). apply Z.compare_antisym. Qed.

Lemma dyadic_compare_trans m1 e1 m2 e2 m3 e3 x :
  dyadic_compare m1 e1 m2 e2 = x -> dyadic_compare m2 e2 m3 e3 = x -> dyadic_compare m1 e1 m3 e3 = x.
Proof.
  set (E := Z.min e1 (Z.min e2 e3)).
  rewrite (dyadic_compare_at m1 e1 m2 e2 E), (dyadic_compare_at m2 e2 m3 e3 E), (dyadic_compare_at m1 e1 m3 e3 E) by (unfold E; lia).
  destruct x; rewrite ?Z.compare_eq_iff, ?Z.compare_lt_iff, ?Z.compare_gt_iff; lia.
Qed.

Lemma dyadic_compare_eq_l m1 e1 m2 e2 m3 e3 :
  dyadic_compare m1 e1 m2 e2 = Eq -> dyadic_compare m2 e2 m3 e3 = dyadic_compare m1 e1 m3 e3.
Proof.
  set (E := Z.min e1 (Z.min e2 e3)).
  rewrite (dyadic_compare_at m1 e1 m2 e2 E), (dyadic_compare_at m2 e2 m3 e3 E), (dyadic_compare_at m1 e1 m3 e3 E) by (unfold E; lia).
  rewrite Z.compare_eq_iff. intros ->. reflexivity.
Qed.

(* the order of the rationals m * 2^e *)
Definition Qval (m e : Z) : Q := inject_Z m * Qpower 2 e.

Lemma Qpower2_pos e : (0 < Qpower 2 e)%Q.
Proof. apply Qpower_0_lt. reflexivity. Qed.

Lemma Qval_scale m e E : E <= e -> (Qval m e == inject_Z (m * 2 ^ (e - E)) * Qpower 2 E)%Q.
Proof.
  intros H. unfold Qval. rewrite inject_Z_mult.
  replace e with ((e - E) + E) at 1 by lia.
  rewrite Qpower_plus by discriminate.
  rewrite <- Qmult_assoc. apply Qmult_comp; [reflexivity|].
  apply Qmult_comp; [|reflexivity].
  rewrite Zpower_Qpower by lia. reflexivity.
Qed.

Theorem dyadic_compare_is_Qcompare m1 e1 m2 e2 :
  dyadic_compare m1 e1 m2 e2 = Qcompare (Qval m1 e1) (Qval m2 e2).
Proof.
  set (E := Z.min e1 e2).
  rewrite (dyadic_compare_at m1 e1 m2 e2 E) by (unfold E; lia).
  rewrite (Qcompare_comp _ _ (Qval_scale m1 e1 E ltac:(unfold E; lia)) _ _ (Qval_scale m2 e2 E ltac:(unfold E; lia))).
  set (a := m1 * 2 ^ (e1 - E)). set (b := m2 * 2 ^ (e2 - E)).
  pose proof (Qpower2_pos E) as Hp.
  destruct (Z.compare_spec a b) as [->|H|H]; symmetry.
  - apply Qeq_alt. reflexivity.
  - apply Qlt_alt. apply Qmult_lt_compat_r; [exact Hp|]. rewrite <- Zlt_Qlt. exact H.
  - apply Qgt_alt. apply Qmult_lt_compat_r; [exact Hp|]. rewrite <- Zlt_Qlt. exact H.
Qed.

(* ---------- float64 ---------- *)
Lemma f64_compare_antisym a b : f64_compare b a = option_map CompOpp (f64_compare a b).
Proof.
  destruct a as [|na|m1 e1], b as [|nb|m2 e2]; cbn; try reflexivity.
  - destruct na, nb; reflexivity.
  - destruct na; reflexivity.
  - destruct nb; reflexivity.
  - rewrite dyadic_compare_antisym. reflexivity.
Qed.

Lemma f64_eq_sym a b : f64_compare a b = Some Eq <-> f64_compare b a = Some Eq.
Proof. rewrite (f64_compare_antisym a b). destruct (f64_compare a b) as [[]|]; cbn; split; congruence. Qed.

Lemma f64_compare_trans a b c x :
  f64_compare a b = Some x -> f64_compare b c = Some x -> f64_compare a c = Some x.
Proof.
  destruct a as [|na|m1 e1], b as [|nb|m2 e2], c as [|nc|m3 e3]; cbn; try discriminate;
    try (destruct na; try destruct nb; try destruct nc; congruence);
    try (destruct nb; try destruct nc; congruence); try (destruct nc; congruence).
  intros [= H1] [= H2]. f_equal. eapply dyadic_compare_trans; eassumption.
Qed.

(* ---------- semantic versions ---------- *)
Lemma pr_compare_antisym : cmp_antisym pr_compare.
Proof.
  intros [x|x] [y|y]; cbn; try reflexivity; [apply Z.compare_antisym|apply bytes_compare_antisym].
Qed.

Lemma pr_compare_trans : cmp_trans pr_compare.
Proof.
  intros [x|x] [y|y] [z|z] r; cbn; try congruence.
  - destruct r; rewrite ?Z.compare_eq_iff, ?Z.compare_lt_iff, ?Z.compare_gt_iff; lia.
  - apply bytes_compare_trans.
Qed.

Lemma pre_compare_antisym : cmp_antisym pre_compare.
Proof.
  intros a. induction a as [|x a IH]; intros [|y b]; cbn; try reflexivity.
  rewrite (pr_compare_antisym x y). destruct (pr_compare x y); cbn; auto.
Qed.

Lemma pr_compare_eq x y : pr_compare x y = Eq -> x = y.
Proof.
  destruct x, y; cbn; try discriminate.
  - rewrite Z.compare_eq_iff. congruence.
  - rewrite bytes_compare_eq. congruence.
Qed.

Lemma pre_compare_trans : cmp_trans pre_compare.
Proof.
  intros a. induction a as [|x a IH]; intros [|y b] [|z c] r; cbn; try congruence.
  destruct (pr_compare x y) eqn:E1; destruct (pr_compare y z) eqn:E2; try congruence.
  - apply pr_compare_eq in E1, E2. subst. rewrite (proj2 (proj1 (conj (fun H => H) (fun H => H)) _)) || idtac.
    assert (pr_compare z z = Eq) as -> by (destruct z; cbn; [apply Z.compare_refl|apply bytes_compare_refl]).
    apply IH.
  - apply pr_compare_eq in E1. subst. rewrite E2. congruence.
  - apply pr_compare_eq in E1. subst. rewrite E2. congruence.
  - apply pr_compare_eq in E2. subst. rewrite E1. congruence.
  - rewrite (pr_compare_trans _ _ _ _ E1 E2). congruence.
  - apply pr_compare_eq in E2. subst. rewrite E1. congruence.
  - rewrite (pr_compare_trans _ _ _ _ E1 E2). congruence.
Qed.

Definition prerel_compare (a b : list prversion) : comparison :=
  match a, b with
  | [], [] => Eq
  | [], _ :: _ => Gt
  | _ :: _, [] => Lt
  | _, _ => pre_compare a b
  end.

Lemma prerel_compare_antisym : cmp_antisym prerel_compare.
Proof. intros [|x a] [|y b]; cbn; try reflexivity. apply (pre_compare_antisym (x :: a) (y :: b)). Qed.

Lemma prerel_compare_trans : cmp_trans prerel_compare.
Proof.
  intros [|x a] [|y b] [|z c] r; cbn [prerel_compare]; try congruence.
  apply (pre_compare_trans (x :: a) (y :: b) (z :: c)).
Qed.

Lemma pre_compare_eq a : forall b, pre_compare a b = Eq -> a = b.
Proof.
  induction a as [|x a IH]; intros [|y b]; cbn; try discriminate; [reflexivity|].
  destruct (pr_compare x y) eqn:E; try discriminate. intros H. apply pr_compare_eq in E. f_equal; auto.
Qed.

Definition lexZ {B} (cb : B -> B -> comparison) (p q : Z * B) : comparison :=
  match Z.compare (fst p) (fst q) with Eq => cb (snd p) (snd q) | c => c end.

Lemma lexZ_trans {B} (cb : B -> B -> comparison) : cmp_trans cb -> cmp_trans (lexZ cb).
Proof.
  intros Hb [x r] [y s] [z t] c. unfold lexZ. cbn.
  destruct (Z.compare_spec x y) as [H1|H1|H1]; destruct (Z.compare_spec y z) as [H2|H2|H2]; try congruence.
  - assert (H : x = z) by lia. rewrite H, Z.compare_refl. apply Hb.
  - intros _ <-. rewrite (proj2 (Z.compare_lt_iff x z)) by lia. reflexivity.
  - intros _ <-. rewrite (proj2 (Z.compare_gt_iff x z)) by lia. reflexivity.
  - intros <- _. rewrite (proj2 (Z.compare_lt_iff x z)) by lia. reflexivity.
  - intros <- _. rewrite (proj2 (Z.compare_lt_iff x z)) by lia. reflexivity.
  - intros <- _. rewrite (proj2 (Z.compare_gt_iff x z)) by lia. reflexivity.
  - intros <- _. rewrite (proj2 (Z.compare_gt_iff x z)) by lia. reflexivity.
Qed.

Lemma lexZ_antisym {B} (cb : B -> B -> comparison) : cmp_antisym cb -> cmp_antisym (lexZ cb).
Proof.
  intros Hb [x r] [y s]. unfold lexZ. cbn. rewrite (Z.compare_antisym x y).
  destruct (Z.compare x y); cbn; auto.
Qed.

Definition sv_key (v : version) := (major v, (minor v, (patch v, pre v))).

Lemma sv_compare_key v o : sv_compare v o = lexZ (lexZ (lexZ prerel_compare)) (sv_key v) (sv_key o).
Proof.
  unfold sv_compare, lexZ, sv_key. cbn.
  destruct (major v ?= major o); try reflexivity.
  destruct (minor v ?= minor o); try reflexivity.
  destruct (patch v ?= patch o); try reflexivity.
  unfold prerel_compare. destruct (pre v), (pre o); reflexivity.
Qed.

(* semantic-version precedence is a total preorder *)
Theorem sv_compare_antisym : cmp_antisym sv_compare.
Proof.
  intros a b. rewrite !sv_compare_key. apply lexZ_antisym, lexZ_antisym, lexZ_antisym, prerel_compare_antisym.
Qed.

Theorem sv_compare_trans : cmp_trans sv_compare.
Proof.
  intros a b c x. rewrite !sv_compare_key. apply lexZ_trans, lexZ_trans, lexZ_trans, prerel_compare_trans.
Qed.

Theorem sv_compare_refl v : sv_compare v v = Eq.
Proof.
  pose proof (sv_compare_antisym v v) as H. destruct (sv_compare v v); cbn in H; congruence.
Qed.

(* equal precedence: same numbers and same pre-release identifiers; build metadata is ignored *)
Theorem sv_compare_eq v o :
  sv_compare v o = Eq <-> (major v = major o /\ minor v = minor o /\ patch v = patch o /\ pre v = pre o).
Proof.
  unfold sv_compare. split.
  - destruct (Z.compare_spec (major v) (major o)); try discriminate.
    destruct (Z.compare_spec (minor v) (minor o)); try discriminate.
    destruct (Z.compare_spec (patch v) (patch o)); try discriminate.
    destruct (pre v) eqn:E1, (pre o) eqn:E2; try discriminate; intros Hp; repeat split; auto.
    apply pre_compare_eq in Hp. exact Hp.
  - intros (-> & -> & -> & ->). rewrite !Z.compare_refl.
    destruct (pre o) as [|x r] eqn:E; [reflexivity|].
    pose proof (pre_compare_antisym (x :: r) (x :: r)) as H. destruct (pre_compare (x :: r) (x :: r)); cbn in H; congruence.
Qed.

Theorem sv_build_ignored v b' :
  forall o, sv_compare {| major := major v; minor := minor v; patch := patch v; pre := pre v; build := b' |} o = sv_compare v o
         /\ sv_compare o {| major := major v; minor := minor v; patch := patch v; pre := pre v; build := b' |} = sv_compare o v.
Proof. intros o. split; reflexivity. Qed.

(* a pre-release sorts below its release *)
Theorem sv_prerelease_below M m p x r b1 b2 :
  sv_compare {| major := M; minor := m; patch := p; pre := x :: r; build := b1 |}
             {| major := M; minor := m; patch := p; pre := []; build := b2 |} = Lt.
Proof. unfold sv_compare. cbn. rewrite !Z.compare_refl. reflexivity. Qed.

(* components compare as numbers *)
Theorem sv_numeric v o : major v < major o -> sv_compare v o = Lt.
Proof. intros H. unfold sv_compare. apply Z.compare_lt_iff in H. rewrite H. reflexivity. Qed.
Theorem sv_numeric_minor v o : major v = major o -> minor v < minor o -> sv_compare v o = Lt.
Proof. intros H0 H. unfold sv_compare. rewrite H0, Z.compare_refl. apply Z.compare_lt_iff in H. rewrite H. reflexivity. Qed.
Theorem sv_numeric_patch v o : major v = major o -> minor v = minor o -> patch v < patch o -> sv_compare v o = Lt.
Proof. intros H0 H1 H. unfold sv_compare. rewrite H0, H1, !Z.compare_refl. apply Z.compare_lt_iff in H. rewrite H. reflexivity. Qed.
