(* Base.v — bytes, code points, UTF-8 as Go decodes/encodes it, byte-string
   relations (prefix / suffix / infix, lexicographic order).  Definitions
   only; lemmas live in BaseProofs.v so the model keeps running when a proof
   breaks. *)
From Coq Require Export List NArith ZArith Bool Lia.
Export ListNotations.
Open Scope N_scope.

Definition byte := N.
Definition bytes := list N.
Definition cp := N.             (* Unicode code point *)
Definition text := list N.      (* list of code points *)

(* ---------- small generic helpers ---------- *)

Fixpoint list_eqb {A} (eqb : A -> A -> bool) (a b : list A) : bool :=
  match a, b with
  | [], [] => true
  | x :: a', y :: b' => eqb x y && list_eqb eqb a' b'
  | _, _ => false
  end.

Definition bytes_eqb : bytes -> bytes -> bool := list_eqb N.eqb.

(* Go's string comparison: bytewise lexicographic *)
Fixpoint bytes_compare (a b : bytes) : comparison :=
  match a, b with
  | [], [] => Eq
  | [], _ :: _ => Lt
  | _ :: _, [] => Gt
  | x :: a', y :: b' =>
      match N.compare x y with
      | Eq => bytes_compare a' b'
      | c => c
      end
  end.

Fixpoint is_prefix (p s : bytes) : bool :=
  match p, s with
  | [], _ => true
  | x :: p', y :: s' => N.eqb x y && is_prefix p' s'
  | _ :: _, [] => false
  end.

(* strings.Contains *)
Fixpoint contains (s x : bytes) : bool :=
  is_prefix x s ||
  match s with
  | [] => false
  | _ :: s' => contains s' x
  end.

(* strings.HasSuffix *)
Definition is_suffix (x s : bytes) : bool := is_prefix (rev_append x []) (rev_append s []).

(* ---------- UTF-8 ---------- *)

Definition RuneError : cp := 65533. (* U+FFFD *)

(* utf8.EncodeRune / string(rune): surrogates and out-of-range become U+FFFD *)
Definition utf8_encode1 (c : cp) : bytes :=
  if c <? 128 then [c]
  else if c <? 2048 then [192 + c / 64; 128 + c mod 64]
  else if (55296 <=? c) && (c <=? 57343) then [239; 191; 189]
  else if c <? 65536 then [224 + c / 4096; 128 + (c / 64) mod 64; 128 + c mod 64]
  else if c <? 1114112 then
    [240 + c / 262144; 128 + (c / 4096) mod 64; 128 + (c / 64) mod 64; 128 + c mod 64]
  else [239; 191; 189].

Definition utf8_encode (t : text) : bytes := flat_map utf8_encode1 t.

Definition is_cont (b : byte) : bool := (128 <=? b) && (b <=? 191).
Definition in_rng (lo hi b : byte) : bool := (lo <=? b) && (b <=? hi).

(* utf8.DecodeRune: first rune of s and its width in bytes; an invalid or
   truncated encoding yields (RuneError, 1) *)
Definition utf8_decode1 (s : bytes) : cp * nat :=
  match s with
  | [] => (RuneError, 0%nat)
  | b0 :: r =>
      if b0 <? 128 then (b0, 1%nat)
      else if in_rng 194 223 b0 then
        match r with
        | b1 :: _ => if is_cont b1 then ((b0 - 192) * 64 + (b1 - 128), 2%nat)
                     else (RuneError, 1%nat)
        | _ => (RuneError, 1%nat)
        end
      else if in_rng 224 239 b0 then
        match r with
        | b1 :: b2 :: _ =>
            let lo := if b0 =? 224 then 160 else 128 in
            let hi := if b0 =? 237 then 159 else 191 in
            if in_rng lo hi b1 && is_cont b2
            then ((b0 - 224) * 4096 + (b1 - 128) * 64 + (b2 - 128), 3%nat)
            else (RuneError, 1%nat)
        | _ => (RuneError, 1%nat)
        end
      else if in_rng 240 244 b0 then
        match r with
        | b1 :: b2 :: b3 :: _ =>
            let lo := if b0 =? 240 then 144 else 128 in
            let hi := if b0 =? 244 then 143 else 191 in
            if in_rng lo hi b1 && is_cont b2 && is_cont b3
            then ((b0 - 240) * 262144 + (b1 - 128) * 4096 + (b2 - 128) * 64 + (b3 - 128), 4%nat)
            else (RuneError, 1%nat)
        | _ => (RuneError, 1%nat)
        end
      else (RuneError, 1%nat)
  end.

(* []rune(s) / for range s : fuel = length s is always enough *)
Fixpoint utf8_decode_fuel (fuel : nat) (s : bytes) : text :=
  match fuel with
  | O => []
  | S f =>
      match s with
      | [] => []
      | _ => let '(c, w) := utf8_decode1 s in c :: utf8_decode_fuel f (skipn w s)
      end
  end.

Definition utf8_decode (s : bytes) : text := utf8_decode_fuel (length s) s.

(* ---------- result of an operation that may panic ---------- *)
Inductive res (A : Type) := Ok (a : A) | Panic.
Arguments Ok {A} a.
Arguments Panic {A}.

Definition rbind {A B} (m : res A) (f : A -> res B) : res B :=
  match m with Ok a => f a | Panic => Panic end.

Notation "x <- m ;; k" := (rbind m (fun x => k)) (at level 61, m at next level, right associativity).
