(* SentenceProofs.v — the recogniser of the model (lexer + parser) accepts exactly the
   sentences of JsonQuery.g4: texts that have a maximal-munch tokenisation over the lexer
   rules whose token list derives from `query` by the parser rules. *)
From Rules Require Import Eval EvalProofs Grammar GrammarProofs RegexProofs LexerProofs.

Definition is_sentence (t : text) : Prop :=
  exists toks, tokens_spec g4_lexer_rules t toks /\ sentence g4_parser_rules N_query toks.

Theorem parse_text_iff_sentence t : parse_text t <> None <-> is_sentence t.
Proof.
  unfold parse_text, is_sentence. split.
  - destruct (lex g4_lexer_rules t) as [toks|] eqn:E; [|congruence]. intros H.
    exists toks. split; [apply lex_correct; exact E|apply parser_recognises_grammar; exact H].
  - intros (toks & Hl & Hs). apply lex_correct in Hl. rewrite Hl. apply parser_recognises_grammar. exact Hs.
Qed.

Section WithLower.
Variable lower : bytes -> bytes.

Theorem verdict_only_for_sentences rule o :
  o_verdict (run lower rule o) = true -> is_sentence (trim_space (utf8_decode rule)).
Proof.
  intros H. apply parse_text_iff_sentence. unfold run, new_evaluator, process in H. cbn in H.
  unfold parse_rule in H. destruct (parse_text (trim_space (utf8_decode rule))); [discriminate|discriminate H].
Qed.

Theorem non_sentences_rejected rule o :
  ~ is_sentence (trim_space (utf8_decode rule)) ->
  run lower rule o = mkOut false ErrOther None /\
  rules_evaluate lower rule o = (false, ErrOther) /\ parser_evaluate lower rule o = false.
Proof.
  intros H. assert (Hp : parse_rule rule = None).
  { unfold parse_rule. destruct (parse_text (trim_space (utf8_decode rule))) eqn:E; [|reflexivity].
    exfalso. apply H. apply parse_text_iff_sentence. congruence. }
  pose proof (run_reject lower rule o Hp) as R. unfold rules_evaluate, parser_evaluate. rewrite R. repeat split.
Qed.
End WithLower.
