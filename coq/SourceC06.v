(* SourceC06.v — C06: which typed Operation overrides which operator, read off the method
   declarations of this run's source (SourceFacts.v is regenerated on every check).  Every typed
   operation embeds NullOperation, whose methods other than EQ / NE return ErrInvalidOperation;
   an operator is supported for a literal kind exactly when the typed operation of that kind
   overrides it.  C06_table (OpsProps.op_invalid_iff) is about the model. *)
From Coq Require Import List String Bool.
Import ListNotations.
From Rules Require SourceFacts.

Definition has_method (ty m : string) : bool :=
  existsb (fun e => (String.eqb (fst e) ty && String.eqb (snd e) m)%bool) SourceFacts.op_methods.

Definition op_names : list string := ["EQ"; "NE"; "GT"; "LT"; "GE"; "LE"; "CO"; "SW"; "EW"; "IN"]%string.

Definition overrides (ty : string) : list string := filter (has_method ty) op_names.

Theorem c06_method_sets :
  overrides "NullOperation" = op_names /\
  overrides "BoolOperation" = ["EQ"; "NE"]%string /\
  overrides "IntOperation" = ["EQ"; "NE"; "GT"; "LT"; "GE"; "LE"; "IN"]%string /\
  overrides "FloatOperation" = ["EQ"; "NE"; "GT"; "LT"; "GE"; "LE"; "IN"]%string /\
  overrides "StringOperation" = op_names /\
  overrides "VersionOperation" = ["EQ"; "NE"; "GT"; "LT"; "GE"; "LE"]%string.
Proof. repeat split; vm_compute; reflexivity. Qed.
