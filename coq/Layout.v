(* Layout.v — layout-annotated rule trees: every choice the parser rules leave
   free (optional blanks of parenExp, redundant parentheses are ordinary
   parenExp nodes) is a field; [print] gives the token list, [erase] the AST.
   Token texts that the parser never looks at are printed canonically. *)
From Rules Require Export Syntax.
Open Scope N_scope.

Definition tSP : tok := (K_SP, []).
Definition tLP : tok := (K_LP, []).
Definition tRP : tok := (K_RP, []).
Definition tPR : tok := (K_PR, []).
Definition tDOT : tok := (K_DOT, []).
Definition tMINUS : tok := (K_MINUS, []).
Definition tLB : tok := (K_LB, []).
Definition tRB : tok := (K_RB, []).
Definition tCOMMA : tok := (K_COMMA, []).
Definition tNOT : tok := (K_NOT, []).
Definition tNULL : tok := (K_NULL, []).

Definition op_kind (op : cmpop) : tkind :=
  match op with
  | EQ => K_EQ | NE => K_NE | GT => K_GT | LT => K_LT | GE => K_GE | LE => K_LE
  | CO => K_CO | SW => K_SW | EW => K_EW | IN => K_IN
  end.

Fixpoint print_path (p : path) : list tok :=
  match p with
  | [] => []
  | [n] => [(K_ATTRNAME, n)]
  | n :: r => (K_ATTRNAME, n) :: tDOT :: print_path r
  end.

Fixpoint print_sublist (k : tkind) (l : list text) : list tok :=
  match l with
  | [] => []
  | [x] => [(k, x); tRB]
  | x :: r => (k, x) :: tCOMMA :: print_sublist k r
  end.

Definition print_value (v : value) : list tok :=
  match v with
  | VBoolean t => [(K_BOOLEAN, t)]
  | VNull => [tNULL]
  | VVersion t => [(K_VERSION, t)]
  | VString t => [(K_STRING, t)]
  | VDouble t => [(K_DOUBLE, t)]
  | VLong neg i e => (if neg then [tMINUS] else []) ++ [(K_INT, i)] ++ match e with Some x => [(K_EXP, x)] | None => [] end
  | VListInts l => tLB :: print_sublist K_INT l
  | VListDoubles l => tLB :: print_sublist K_DOUBLE l
  | VListStrings l => tLB :: print_sublist K_STRING l
  end.

Definition wf_value (v : value) : Prop :=
  match v with
  | VListInts l | VListDoubles l | VListStrings l => l <> []
  | _ => True
  end.

(* a leaf of the AST *)
Definition print_leaf (q : query) : list tok :=
  match q with
  | QPresent p => print_path p ++ [tSP; tPR]
  | QCompare p op v => print_path p ++ [tSP; (op_kind op, []); tSP] ++ print_value v
  | _ => []
  end.

Definition wf_leaf (q : query) : Prop :=
  match q with
  | QPresent p => p <> []
  | QCompare p _ v => p <> [] /\ wf_value v
  | _ => False
  end.

(* ---------- layout trees ---------- *)
Inductive lchain :=
| LChain (first : lprim) (rest : list (bool * lprim))       (* isor, operand *)
with lprim :=
| LLeaf (q : query)
| LParen (neg sp0 sp1 sp2 : bool) (inner : lchain).
(* NOT? SP? '(' SP? query SP? ')' : sp0 between NOT/start and '(', sp1 after '(', sp2 before ')' *)

Definition osp (b : bool) : list tok := if b then [tSP] else [].

Fixpoint print_chain (c : lchain) : list tok :=
  match c with
  | LChain f rest =>
      print_prim f ++
      (fix print_rest (l : list (bool * lprim)) : list tok :=
         match l with
         | [] => []
         | (isor, p) :: l' => tSP :: (K_LOGICAL_OPERATOR, if isor then t_or else t_and) :: tSP :: print_prim p ++ print_rest l'
         end) rest
  end
with print_prim (p : lprim) : list tok :=
  match p with
  | LLeaf q => print_leaf q
  | LParen neg sp0 sp1 sp2 inner =>
      (if neg then [tNOT] else []) ++ osp sp0 ++ [tLP] ++ osp sp1 ++ print_chain inner ++ osp sp2 ++ [tRP]
  end.

Fixpoint erase_chain (c : lchain) : query :=
  match c with
  | LChain f rest =>
      (fix erase_rest (acc : query) (l : list (bool * lprim)) : query :=
         match l with
         | [] => acc
         | (isor, p) :: l' => erase_rest (QLogic isor acc (erase_prim p)) l'
         end) (erase_prim f) rest
  end
with erase_prim (p : lprim) : query :=
  match p with
  | LLeaf q => q
  | LParen neg _ _ _ inner => QParen neg (erase_chain inner)
  end.

(* nesting depth of parentheses: the measure of the proofs *)
Fixpoint depth_chain (c : lchain) : nat :=
  match c with
  | LChain f rest =>
      Nat.max (depth_prim f)
        ((fix depth_rest (l : list (bool * lprim)) : nat :=
            match l with
            | [] => O
            | (_, p) :: l' => Nat.max (depth_prim p) (depth_rest l')
            end) rest)
  end
with depth_prim (p : lprim) : nat :=
  match p with
  | LLeaf _ => O
  | LParen _ _ _ _ inner => S (depth_chain inner)
  end.

(* well-formed: leaves are leaves; the inner query of "( SP? query" must not start with
   its own optional SP when the outer one is also present AND the inner starts with NOT
   — not expressible at this level, so: a parenExp that directly follows an optional SP
   position carries no leading SP of its own when it is negated (NOT SP? '(' has no
   leading SP anyway).  What remains to exclude: sp1 = true together with an inner chain
   whose first primary is an un-negated parenExp with sp0 = true is FINE (two SP tokens). *)
Fixpoint wf_chain (c : lchain) : Prop :=
  match c with
  | LChain f rest =>
      wf_prim f /\
      (fix wf_rest (l : list (bool * lprim)) : Prop :=
         match l with
         | [] => True
         | (_, p) :: l' => wf_prim p /\ wf_rest l'
         end) rest
  end
with wf_prim (p : lprim) : Prop :=
  match p with
  | LLeaf q => wf_leaf q
  | LParen neg sp0 _ _ inner => wf_chain inner
  end.
