(* SpellContext.v — character level of C15 in context: ANY sequence of token texts, each of
   which alone is a token of its kind, whose neighbouring kinds are among those that can be
   adjacent in a sentence of the grammar, lexes back to exactly that token sequence — whatever
   spellings (eq / EQ / ==, not / NOT, blanks with newlines, commas with blanks) were chosen. *)
From Rules Require Import Regex RegexProofs Lexer LexerProofs LexContext SpellingProofs RegexAnalysis Tokens GrammarGen.
Open Scope N_scope.

Notation G := g4_lexer_rules.

Definition rule_of (k : tkind) : re :=
  match find (fun e => tkind_eqb (fst e) k) G with Some e => snd e | None => Emp end.

Lemma nth_rule i k r : nth_error G i = Some (k, r) -> r = rule_of k.
Proof.
  do 30 (destruct i as [|i]; [cbn [nth_error G]; intros [= <- <-]; reflexivity|]). cbn [nth_error G]. destruct i; discriminate.
Qed.

Lemma in_rule k r : In (k, r) G -> r = rule_of k.
Proof. intros H. apply In_nth_error in H. destruct H as [i H]. eapply nth_rule; exact H. Qed.

(* the text w, alone, is the single token (k, w) *)
Definition valid (t : tok) : Prop := lex G (snd t) = Some [t].

Lemma valid_matches k w : valid (k, w) -> w <> [] /\ matches (rule_of k) w.
Proof.
  intros H. destruct (single_munch G w k H) as [Hne (i & (r & Hn & (_ & Hm & _) & _) & _)].
  split; [exact Hne|]. unfold prefix_matches in Hm. rewrite firstn_all in Hm. rewrite <- (nth_rule _ _ _ Hn). exact Hm.
Qed.

Lemma valid_head k w : valid (k, w) -> exists h w', w = h :: w' /\ in_ranges h (firsts (rule_of k)) = true.
Proof.
  intros H. destruct (valid_matches k w H) as [Hne Hm]. destruct w as [|h w']; [congruence|].
  exists h, w'. split; [reflexivity|]. eapply matches_first; exact Hm.
Qed.

(* ---------- pairs of neighbouring tokens ---------- *)
(* every rule except those of kind in [ex]: the follower's first characters avoid its characters,
   or the token's first characters avoid its first characters *)
Definition rule_ok (ex : list tkind) (H C : list (N * N)) (kr : tkind * re) : bool :=
  existsb (tkind_eqb (fst kr)) ex || ranges_disjoint C (chars (snd kr)) || ranges_disjoint H (firsts (snd kr)).

Lemma rule_ok_cases ex H C kr : rule_ok ex H C kr = true ->
  existsb (tkind_eqb (fst kr)) ex = true \/ ranges_disjoint C (chars (snd kr)) = true \/ ranges_disjoint H (firsts (snd kr)) = true.
Proof.
  unfold rule_ok. destruct (existsb _ ex); [left; reflexivity|]. destruct (ranges_disjoint C _); [right; left; reflexivity|].
  cbn [orb]. intros ->. right. right. reflexivity.
Qed.

Definition pair_check (ex : list tkind) (k1 k2 : tkind) : bool :=
  forallb (rule_ok ex (firsts (rule_of k1)) (firsts (rule_of k2))) G.

Lemma pair_closed ex k1 w1 k2 w2 rest :
  pair_check ex k1 k2 = true -> valid (k1, w1) -> valid (k2, w2) ->
  (forall k, In k ex -> forall c s, (exists w2', w2 = c :: w2') -> ~ matches (rule_of k) (w1 ++ c :: s)) ->
  closed_in G w1 (w2 ++ rest).
Proof.
  intros Hc V1 V2 Hex. destruct (valid_head k1 w1 V1) as (h & w1' & -> & Hh).
  destruct (valid_head k2 w2 V2) as (c & w2' & -> & Hcc).
  change ((c :: w2') ++ rest) with (c :: (w2' ++ rest)). apply closed_closed_in.
  intros k r Hin s Hm. unfold pair_check in Hc. rewrite forallb_forall in Hc. specialize (Hc _ Hin).
  apply rule_ok_cases in Hc. cbn [fst snd] in Hc. destruct Hc as [Hc|[Hc|Hc]].
  - apply existsb_exists in Hc. destruct Hc as (k' & Hk' & E). unfold tkind_eqb in E. destruct (tkind_eq_dec k k') as [<-|]; [|discriminate E].
    rewrite (in_rule _ _ Hin) in Hm. apply (Hex k Hk' c s); [eexists; reflexivity|exact Hm].
  - pose proof (ranges_disjoint_spec _ _ c Hc Hcc) as Hn.
    rewrite (matches_chars _ _ Hm c) in Hn; [discriminate Hn|]. cbn [app]. right. apply in_or_app. right. left. reflexivity.
  - pose proof (ranges_disjoint_spec _ _ h Hc Hh) as Hn. cbn [app] in Hm. rewrite (matches_first _ _ _ Hm) in Hn. discriminate Hn.
Qed.

(* ---------- the special neighbours ---------- *)
(* '(' '(' and ')' ')' : the rule is a single literal *)
Lemma lit_closed t w c s : matches (lit t) w -> ~ matches (lit t) (w ++ c :: s).
Proof.
  intros H1 H2. apply lit_matches in H1, H2. subst w. 
  assert (length (t ++ c :: s) = length t) by (rewrite H2; reflexivity). rewrite app_length in H. cbn in H. lia.
Qed.

(* a blank with newlines followed by a blank *)
Lemma star_newline x : matches (Star re_NEWLINE) x -> exists n, x = repeat 10 n.
Proof.
  intros H. remember (Star re_NEWLINE) as r eqn:Er. induction H; try discriminate.
  - exists 0%nat. reflexivity.
  - injection Er as ->. destruct (IHmatches2 eq_refl) as [n ->].
    unfold re_NEWLINE in H. cbn [alts cats] in H. apply (lit_matches [10]) in H. subst s. exists (S n). reflexivity.
Qed.

Lemma sp_shape x : matches re_SP x -> exists n, x = 32 :: repeat 10 n.
Proof.
  unfold re_SP. cbn [alts cats]. intros H. inversion H as [| |a b s1 s2 H1 H2| | | |]; subst.
  apply (lit_matches [32]) in H1. subst s1. destruct (star_newline _ H2) as [n ->]. exists n. reflexivity.
Qed.

Lemma repeat_no_blank n : forall m s, repeat 10 n ++ 32 :: s <> repeat 10 m.
Proof.
  induction n as [|n IH]; intros m s; cbn.
  - destruct m; cbn; [discriminate|]. intros [= H]. 
  - destruct m; cbn; [discriminate|]. intros [= H]. exact (IH m s H).
Qed.

Lemma sp_sp_closed w s : matches re_SP w -> ~ matches re_SP (w ++ 32 :: s).
Proof.
  intros H1 H2. destruct (sp_shape _ H1) as [n ->]. destruct (sp_shape _ H2) as [m E].
  cbn in E. injection E as E. exact (repeat_no_blank n m s E).
Qed.

(* a string token: the STRING rule is exhausted after the closing quote *)
Lemma string_closed w c s : derivs w re_STRING = Eps -> ~ matches re_STRING (w ++ c :: s).
Proof. intros Hd Hm. apply matches_derivs in Hm. rewrite Hd in Hm. inversion Hm. Qed.

(* '-' INT : every match of DOUBLE contains a '.' *)
Lemma double_has_dot x : matches re_DOUBLE x -> In 46 x.
Proof.
  unfold re_DOUBLE. cbn [alts cats]. intros H.
  inversion H as [| |a1 b1 s1 t1 _ H1| | | |]; subst. inversion H1 as [| |a2 b2 s2 t2 _ H2| | | |]; subst.
  inversion H2 as [| |a3 b3 s3 t3 H3 _| | | |]; subst. apply (lit_matches [46]) in H3. subst s3.
  apply in_or_app. right. apply in_or_app. right. left. reflexivity.
Qed.

(* the shape of a DOUBLE: an optional '-', an INT, the '.', the rest *)
Lemma double_shape y : matches re_DOUBLE y ->
  exists s0 a b, y = s0 ++ a ++ 46 :: b /\ (s0 = [] \/ s0 = [45]) /\ matches re_INT a.
Proof.
  unfold re_DOUBLE. cbn [alts cats]. intros H.
  inversion H as [| |a1 b1 s1 t1 H0 H1| | | |]; subst. inversion H1 as [| |a2 b2 s2 t2 Hi H2| | | |]; subst.
  inversion H2 as [| |a3 b3 s3 t3 H3 _| | | |]; subst. apply (lit_matches [46]) in H3. subst s3.
  exists s1, s2, t3. split; [reflexivity|]. split; [|exact Hi].
  unfold opt in H0. inversion H0 as [| | |a4 b4 s4 H4|a4 b4 s4 H4| |]; subst.
  - right. exact (lit_matches [45] _ H4).
  - left. inversion H4. reflexivity.
Qed.

Lemma split_unique (P : N -> Prop) : forall a i p q b x,
  Forall P a -> Forall P i -> ~ P p -> ~ P q -> a ++ p :: b = i ++ q :: x -> a = i /\ p = q.
Proof.
  induction a as [|a0 a IH]; intros [|i0 i] p q b x Ha Hi Hp Hq E; cbn in E.
  - injection E as -> _. split; reflexivity.
  - injection E as -> _. inversion Hi; subst. contradiction.
  - injection E as -> _. inversion Ha; subst. contradiction.
  - injection E as -> E. inversion Ha; subst. inversion Hi; subst.
    destruct (IH i p q b x) as [-> ->]; try assumption. split; reflexivity.
Qed.

Definition digit (x : N) : Prop := in_ranges x (chars re_INT) = true.

Lemma int_digits i : matches re_INT i -> Forall digit i.
Proof. intros H. apply Forall_forall. intros x Hx. exact (matches_chars _ _ H x Hx). Qed.

Lemma dot_not_digit : ~ digit 46.
Proof. unfold digit. vm_compute. discriminate. Qed.
Lemma minus_not_digit : ~ digit 45.
Proof. unfold digit. vm_compute. discriminate. Qed.

Lemma int_nonempty : ~ matches re_INT [].
Proof. intros H. apply nullable_matches in H. vm_compute in H. discriminate H. Qed.

(* an INT followed by anything but a digit or the '.' is not the beginning of a DOUBLE,
   with or without a leading '-' *)
Lemma int_then_other i c s : matches re_INT i -> i <> [] -> c <> 46 -> ~ digit c ->
  ~ matches re_DOUBLE (i ++ c :: s) /\ ~ matches re_DOUBLE (45 :: i ++ c :: s).
Proof.
  intros Mi Hne Hc Hd. pose proof (int_digits i Mi) as Di. split; intros H;
    destruct (double_shape _ H) as (s0 & a & b & E & [->| ->] & Ma); pose proof (int_digits a Ma) as Da; cbn [app] in E.
  - symmetry in E. destruct (split_unique digit a i 46 c b s Da Di dot_not_digit Hd E) as [_ E']. congruence.
  - destruct i as [|d i']; [congruence|]. cbn [app] in E. injection E as -> _. inversion Di; subst. exact (minus_not_digit H2).
  - destruct a as [|a0 a'].
    + exact (int_nonempty Ma).
    + cbn [app] in E. injection E as E0 _. subst a0. inversion Da; subst. exact (minus_not_digit H2).
  - injection E as E. symmetry in E.
    destruct (split_unique digit a i 46 c b s Da Di dot_not_digit Hd E) as [_ E']. congruence.
Qed.

(* '-' INT : a DOUBLE would need the '.', which neither the INT nor what may follow it supplies *)
Lemma In_firstn {A} (x : A) n l : In x (firstn n l) -> In x l.
Proof. intros H. rewrite <- (firstn_skipn n l). apply in_or_app. left. exact H. Qed.

Lemma pair_rule ex k1 w1 k2 c w2' :
  pair_check ex k1 k2 = true -> valid (k1, w1) -> valid (k2, c :: w2') ->
  forall k r, In (k, r) G -> ~ In k ex -> forall s, ~ matches r (w1 ++ c :: s).
Proof.
  intros Hc V1 V2 k r Hin Hk s Hm. destruct (valid_head k1 w1 V1) as (h & w1' & -> & Hh).
  destruct (valid_head k2 _ V2) as (c0 & w20 & E & Hcc). injection E as <- <-.
  unfold pair_check in Hc. rewrite forallb_forall in Hc. specialize (Hc _ Hin).
  apply rule_ok_cases in Hc. cbn [fst snd] in Hc. destruct Hc as [Hc|[Hc|Hc]].
  - apply existsb_exists in Hc. destruct Hc as (k' & Hk' & E). unfold tkind_eqb in E. destruct (tkind_eq_dec k k') as [<-|]; [|discriminate E].
    exact (Hk Hk').
  - pose proof (ranges_disjoint_spec _ _ c Hc Hcc) as Hn.
    rewrite (matches_chars _ _ Hm c) in Hn; [discriminate Hn|]. cbn [app]. right. apply in_or_app. right. left. reflexivity.
  - pose proof (ranges_disjoint_spec _ _ h Hc Hh) as Hn. cbn [app] in Hm. rewrite (matches_first _ _ _ Hm) in Hn. discriminate Hn.
Qed.

Lemma minus_int_check : pair_check [K_DOUBLE] K_MINUS K_INT = true.
Proof. vm_compute. reflexivity. Qed.

Definition other (c : N) : Prop := c <> 46 /\ ~ digit c.

Lemma minus_closed w1 i rest :
  valid (K_MINUS, w1) -> valid (K_INT, i) ->
  (rest = [] \/ exists c r', rest = c :: r' /\ other c) ->
  closed_in G w1 (i ++ rest).
Proof.
  intros V1 V2 Hrest.
  destruct (valid_matches _ _ V1) as [_ M1]. apply (lit_matches [45]) in M1. subst w1.
  destruct (valid_matches _ _ V2) as [Hne M2]. change (rule_of K_INT) with re_INT in M2.
  intros k r Hin m [Hlo Hhi] Hm.
  destruct (in_dec tkind_eq_dec k [K_DOUBLE]) as [Hk|Hk].
  - destruct Hk as [<-|[]]. rewrite (in_rule _ _ Hin) in Hm. change (rule_of K_DOUBLE) with re_DOUBLE in Hm. clear V1 V2.
    rewrite app_assoc in Hm, Hhi.
    destruct (Nat.le_gt_cases m (length ([45] ++ i))) as [Hle|Hgt].
    + rewrite firstn_app_le in Hm by exact Hle. pose proof (double_has_dot _ Hm) as Hdot. apply In_firstn in Hdot.
      destruct Hdot as [E|E]; [discriminate E|]. apply dot_not_digit. exact (matches_chars _ _ M2 46 E).
    + destruct Hrest as [->|(c & r' & -> & Hc1 & Hc2)].
      * rewrite app_nil_r in Hhi. lia.
      * destruct (firstn_app_gt ([45] ++ i) c r' m Hgt) as [x Ex]. rewrite Ex in Hm.
        rewrite <- app_assoc in Hm. exact (proj2 (int_then_other i c x M2 Hne Hc1 Hc2) Hm).
  - destruct i as [|d i']; [congruence|]. cbn [app length] in Hlo.
    destruct (firstn_app_gt [45] d (i' ++ rest) m Hlo) as [x Ex]. cbn [app] in Ex, Hm. rewrite Ex in Hm.
    exact (pair_rule [K_DOUBLE] K_MINUS [45] K_INT d i' minus_int_check V1 V2 k r Hin Hk x Hm).
Qed.

(* ---------- which kinds can be neighbours in a sentence ---------- *)
Definition vals := [K_BOOLEAN; K_NULL; K_VERSION; K_STRING; K_DOUBLE; K_MINUS; K_INT; K_LB].
Definition ops := [K_EQ; K_NE; K_GT; K_LT; K_GE; K_LE; K_CO; K_SW; K_EW; K_IN].
Definition vlast := [K_BOOLEAN; K_NULL; K_VERSION; K_STRING; K_DOUBLE; K_INT; K_EXP; K_RB].
Definition pfirst := [K_ATTRNAME; K_NOT; K_SP; K_LP].
Definition plast := K_PR :: K_RP :: vlast.
Definition adj : list (tkind * tkind) :=
  [(K_ATTRNAME, K_DOT); (K_DOT, K_ATTRNAME); (K_ATTRNAME, K_SP); (K_SP, K_PR)]
  ++ map (fun o => (K_SP, o)) ops ++ map (fun o => (o, K_SP)) ops ++ map (fun v => (K_SP, v)) vals
  ++ [(K_MINUS, K_INT); (K_INT, K_EXP); (K_LB, K_INT); (K_LB, K_DOUBLE); (K_LB, K_STRING); (K_INT, K_COMMA); (K_DOUBLE, K_COMMA); (K_STRING, K_COMMA);
      (K_COMMA, K_INT); (K_COMMA, K_DOUBLE); (K_COMMA, K_STRING); (K_INT, K_RB); (K_DOUBLE, K_RB); (K_STRING, K_RB);
      (K_NOT, K_SP); (K_NOT, K_LP); (K_SP, K_LP); (K_LP, K_SP)]
  ++ map (fun f => (K_LP, f)) pfirst ++ map (fun f => (K_SP, f)) pfirst
  ++ map (fun l => (l, K_SP)) plast ++ map (fun l => (l, K_RP)) plast
  ++ [(K_SP, K_RP); (K_SP, K_LOGICAL_OPERATOR); (K_LOGICAL_OPERATOR, K_SP)].

Definition adjb (k1 k2 : tkind) : bool := existsb (fun p => tkind_eqb (fst p) k1 && tkind_eqb (snd p) k2) adj.

Lemma adjb_in k1 k2 : adjb k1 k2 = true -> In (k1, k2) adj.
Proof.
  unfold adjb. intros H. apply existsb_exists in H. destruct H as ([a b] & Hin & E). cbn [fst snd] in E.
  apply andb_prop in E. destruct E as [E1 E2]. unfold tkind_eqb in E1, E2.
  destruct (tkind_eq_dec a k1) as [<-|]; [|discriminate E1]. destruct (tkind_eq_dec b k2) as [<-|]; [|discriminate E2]. exact Hin.
Qed.

(* the rules that the generic character-class argument cannot exclude for a pair *)
Definition ex_of (k1 k2 : tkind) : list tkind :=
  match k1, k2 with
  | K_MINUS, K_INT => [K_DOUBLE]
  | K_INT, K_EXP => [K_DOUBLE]
  | K_STRING, _ => [K_STRING]
  | K_LP, K_LP => [K_LP]
  | K_RP, K_RP => [K_RP]
  | K_SP, K_SP => [K_SP]
  | _, _ => []
  end.

Lemma adj_checks : forallb (fun p => pair_check (ex_of (fst p) (snd p)) (fst p) (snd p)) adj = true.
Proof. vm_compute. reflexivity. Qed.

(* what may follow an INT is neither a digit nor the '.' *)
Definition dd : list (N * N) := (46, 46) :: chars re_INT.

Lemma dd_other c : in_ranges c dd = false -> other c.
Proof.
  unfold dd. cbn [in_ranges]. intros H. apply Bool.orb_false_elim in H. destruct H as [H1 H2]. split.
  - intros ->. vm_compute in H1. discriminate H1.
  - unfold digit. rewrite H2. discriminate.
Qed.

Lemma int_followers :
  forallb (fun p => negb (tkind_eqb (fst p) K_INT) || ranges_disjoint (firsts (rule_of (snd p))) dd) adj = true.
Proof. vm_compute. reflexivity. Qed.

(* a token text that stands alone; a string additionally ends at its closing quote *)
Definition tok_ok (t : tok) : Prop :=
  valid t /\ (fst t = K_STRING -> derivs (snd t) re_STRING = Eps).

Lemma ex_ok k1 w1 k2 w2 : tok_ok (k1, w1) -> valid (k2, w2) -> ~ (k1 = K_MINUS /\ k2 = K_INT) ->
  forall k, In k (ex_of k1 k2) -> forall c s, (exists w2', w2 = c :: w2') -> ~ matches (rule_of k) (w1 ++ c :: s).
Proof.
  intros [V1 S1] V2 Hn k Hk c s [w2' ->]. cbn [fst snd] in S1.
  destruct (valid_matches _ _ V1) as [Hne1 M1]. destruct (valid_matches _ _ V2) as [_ M2]. clear V1 V2.
  destruct k1; cbn [ex_of In] in Hk; try contradiction Hk.
  - (* ( ( *) destruct k2; cbn [ex_of In] in Hk; try contradiction Hk. destruct Hk as [<-|[]].
    exact (lit_closed [40] w1 c s M1).
  - (* ) ) *) destruct k2; cbn [ex_of In] in Hk; try contradiction Hk. destruct Hk as [<-|[]].
    exact (lit_closed [41] w1 c s M1).
  - (* - INT *) destruct k2; cbn [ex_of In] in Hk; try contradiction Hk. exfalso. apply Hn. split; reflexivity.
  - (* STRING *) assert (Hk' : k = K_STRING) by (destruct k2; cbn [ex_of In] in Hk; destruct Hk as [<-|[]]; reflexivity).
    subst k. exact (string_closed w1 c s (S1 eq_refl)).
  - (* INT EXP *) destruct k2; cbn [ex_of In] in Hk; try contradiction Hk. destruct Hk as [<-|[]].
    change (rule_of K_INT) with re_INT in M1. change (rule_of K_EXP) with re_EXP in M2. change (rule_of K_DOUBLE) with re_DOUBLE.
    pose proof (matches_first _ _ _ M2) as Hc.
    assert (Hd : ranges_disjoint (firsts re_EXP) dd = true) by (vm_compute; reflexivity).
    destruct (dd_other c (ranges_disjoint_spec _ _ c Hd Hc)) as [Hc1 Hc2].
    exact (proj1 (int_then_other w1 c s M1 Hne1 Hc1 Hc2)).
  - (* SP SP *) destruct k2; cbn [ex_of In] in Hk; try contradiction Hk. destruct Hk as [<-|[]].
    change (rule_of K_SP) with re_SP in *. destruct (sp_shape _ M2) as [n E]. injection E as -> _.
    exact (sp_sp_closed w1 s M1).
Qed.

Lemma neighbour k1 w1 k2 w2 r2 :
  tok_ok (k1, w1) -> tok_ok (k2, w2) -> adjb k1 k2 = true ->
  match r2 with [] => True | t3 :: _ => valid t3 /\ adjb k2 (fst t3) = true end ->
  closed_in G w1 (w2 ++ cat_texts r2).
Proof.
  intros T1 T2 Ha H3. apply adjb_in in Ha.
  pose proof adj_checks as Hck. rewrite forallb_forall in Hck. pose proof (Hck _ Ha) as Hpc. cbn [fst snd] in Hpc.
  destruct (tkind_eq_dec k1 K_MINUS) as [E1|N1]; [destruct (tkind_eq_dec k2 K_INT) as [E2|N2]|].
  - subst k1 k2. apply minus_closed; [exact (proj1 T1)|exact (proj1 T2)|].
    destruct r2 as [|[k3 w3] r3]; [left; reflexivity|right]. destruct H3 as [V3 A3]. cbn [fst] in A3. apply adjb_in in A3.
    destruct (valid_head _ _ V3) as (c & w3' & -> & Hc). exists c, (w3' ++ cat_texts r3). split; [reflexivity|].
    pose proof int_followers as Hf. rewrite forallb_forall in Hf. specialize (Hf _ A3). cbn [fst snd] in Hf.
    unfold tkind_eqb in Hf. destruct (tkind_eq_dec K_INT K_INT) as [_|N]; [|congruence]. cbn [negb orb] in Hf.
    exact (dd_other c (ranges_disjoint_spec _ _ c Hf Hc)).
  - eapply pair_closed; [exact Hpc|exact (proj1 T1)|exact (proj1 T2)|]. apply ex_ok; [exact T1|exact (proj1 T2)|]. intros [_ E]. exact (N2 E).
  - eapply pair_closed; [exact Hpc|exact (proj1 T1)|exact (proj1 T2)|]. apply ex_ok; [exact T1|exact (proj1 T2)|]. intros [E _]. exact (N1 E).
Qed.

Fixpoint chain_ok (ks : list tkind) : bool :=
  match ks with
  | [] => true
  | k1 :: r => match r with [] => true | k2 :: _ => adjb k1 k2 && chain_ok r end
  end.

(* THE character-level theorem: a sequence of stand-alone token texts whose neighbouring kinds
   are neighbours of the grammar's sentences lexes back to itself, whatever the spellings *)
Theorem context_lex ts :
  Forall tok_ok ts -> chain_ok (map fst ts) = true -> lex G (cat_texts ts) = Some ts.
Proof.
  intros Hall Hch. apply lex_concat. induction ts as [|[k1 w1] r IH]; [exact I|].
  inversion Hall as [|t0 r0 T1 Hr]; subst. cbn [seq_ok fst snd].
  split; [exact (proj1 T1)|]. split.
  - destruct r as [|[k2 w2] r2]; [apply closed_in_nil|]. cbn [cat_texts snd].
    inversion Hr as [|t0 r0 T2 Hr2]; subst. cbn [map fst chain_ok] in Hch. apply andb_prop in Hch. destruct Hch as [A12 Hch2].
    apply (neighbour k1 w1 k2 w2 r2 T1 T2 A12).
    destruct r2 as [|[k3 w3] r3]; [exact I|]. inversion Hr2 as [|t0 r0 T3 _]; subst. split; [exact (proj1 T3)|].
    cbn [map fst chain_ok] in Hch2. apply andb_prop in Hch2. exact (proj1 Hch2).
  - apply IH; [exact Hr|]. destruct r as [|[k2 w2] r2]; [reflexivity|]. cbn [map fst chain_ok] in Hch. apply andb_prop in Hch. exact (proj2 Hch).
Qed.
