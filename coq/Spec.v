(* Spec.v — the compositional specification of rule evaluation, in the
   vocabulary of the properties: what a path denotes, what a literal denotes,
   the outcome of one comparison, three-valued short-circuit semantics of
   compound rules with the diagnostic.  No visitor state here. *)
From Rules Require Export Visitor.
Open Scope Z_scope.

(* ---------- paths ---------- *)
(* successive key lookups starting at [item]; absent (GNil) as soon as a step is
   missing or null — the remaining steps are not looked at; a non-object in
   the middle of a path is a failed type assertion (Panic) *)
Fixpoint denote_from (item : gval) (p : path) : res gval :=
  match p with
  | [] => Ok item
  | name :: rest =>
      match item with
      | GNil => Ok GNil
      | GMap m =>
          match rest with
          | [] => Ok (lookup (utf8_encode name) m)
          | _ => denote_from (lookup (utf8_encode name) m) rest
          end
      | _ => Panic
      end
  end.

Definition denote (top : object) (p : path) : res gval := denote_from (GMap top) p.

(* every proper prefix of p denotes an object, null or nothing *)
Definition object_shaped (top : object) (p : path) : Prop := denote top p <> Panic.

(* ---------- literals ---------- *)
Fixpoint ints_denote (l : list text) (acc : list Z) : operand * option verr :=
  match l with
  | [] => (RInts acc, None)
  | x :: r => match parse_int x with
              | None => (RInts acc, Some VErrOther)
              | Some z => ints_denote r (acc ++ [z])
              end
  end.

Fixpoint doubles_denote (l : list text) (acc : list f64) : operand * option verr :=
  match l with
  | [] => (RFloats acc, None)
  | x :: r => match parse_float x with
              | PFError => (RFloats acc, Some VErrOther)
              | PFVal f => doubles_denote r (acc ++ [f])
              end
  end.

Definition strings_denote (l : list text) : operand := RStrs (map get_string l).

(* typed operation, rule operand, and the evaluation failure the literal itself causes *)
Definition lit_denote (v : value) : optype * operand * option verr :=
  match v with
  | VBoolean t => if text_eqb t t_true then (OpBool, RBool true, None)
                  else if text_eqb t t_false then (OpBool, RBool false, None)
                  else (OpBool, RNil, Some VErrOther)
  | VNull => (OpNull, RNil, None)
  | VString t => (OpString, RStr (get_string t), None)
  | VDouble t => match parse_float t with
                 | PFError => (OpFloat, RNil, None)
                 | PFVal f => (OpFloat, RF64 f, None)
                 end
  | VVersion t => (OpVersion, RStr (utf8_encode t), None)
  | VLong neg i e => match parse_int (long_text neg i e) with
                     | None => (OpInt, RNil, Some VErrOther)
                     | Some z => (OpInt, RInt z, None)
                     end
  | VListInts [] => (OpInt, RNil, None)
  | VListInts l => let '(r, e) := ints_denote l [] in (OpInt, r, e)
  | VListDoubles [] => (OpFloat, RNil, None)
  | VListDoubles l => let '(r, e) := doubles_denote l [] in (OpFloat, r, e)
  | VListStrings [] => (OpString, RNil, None)
  | VListStrings l => (OpString, strings_denote l, None)
  end.

Section WithLower.
Variable lower : bytes -> bytes.

(* ---------- one comparison / presence test ---------- *)
Inductive lres :=
| LPanic
| LRes (b : bool) (e : option verr) (d : option dbgerr).  (* verdict, failure, diagnostic (None: none produced) *)

Definition present_sem (top : object) (p : path) : lres :=
  match denote top p with
  | Panic => LPanic
  | Ok v => LRes (negb (is_nil v)) None None
  end.

Definition compare_sem (top : object) (p : path) (op : cmpop) (v : value) : lres :=
  match denote top p with
  | Panic => LPanic
  | Ok lv =>
      let '(t, r, e) := lit_denote v in
      match e with
      | Some err => LRes false (Some err) None
      | None =>
          match op_apply lower t op lv r with
          | Panic => LPanic
          | Ok (b, None) => LRes b None None
          | Ok (_, Some EInvalidOperation) => LRes false (Some VErrInvalidOp) (Some DInvalidOp)
          | Ok (_, Some e') => LRes false None (Some (dbg_of_operr e'))
          end
      end
  end.

(* ---------- compound rules ---------- *)
Inductive sres :=
| SPanic                                        (* a Go panic, recovered by Process *)
| SFail (e : verr) (d : option dbgerr)          (* evaluation failed: first failure, diagnostic so far *)
| SVal (b : bool) (d : option dbgerr).          (* verdict, latest diagnostic *)

Definition merge_dbg (d d' : option dbgerr) : option dbgerr :=
  match d' with Some _ => d' | None => d end.

Definition of_lres (d : option dbgerr) (r : lres) : sres :=
  match r with
  | LPanic => SPanic
  | LRes _ (Some e) d' => SFail e (merge_dbg d d')
  | LRes b None d' => SVal b (merge_dbg d d')
  end.

(* [d]: the diagnostic left by the comparisons evaluated before *)
Fixpoint sem (top : object) (q : query) (d : option dbgerr) : sres :=
  match q with
  | QParen neg q1 =>
      match sem top q1 d with
      | SVal b d' => SVal (if neg then negb b else b) d'
      | r => r
      end
  | QLogic isor l r =>
      match sem top l d with
      | SVal b d' =>
          if isor then (if b then SVal b d' else sem top r d')
          else (if b then sem top r d' else SVal b d')
      | x => x
      end
  | QPresent p => of_lres d (present_sem top p)
  | QCompare p op v => of_lres d (compare_sem top p op v)
  end.

End WithLower.
