(* RunnerProofs.v — facts about the glue in Runner.v (the case reader / printer the correspondence
   check runs): the hexadecimal atoms round-trip, and the accumulator printer of trees prints
   exactly what the plain recursive printer prints.  No property theorem depends on this file; it
   narrows what has to be trusted about the glue. *)
From Rules Require Import Eval NestedError Runner.
From Coq Require Import Lia ZifyN Ascii String List.
Import ListNotations.
Open Scope string_scope.
Open Scope N_scope.
Open Scope list_scope.

(* ---------- hexadecimal atoms ---------- *)
Lemma hexval_hexdigit : forall n, n < 16 -> hexval (hexdigit n) = Some n.
Proof.
  intros n Hn. unfold hexdigit, hexval.
  destruct (n <? 10) eqn:E.
  - apply N.ltb_lt in E.
    replace ((48 <=? 48 + n) && (48 + n <=? 57))%bool with true
      by (symmetry; apply andb_true_intro; split; apply N.leb_le; lia).
    f_equal. lia.
  - apply N.ltb_ge in E.
    replace ((48 <=? 87 + n) && (87 + n <=? 57))%bool with false
      by (symmetry; apply Bool.andb_false_intro2; apply N.leb_gt; lia).
    replace ((97 <=? 87 + n) && (87 + n <=? 102))%bool with true
      by (symmetry; apply andb_true_intro; split; apply N.leb_le; lia).
    f_equal. lia.
Qed.

Theorem hex_bytes_roundtrip :
  forall b, Forall (fun c => c < 256) b -> hex_bytes (hex_of_bytes b) = Some b.
Proof.
  induction b as [|c r IH]; intros H; [reflexivity|].
  inversion H as [|? ? Hc Hr]; subst.
  unfold hex_of_bytes in *. cbn [flat_map app hex_bytes].
  assert (H1 : c / 16 < 16) by (apply N.div_lt_upper_bound; lia).
  assert (H2 : c mod 16 < 16) by (apply N.mod_lt; lia).
  rewrite (hexval_hexdigit _ H1), (hexval_hexdigit _ H2), (IH Hr).
  f_equal. f_equal. pose proof (N.div_mod c 16). lia.
Qed.

Corollary atom_bytes_roundtrip :
  forall b, Forall (fun c => c < 256) b -> atom_bytes (120 :: hex_of_bytes b) = Some b.
Proof. intros b H. exact (hex_bytes_roundtrip b H). Qed.

(* ---------- the tree printer ---------- *)
Fixpoint pquery_plain (q : query) : bytes :=
  match q with
  | QParen neg q1 => (if neg then s2b "(notparen " else s2b "(paren ") ++ pquery_plain q1 ++ [41]
  | QLogic isor l r => (if isor then s2b "(or " else s2b "(and ") ++ pquery_plain l ++ sp ++ pquery_plain r ++ [41]
  | QPresent p => s2b "(pr " ++ ppath p ++ [41]
  | QCompare p op v => s2b "(cmp " ++ ppath p ++ sp ++ pop op ++ sp ++ pvalue v ++ [41]
  end.

Lemma pquery_acc_spec : forall q acc, pquery_acc q acc = pquery_plain q ++ acc.
Proof.
  induction q as [neg q1 IH | isor l IHl r IHr | p | p op v]; intros acc; cbn [pquery_acc pquery_plain].
  - rewrite IH. rewrite <- !app_assoc. reflexivity.
  - rewrite IHl, IHr. unfold sp. rewrite <- !app_assoc. reflexivity.
  - rewrite <- !app_assoc. reflexivity.
  - rewrite <- !app_assoc. reflexivity.
Qed.

Theorem pquery_is_plain : forall q, pquery q = pquery_plain q.
Proof. intros q. unfold pquery. rewrite pquery_acc_spec. apply app_nil_r. Qed.

Print Assumptions hex_bytes_roundtrip.
Print Assumptions pquery_is_plain.
