(* OpsProps.v — the typed operation tables (Ops.v) characterised operator by
   operator: which (operator, literal kind) pairs are unsupported (C06), what
   null/bool tests mean (C10), numeric / string / version relations (C03 C04
   C09), membership (C08), when a comparison is undecided (C16). *)
From Rules Require Import Ops ValuesProps FloatProofs.
Open Scope Z_scope.

(* the table of the C06 statement *)
Definition unsupported (t : optype) (op : cmpop) : bool :=
  match t, op with
  | (OpNull | OpBool), (EQ | NE) => false
  | (OpNull | OpBool), _ => true
  | (OpInt | OpFloat), (CO | SW | EW) => true
  | (OpInt | OpFloat), _ => false
  | OpString, _ => false
  | OpVersion, (CO | SW | EW | IN) => true
  | OpVersion, _ => false
  end.

Lemma int_cmp_err l r e : int_cmp l r = inr e -> e = EMissing \/ e = EInvalidOperand.
Proof.
  unfold int_cmp. destruct l; try (destruct (to_int_right r); intros [= <-]; auto; fail);
    cbn; try (intros [= <-]; auto; fail);
    destruct (to_int_right r); intros H; try discriminate; injection H as <-; auto.
Qed.

Lemma int_in_err l nums b e : int_in l nums = (b, Some e) -> e = EMissing \/ e = EInvalidOperand.
Proof.
  induction nums as [|n rest IH]; cbn; [discriminate|].
  destruct (int_cmp l (RInt n)) as [[[]|]|e'] eqn:E; try exact IH; try discriminate.
  intros [= _ <-]. eapply int_cmp_err; eassumption.
Qed.

Section WithLower.
Variable lower : bytes -> bytes.

Ltac crush :=
  repeat match goal with
         | |- context [match ?x with _ => _ end] => destruct x eqn:?
         | H : context [match ?x with _ => _ end] |- _ => destruct x eqn:?
         end; try congruence.

(* C06: ErrInvalidOperation exactly for the unsupported combinations, whatever the operands *)
Theorem op_invalid_iff t op l r :
  (exists b, op_apply lower t op l r = Ok (b, Some EInvalidOperation)) <-> unsupported t op = true.
Proof.
  split.
  - intros [b H]. destruct t, op; try reflexivity; exfalso; revert H; cbn;
      unfold null_apply, bool_apply, int_apply, float_apply, string_apply, version_apply, ret_ok, ret_err, rbind.
    all: try (crush; fail).
    all: try (destruct (int_cmp l r) as [c|e] eqn:E; intros [= _ H]; try discriminate;
              destruct (int_cmp_err _ _ _ E); congruence).
    + destruct r; try congruence. intros [= H]. destruct (int_in_err _ _ _ _ H); discriminate.
  - intros H. destruct t, op; try discriminate H; cbn; eexists; reflexivity.
Qed.

(* ---------- C10 ---------- *)
Lemma null_eq l : op_apply lower OpNull EQ l RNil = Ok (is_nil l, None).
Proof. reflexivity. Qed.
Lemma null_ne l : op_apply lower OpNull NE l RNil = Ok (negb (is_nil l), None).
Proof. reflexivity. Qed.

Lemma bool_eq_verdict l b :
  fst (match op_apply lower OpBool EQ l (RBool b) with Ok x => x | Panic => (false, None) end)
  = match l with GBool lb => Bool.eqb lb b | _ => false end.
Proof. destruct l; reflexivity. Qed.
Lemma bool_ne_verdict l b :
  fst (match op_apply lower OpBool NE l (RBool b) with Ok x => x | Panic => (false, None) end)
  = match l with GBool lb => negb (Bool.eqb lb b) | _ => false end.
Proof. destruct l; reflexivity. Qed.
Lemma bool_never_fails op l b :
  (op = EQ \/ op = NE) -> exists v e, op_apply lower OpBool op l (RBool b) = Ok (v, e) /\ e <> Some EInvalidOperation.
Proof. intros [-> | ->]; destruct l; cbn; eexists _, _; split; try reflexivity; discriminate. Qed.

(* ---------- relational verdicts ---------- *)
Lemma rel_holds_trichotomy c :
  (rel_holds LT (Some c) = true /\ rel_holds EQ (Some c) = false /\ rel_holds GT (Some c) = false) \/
  (rel_holds LT (Some c) = false /\ rel_holds EQ (Some c) = true /\ rel_holds GT (Some c) = false) \/
  (rel_holds LT (Some c) = false /\ rel_holds EQ (Some c) = false /\ rel_holds GT (Some c) = true).
Proof. destruct c; cbn; tauto. Qed.

Lemma rel_holds_derived c :
  rel_holds NE (Some c) = negb (rel_holds EQ (Some c)) /\
  rel_holds LE (Some c) = (rel_holds LT (Some c) || rel_holds EQ (Some c))%bool /\
  rel_holds GE (Some c) = (rel_holds GT (Some c) || rel_holds EQ (Some c))%bool.
Proof. destruct c; cbn; tauto. Qed.

Lemma rel_holds_unordered op : is_relational op = true -> rel_holds op None = match op with NE => true | _ => false end.
Proof. destruct op; reflexivity. Qed.

(* ---------- C03: integer literal ---------- *)
Definition is_rel (op : cmpop) : Prop := is_relational op = true.

Lemma int_apply_int op z n :
  is_rel op ->
  (forall l, (l = GInt z \/ l = GInt32 z \/ l = GInt64 z) ->
     op_apply lower OpInt op l (RInt n) = Ok (rel_holds op (Some (Z.compare z n)), None)).
Proof. intros Hop l [-> | [-> | ->]]; destruct op; try discriminate Hop; reflexivity. Qed.

Lemma int_apply_float op f n :
  is_rel op -> min_int64 <= n <= max_int64 ->
  op_apply lower OpInt op (GF64 f) (RInt n) = Ok (rel_holds op (f64_compare_Z f n), None).
Proof.
  intros Hop Hn. rewrite <- (compare_float_to_int_exact f n Hn).
  destruct op; try discriminate Hop; reflexivity.
Qed.

Lemma float_apply_float op f d :
  is_rel op -> op_apply lower OpFloat op (GF64 f) (RF64 d) = Ok (rel_holds op (f64_compare f d), None).
Proof. intros Hop; destruct op; try discriminate Hop; reflexivity. Qed.

Lemma float_apply_int op z d :
  is_rel op -> op_apply lower OpFloat op (GInt z) (RF64 d) = Ok (rel_holds op (f64_compare (f64_of_Z z) d), None).
Proof. intros Hop; destruct op; try discriminate Hop; reflexivity. Qed.

(* non-numeric attribute: all six false, no failure *)
Definition non_numeric (l : gval) : Prop :=
  match l with GInt _ | GInt32 _ | GInt64 _ | GF64 _ => False | _ => True end.

Lemma int_apply_non_numeric op l n :
  is_rel op -> non_numeric l -> exists e, op_apply lower OpInt op l (RInt n) = Ok (false, Some e) /\ e <> EInvalidOperation.
Proof.
  intros Hop Hl. destruct op; try discriminate Hop; destruct l; try contradiction; cbn;
    eexists; split; try reflexivity; discriminate.
Qed.

Lemma float_apply_non_numeric op l d :
  is_rel op -> non_numeric l -> exists e, op_apply lower OpFloat op l (RF64 d) = Ok (false, Some e) /\ e <> EInvalidOperation.
Proof.
  intros Hop Hl. destruct op; try discriminate Hop; destruct l; try contradiction; cbn;
    eexists; split; try reflexivity; discriminate.
Qed.

(* NaN: unequal to everything and unordered *)
Lemma nan_int op n : is_rel op -> op_apply lower OpInt op (GF64 FNaN) (RInt n) = Ok (match op with NE => true | _ => false end, None).
Proof. intros Hop; destruct op; try discriminate Hop; reflexivity. Qed.
Lemma nan_float op d : is_rel op -> op_apply lower OpFloat op (GF64 FNaN) (RF64 d) = Ok (match op with NE => true | _ => false end, None).
Proof. intros Hop; destruct op; try discriminate Hop; reflexivity. Qed.

(* ---------- C04: strings ---------- *)
Definition string_of (l : gval) : option bytes :=
  match l with GStr s => Some s | GStringer (Some s) => Some s | _ => None end.

Lemma string_apply_string op l a v :
  op <> IN -> string_of l = Some a ->
  op_apply lower OpString op l (RStr v) = Ok (string_rel op (lower a) (lower v), None).
Proof.
  intros Hop Hs. destruct l as [| | | | | |s|[s|]| |]; try discriminate Hs; injection Hs as ->;
    destruct op; try congruence; reflexivity.
Qed.

Lemma string_rel_spec a b :
  string_rel EQ a b = (match bytes_compare a b with Eq => true | _ => false end) /\
  string_rel NE a b = (match bytes_compare a b with Eq => false | _ => true end) /\
  string_rel LT a b = (match bytes_compare a b with Lt => true | _ => false end) /\
  string_rel GT a b = (match bytes_compare a b with Gt => true | _ => false end) /\
  string_rel LE a b = (match bytes_compare a b with Gt => false | _ => true end) /\
  string_rel GE a b = (match bytes_compare a b with Lt => false | _ => true end) /\
  string_rel CO a b = contains a b /\ string_rel SW a b = is_prefix b a /\ string_rel EW a b = is_suffix b a.
Proof. cbn. destruct (bytes_compare a b); repeat split. Qed.

Lemma string_apply_non_string op l v :
  op <> IN -> string_of l = None -> l <> GStringer None ->
  exists e, op_apply lower OpString op l (RStr v) = Ok (false, Some e) /\ e <> EInvalidOperation.
Proof.
  intros Hop Hs Hp. destruct l as [| | | | | |s|[s|]| |]; try discriminate Hs; try congruence;
    destruct op; try congruence; cbn; eexists; split; try reflexivity; discriminate.
Qed.

(* ---------- C09: versions ---------- *)
Lemma version_apply_valid op a b va vb :
  is_rel op -> sv_parse a = Some va -> sv_parse b = Some vb ->
  op_apply lower OpVersion op (GStr a) (RStr b) = Ok (rel_holds op (Some (sv_compare va vb)), None).
Proof. intros Hop Ha Hb. destruct op; try discriminate Hop; cbn; rewrite Ha, Hb; reflexivity. Qed.

Lemma version_apply_other op l b :
  is_rel op -> (match l with GStr a => sv_parse a = None | _ => True end) ->
  exists e, op_apply lower OpVersion op l (RStr b) = Ok (false, Some e) /\ e <> EInvalidOperation.
Proof.
  intros Hop Hl. destruct op; try discriminate Hop; destruct l; cbn; try rewrite Hl;
    eexists; split; try reflexivity; discriminate.
Qed.

(* ---------- C08: membership is the equality of EQ ---------- *)
Lemma int_in_is_exists_eq l nums :
  fst (int_in l nums) = existsb (fun n => fst (match op_apply lower OpInt EQ l (RInt n) with Ok x => x | Panic => (false, None) end)) nums.
Proof.
  induction nums as [|n rest IH]; [reflexivity|]. cbn [int_in existsb]. cbn [op_apply int_apply].
  destruct (int_cmp l (RInt n)) as [[[]|]|e] eqn:E; cbn.
  - reflexivity.
  - exact IH.
  - exact IH.
  - exact IH.
  - (* an operand error does not depend on the element: every later EQ errs as well *)
    clear IH. induction rest as [|m rest IH]; [reflexivity|]. cbn [existsb]. rewrite <- IH.
    cbn [op_apply int_apply]. unfold int_cmp in *. destruct l; cbn in *; try discriminate; reflexivity.
Qed.

Lemma string_in_is_exists_eq l vals a :
  string_of l = Some a ->
  op_apply lower OpString IN l (RStrs vals) = Ok (existsb (fun v => bytes_eqb (lower a) (lower v)) vals, None).
Proof. intros Hs. destruct l as [| | | | | |s|[s|]| |]; try discriminate Hs; injection Hs as ->; reflexivity. Qed.

End WithLower.
