(* Extract.v — extraction of the executable model.  ExtrOcamlBasic only (bool,
   option, list, prod, unit, sumbool as OCaml's); N, Z, positive, nat stay the
   extracted inductive types.  No Extract Constant / Extract Inductive of ours. *)
From Rules Require Import Runner.
Require Extraction.
Require Import ExtrOcamlBasic.
Extraction Language OCaml.
Extraction "model.ml" run_line.
