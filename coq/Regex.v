(* Regex.v — regular expressions over code-point range sets, Brzozowski
   derivatives, longest-prefix matching.  This is the semantics of ANTLR lexer
   rules (without actions, modes or predicates — the grammar has none).
   Definitions only; lemmas in RegexProofs.v. *)
From Rules Require Export Base.
Open Scope N_scope.

Inductive re :=
| Emp                                   (* matches nothing *)
| Eps                                   (* matches the empty text *)
| Cls (rs : list (N * N))               (* one code point in a union of inclusive ranges *)
| Cat (a b : re)
| Alt (a b : re)
| Star (a : re).

Fixpoint in_ranges (c : N) (rs : list (N * N)) : bool :=
  match rs with
  | [] => false
  | (lo, hi) :: r => ((lo <=? c) && (c <=? hi)) || in_ranges c r
  end.

Fixpoint nullable (r : re) : bool :=
  match r with
  | Emp => false
  | Eps => true
  | Cls _ => false
  | Cat a b => nullable a && nullable b
  | Alt a b => nullable a || nullable b
  | Star _ => true
  end.

(* smart constructors: keep derivatives small and dead expressions = Emp *)
Definition cat (a b : re) : re :=
  match a, b with
  | Emp, _ => Emp
  | _, Emp => Emp
  | Eps, _ => b
  | _, Eps => a
  | _, _ => Cat a b
  end.

Definition alt (a b : re) : re :=
  match a, b with
  | Emp, _ => b
  | _, Emp => a
  | _, _ => Alt a b
  end.

Fixpoint deriv (c : N) (r : re) : re :=
  match r with
  | Emp => Emp
  | Eps => Emp
  | Cls rs => if in_ranges c rs then Eps else Emp
  | Cat a b => if nullable a then alt (cat (deriv c a) b) (deriv c b) else cat (deriv c a) b
  | Alt a b => alt (deriv c a) (deriv c b)
  | Star a => cat (deriv c a) (Star a)
  end.

Definition is_emp (r : re) : bool := match r with Emp => true | _ => false end.

(* [longest r s n best]: r is the derivative of the rule by the n code points
   already consumed; best = length of the longest matching prefix seen so far.
   Result: length of the longest prefix of the original text matched. *)
Fixpoint longest (r : re) (s : text) (n : nat) (best : option nat) : option nat :=
  let best' := if nullable r then Some n else best in
  match s with
  | [] => best'
  | c :: s' => if is_emp r then best' else longest (deriv c r) s' (S n) best'
  end.

Definition longest_match (r : re) (s : text) : option nat := longest r s 0%nat None.

(* ---------- helpers used by the generated grammar data ---------- *)
Definition chr (c : N) : re := Cls [(c, c)].
Fixpoint lit (t : text) : re :=
  match t with
  | [] => Eps
  | c :: t' => Cat (chr c) (lit t')
  end.
Definition opt (r : re) : re := Alt r Eps.
Definition plus (r : re) : re := Cat r (Star r).
Fixpoint alts (l : list re) : re :=
  match l with
  | [] => Emp
  | [r] => r
  | r :: l' => Alt r (alts l')
  end.
Fixpoint cats (l : list re) : re :=
  match l with
  | [] => Eps
  | [r] => r
  | r :: l' => Cat r (cats l')
  end.

(* complement of a range set within [0, 0x10FFFF]; rs must be sorted and disjoint *)
Fixpoint compl_from (lo : N) (rs : list (N * N)) : list (N * N) :=
  match rs with
  | [] => if lo <=? 1114111 then [(lo, 1114111)] else []
  | (a, b) :: r => (if lo <? a then [(lo, a - 1)] else []) ++ compl_from (b + 1) r
  end.
Definition compl (rs : list (N * N)) : list (N * N) := compl_from 0 rs.
