(* GrammarProofs.v — the parser model accepts exactly the sentences of the parser
   rules of JsonQuery.g4 (as generated into GrammarGen.g4_parser_rules):
     parse_tokens ts <> None  <->  sentence g4_parser_rules N_query ts          *)
From Rules Require Import Tokens GrammarGen Grammar Syntax Layout ParserProofs.
From Coq Require Import String.
Open Scope N_scope.

Notation G := g4_parser_rules.
Notation D := (dsym G).

Definition alts_of (n : ntname) : list (string * list sym) :=
  match find (fun e => match fst e, n with
                       | N_query, N_query | N_attrPath, N_attrPath | N_subAttr, N_subAttr | N_value, N_value
                       | N_listStrings, N_listStrings | N_subListOfStrings, N_subListOfStrings
                       | N_listDoubles, N_listDoubles | N_subListOfDoubles, N_subListOfDoubles
                       | N_listInts, N_listInts | N_subListOfInts, N_subListOfInts => true
                       | _, _ => false end) G with
  | Some e => snd e
  | None => []
  end.

Lemma alts_in n : In (n, alts_of n) G.
Proof. destruct n; cbn; tauto. Qed.

Lemma dseq_parts ss parts : Forall2 D ss parts -> dseq G ss (List.concat parts).
Proof. induction 1; cbn; constructor; assumption. Qed.

Lemma dnt n (a : string * list sym) parts ts :
  In a (alts_of n) -> Forall2 D (snd a) parts -> ts = List.concat parts -> D (NT n) ts.
Proof. destruct a as [lab body]. intros Hin Hf ->. eapply DNT; [apply alts_in|exact Hin|apply dseq_parts; exact Hf]. Qed.

(* the alternatives, by name *)
Definition a_paren := ("parenExp"%string, [Opt (T K_NOT); Opt (T K_SP); T K_LP; Opt (T K_SP); NT N_query; Opt (T K_SP); T K_RP]).
Definition a_logical := ("logicalExp"%string, [NT N_query; T K_SP; T K_LOGICAL_OPERATOR; T K_SP; NT N_query]).
Definition a_present := ("presentExp"%string, [NT N_attrPath; T K_SP; T K_PR]).
Definition a_compare := ("compareExp"%string, [NT N_attrPath; T K_SP; TSet [K_EQ; K_NE; K_GT; K_LT; K_GE; K_LE; K_CO; K_SW; K_EW; K_IN]; T K_SP; NT N_value]).
Definition a_path := (""%string, [T K_ATTRNAME; Opt (NT N_subAttr)]).
Definition a_sub := (""%string, [T K_DOT; NT N_attrPath]).
Definition a_tok (lab : string) (k : tkind) := (lab, [T k]).
Definition a_long := ("long"%string, [Opt (T K_MINUS); T K_INT; Opt (T K_EXP)]).
Definition a_wrap (lab : string) (n : ntname) := (lab, [NT n]).
Definition a_list (n : ntname) := (""%string, [T K_LB; NT n]).
Definition a_more (k : tkind) (n : ntname) := (""%string, [T k; T K_COMMA; NT n]).
Definition a_last (k : tkind) := (""%string, [T k; T K_RB]).

Ltac alt := cbn; tauto.
Ltac parts := repeat first [apply Forall2_nil | apply Forall2_cons].
Ltac cat := cbn [List.concat app]; rewrite ?app_nil_r; reflexivity.

(* ================= soundness: what the parser accepts is derivable ================= *)
Lemma sound_path : forall ts p rest, parse_path ts = Some (p, rest) ->
  exists pre, ts = pre ++ rest /\ D (NT N_attrPath) pre.
Proof.
  fix IH 1. intros ts p rest. destruct ts as [|[k n] r]; [discriminate|].
  destruct k; try discriminate. cbn [parse_path].
  destruct r as [|[k2 t2] r2].
  - intros [= <- <-]. exists [(K_ATTRNAME, n)]. split; [reflexivity|].
    eapply (dnt N_attrPath a_path [[(K_ATTRNAME, n)]; []]); [alt|parts; constructor|cat].
  - destruct k2; try (intros [= <- <-]; exists [(K_ATTRNAME, n)]; split; [reflexivity|];
      eapply (dnt N_attrPath a_path [[(K_ATTRNAME, n)]; []]); [alt|parts; constructor|cat]).
    destruct (parse_path r2) as [[p2 rest2]|] eqn:E; [|discriminate]. intros [= <- <-].
    destruct (IH r2 p2 rest2 E) as (pre & -> & Hd).
    exists ((K_ATTRNAME, n) :: (K_DOT, t2) :: pre). split; [reflexivity|].
    eapply (dnt N_attrPath a_path [[(K_ATTRNAME, n)]; (K_DOT, t2) :: pre]); [alt|parts|cat].
    + constructor.
    + apply DOptS. eapply (dnt N_subAttr a_sub [[(K_DOT, t2)]; pre]); [alt|parts; [constructor|exact Hd]|cat].
Qed.

Definition sub_nt (k : tkind) : ntname :=
  match k with K_INT => N_subListOfInts | K_DOUBLE => N_subListOfDoubles | _ => N_subListOfStrings end.

Lemma sound_sublist_gen k nt :
  In (a_more k nt) (alts_of nt) -> In (a_last k) (alts_of nt) ->
  forall ts l rest, parse_sublist k ts = Some (l, rest) -> exists pre, ts = pre ++ rest /\ D (NT nt) pre.
Proof.
  intros A1 A2. fix IH 1. intros ts l rest. destruct ts as [|[k' t] r]; [discriminate|]. cbn [parse_sublist].
  unfold tkind_eqb. destruct (tkind_eq_dec k k') as [<-|]; [|discriminate].
  destruct r as [|[k2 t2] r2]; [discriminate|].
  destruct k2; try discriminate.
  - intros [= <- <-]. exists [(k, t); (K_RB, t2)]. split; [reflexivity|].
    eapply (dnt nt (a_last k) [[(k, t)]; [(K_RB, t2)]]); [exact A2|parts; constructor|cat].
  - destruct (parse_sublist k r2) as [[l2 rest2]|] eqn:E; [|discriminate]. intros [= <- <-].
    destruct (IH r2 l2 rest2 E) as (pre & -> & Hd).
    exists ((k, t) :: (K_COMMA, t2) :: pre). split; [reflexivity|].
    eapply (dnt nt (a_more k nt) [[(k, t)]; [(K_COMMA, t2)]; pre]); [exact A1|parts; [constructor|constructor|exact Hd]|cat].
Qed.

Lemma sound_sublist k : (k = K_INT \/ k = K_DOUBLE \/ k = K_STRING) ->
  forall ts l rest, parse_sublist k ts = Some (l, rest) -> exists pre, ts = pre ++ rest /\ D (NT (sub_nt k)) pre.
Proof. intros [-> | [-> | ->]]; apply sound_sublist_gen; alt. Qed.

Lemma sound_long neg ts v rest (m : list tok) :
  (neg = true -> exists t, m = [(K_MINUS, t)]) -> (neg = false -> m = []) ->
  parse_long neg ts = Some (v, rest) -> exists pre, ts = pre ++ rest /\ D (NT N_value) (m ++ pre).
Proof.
  intros Hm1 Hm2. unfold parse_long.
  assert (Hmd : D (Opt (T K_MINUS)) m).
  { destruct neg; [destruct (Hm1 eq_refl) as [t ->]; apply DOptS; constructor|rewrite (Hm2 eq_refl); apply DOptN]. }
  destruct ts as [|[k i] r]; [discriminate|]. destruct k; try discriminate.
  destruct r as [|[k2 e] r2].
  - intros [= <- <-]. exists [(K_INT, i)]. split; [reflexivity|].
    eapply (dnt N_value a_long [m; [(K_INT, i)]; []]); [alt|parts; [exact Hmd|constructor|apply DOptN]|cat].
  - destruct k2; try (intros [= <- <-]; exists [(K_INT, i)]; split; [reflexivity|];
      eapply (dnt N_value a_long [m; [(K_INT, i)]; []]); [alt|parts; [exact Hmd|constructor|apply DOptN]|cat]).
    intros [= <- <-]. exists [(K_INT, i); (K_EXP, e)]. split; [reflexivity|].
    eapply (dnt N_value a_long [m; [(K_INT, i)]; [(K_EXP, e)]]); [alt|parts; [exact Hmd|constructor|apply DOptS; constructor]|cat].
Qed.

Lemma parse_value_lb_string t t2 r2 : parse_value ((K_LB, t) :: (K_STRING, t2) :: r2) =
  match parse_sublist K_STRING ((K_STRING, t2) :: r2) with Some (l, rest) => Some (VListStrings l, rest) | None => None end.
Proof. reflexivity. Qed.
Lemma parse_value_lb_double t t2 r2 : parse_value ((K_LB, t) :: (K_DOUBLE, t2) :: r2) =
  match parse_sublist K_DOUBLE ((K_DOUBLE, t2) :: r2) with Some (l, rest) => Some (VListDoubles l, rest) | None => None end.
Proof. reflexivity. Qed.
Lemma parse_value_lb_int t t2 r2 : parse_value ((K_LB, t) :: (K_INT, t2) :: r2) =
  match parse_sublist K_INT ((K_INT, t2) :: r2) with Some (l, rest) => Some (VListInts l, rest) | None => None end.
Proof. reflexivity. Qed.

Lemma sound_value ts v rest : parse_value ts = Some (v, rest) -> exists pre, ts = pre ++ rest /\ D (NT N_value) pre.
Proof.
  destruct ts as [|[k t] r]; [discriminate|]. destruct k; try (cbn [parse_value]; discriminate).
  - (* MINUS *)
    cbn [parse_value].
    intros H. destruct (sound_long true r v rest [(K_MINUS, t)]) as (pre & -> & Hd); [eauto|discriminate|exact H|].
    exists ((K_MINUS, t) :: pre). split; [reflexivity|exact Hd].
  - (* LB *)
    destruct r as [|[k2 t2] r2]; [discriminate|]. destruct k2; try (cbn [parse_value]; discriminate).
    + rewrite parse_value_lb_string. destruct (parse_sublist K_STRING ((K_STRING, t2) :: r2)) as [[l rest2]|] eqn:E; [|discriminate]. intros [= <- <-].
      destruct (sound_sublist K_STRING ltac:(auto) _ _ _ E) as (pre & Ep & Hd).
      exists ((K_LB, t) :: pre). split; [cbn [app]; f_equal; exact Ep|].
      eapply (dnt N_value (a_wrap "listOfStrings" N_listStrings) [(K_LB, t) :: pre]); [alt|parts|cat].
      eapply (dnt N_listStrings (a_list N_subListOfStrings) [[(K_LB, t)]; pre]); [alt|parts; [constructor|exact Hd]|cat].
    + rewrite parse_value_lb_double. destruct (parse_sublist K_DOUBLE ((K_DOUBLE, t2) :: r2)) as [[l rest2]|] eqn:E; [|discriminate]. intros [= <- <-].
      destruct (sound_sublist K_DOUBLE ltac:(auto) _ _ _ E) as (pre & Ep & Hd).
      exists ((K_LB, t) :: pre). split; [cbn [app]; f_equal; exact Ep|].
      eapply (dnt N_value (a_wrap "listOfDoubles" N_listDoubles) [(K_LB, t) :: pre]); [alt|parts|cat].
      eapply (dnt N_listDoubles (a_list N_subListOfDoubles) [[(K_LB, t)]; pre]); [alt|parts; [constructor|exact Hd]|cat].
    + rewrite parse_value_lb_int. destruct (parse_sublist K_INT ((K_INT, t2) :: r2)) as [[l rest2]|] eqn:E; [|discriminate]. intros [= <- <-].
      destruct (sound_sublist K_INT ltac:(auto) _ _ _ E) as (pre & Ep & Hd).
      exists ((K_LB, t) :: pre). split; [cbn [app]; f_equal; exact Ep|].
      eapply (dnt N_value (a_wrap "listOfInts" N_listInts) [(K_LB, t) :: pre]); [alt|parts|cat].
      eapply (dnt N_listInts (a_list N_subListOfInts) [[(K_LB, t)]; pre]); [alt|parts; [constructor|exact Hd]|cat].
  - cbn [parse_value]. intros [= <- <-]. exists [(K_BOOLEAN, t)]. split; [reflexivity|]. eapply (dnt N_value (a_tok "boolean" K_BOOLEAN) [[(K_BOOLEAN, t)]]); [alt|parts; constructor|cat].
  - cbn [parse_value]. intros [= <- <-]. exists [(K_NULL, t)]. split; [reflexivity|]. eapply (dnt N_value (a_tok "null" K_NULL) [[(K_NULL, t)]]); [alt|parts; constructor|cat].
  - cbn [parse_value]. intros [= <- <-]. exists [(K_VERSION, t)]. split; [reflexivity|]. eapply (dnt N_value (a_tok "version" K_VERSION) [[(K_VERSION, t)]]); [alt|parts; constructor|cat].
  - cbn [parse_value]. intros [= <- <-]. exists [(K_STRING, t)]. split; [reflexivity|]. eapply (dnt N_value (a_tok "string" K_STRING) [[(K_STRING, t)]]); [alt|parts; constructor|cat].
  - cbn [parse_value]. intros [= <- <-]. exists [(K_DOUBLE, t)]. split; [reflexivity|]. eapply (dnt N_value (a_tok "double" K_DOUBLE) [[(K_DOUBLE, t)]]); [alt|parts; constructor|cat].
  - (* INT *)
    cbn [parse_value]. intros H. destruct (sound_long false ((K_INT, t) :: r) v rest []) as (pre & Ep & Hd); [discriminate|reflexivity|exact H|].
    exists pre. split; [exact Ep|exact Hd].
Qed.

Lemma cmpop_of_in k op : cmpop_of k = Some op -> In k [K_EQ; K_NE; K_GT; K_LT; K_GE; K_LE; K_CO; K_SW; K_EW; K_IN].
Proof. destruct k; cbn; intros H; try discriminate; tauto. Qed.

Lemma sound_leaf ts q rest : parse_leaf ts = Some (q, rest) -> exists pre, ts = pre ++ rest /\ D (NT N_query) pre.
Proof.
  unfold parse_leaf. destruct (parse_path ts) as [[p r]|] eqn:Ep; [|discriminate].
  destruct (sound_path _ _ _ Ep) as (pp & -> & Hp).
  destruct r as [|[k1 t1] r1]; [discriminate|]. destruct k1; try discriminate.
  destruct r1 as [|[k2 t2] r2]; [discriminate|].
  destruct (tkind_eq_dec k2 K_PR) as [->|Hne].
  - intros [= <- <-]. exists (pp ++ [(K_SP, t1); (K_PR, t2)]). split; [rewrite <- app_assoc; reflexivity|].
    eapply (dnt N_query a_present [pp; [(K_SP, t1)]; [(K_PR, t2)]]); [alt|parts; [exact Hp|constructor|constructor]|cat].
  - assert (Hgo : match r2 with
                  | (K_SP, _) :: rest0 =>
                      match cmpop_of k2 with
                      | Some op => match parse_value rest0 with Some (v, rest') => Some (QCompare p op v, rest') | None => None end
                      | None => None
                      end
                  | _ => None
                  end = Some (q, rest) -> exists pre, pp ++ (K_SP, t1) :: (k2, t2) :: r2 = pre ++ rest /\ D (NT N_query) pre).
    { destruct r2 as [|[k3 t3] r3]; [discriminate|]. destruct k3; try discriminate.
      destruct (cmpop_of k2) as [op|] eqn:Eo; [|discriminate].
      destruct (parse_value r3) as [[v rest']|] eqn:Ev; [|discriminate]. intros [= <- <-].
      destruct (sound_value _ _ _ Ev) as (pv & -> & Hv).
      exists (pp ++ [(K_SP, t1); (k2, t2); (K_SP, t3)] ++ pv). split; [rewrite <- !app_assoc; reflexivity|].
      eapply (dnt N_query a_compare [pp; [(K_SP, t1)]; [(k2, t2)]; [(K_SP, t3)]; pv]); [alt|parts|cat].
      - exact Hp.
      - constructor.
      - apply DSet. eapply cmpop_of_in; exact Eo.
      - constructor.
      - exact Hv. }
    destruct k2; try congruence; exact Hgo.
Qed.

Definition rec_sound (rec : list tok -> option (query * list tok)) : Prop :=
  forall ts q rest, rec ts = Some (q, rest) -> exists pre, ts = pre ++ rest /\ D (NT N_query) pre.

Lemma skip_sp_split ts : exists m, ts = m ++ skip_sp ts /\ D (Opt (T K_SP)) m.
Proof.
  destruct ts as [|[k t] r]; [exists []; split; [reflexivity|apply DOptN]|].
  destruct k; try (exists []; split; [reflexivity|apply DOptN]).
  exists [(K_SP, t)]. split; [reflexivity|apply DOptS; constructor].
Qed.

Lemma sound_prim rec ts q rest : rec_sound rec -> prim rec ts = Some (q, rest) ->
  exists pre, ts = pre ++ rest /\ D (NT N_query) pre.
Proof.
  intros Hrec. unfold prim.
  assert (Hparen : forall (mnot : list tok) ts1, D (Opt (T K_NOT)) mnot ->
            match skip_sp ts1 with
            | (K_LP, _) :: r => match rec (skip_sp r) with
                                | Some (q0, rest0) => match skip_sp rest0 with
                                                     | (K_RP, _) :: rest' => Some (QParen (match mnot with [] => false | _ => true end) q0, rest')
                                                     | _ => None end
                                | None => None end
            | _ => None
            end = Some (q, rest) -> exists pre, mnot ++ ts1 = pre ++ rest /\ D (NT N_query) pre).
  { intros mnot ts1 Hnot. destruct (skip_sp_split ts1) as (m0 & E0 & H0).
    remember (skip_sp ts1) as s1 eqn:Es1. clear Es1. subst ts1.
    destruct s1 as [|[k tl] r]; [discriminate|]. destruct k; try discriminate.
    destruct (skip_sp_split r) as (m1 & E1 & H1).
    destruct (rec (skip_sp r)) as [[q0 rest0]|] eqn:Er; [|discriminate].
    destruct (Hrec _ _ _ Er) as (pq & Epq & Hq).
    destruct (skip_sp_split rest0) as (m2 & E2 & H2).
    destruct (skip_sp rest0) as [|[k3 t3] rest']; [discriminate|]. destruct k3; try discriminate.
    intros [= <- <-].
    exists (mnot ++ m0 ++ [(K_LP, tl)] ++ m1 ++ pq ++ m2 ++ [(K_RP, t3)]). split.
    - rewrite E1, Epq, E2. rewrite <- !app_assoc. reflexivity.
    - eapply (dnt N_query a_paren [mnot; m0; [(K_LP, tl)]; m1; pq; m2; [(K_RP, t3)]]); [alt|parts|cat]; try assumption; constructor. }
  destruct ts as [|[k t] r].
  - intros H. destruct (Hparen [] [] (DOptN _ _) H) as (pre & E & Hd). exists pre. split; assumption.
  - destruct k;
      try (match goal with |- _ -> exists pre, ?ts = _ /\ _ =>
             intros H; destruct (Hparen [] ts (DOptN _ _) H) as (pre & E & Hd); exists pre; split; assumption end).
    + (* NOT *)
      intros H. destruct (Hparen [(K_NOT, t)] r (DOptS _ _ _ (DT _ _ _)) H) as (pre & E & Hd). exists pre. split; assumption.
    + (* ATTRNAME *) apply sound_leaf.
Qed.

Lemma loop_cases rec n acc ts :
  (exists t1 t2 t3 r, ts = (K_SP, t1) :: (K_LOGICAL_OPERATOR, t2) :: (K_SP, t3) :: r) \/ loop rec n acc ts = Some (acc, ts).
Proof.
  destruct ts as [|[[] t1] ts2]; try (right; destruct n; reflexivity).
  destruct ts2 as [|[[] t2] ts3]; try (right; destruct n; reflexivity).
  destruct ts3 as [|[[] t3] r]; try (right; destruct n; reflexivity).
  left. eauto.
Qed.

Lemma sound_loop rec : rec_sound rec -> forall n acc ts q rest pacc,
  D (NT N_query) pacc -> loop rec n acc ts = Some (q, rest) ->
  exists pre, ts = pre ++ rest /\ D (NT N_query) (pacc ++ pre).
Proof.
  intros Hrec. induction n as [|n IH]; intros acc ts q rest pacc Hacc;
    [destruct (loop_cases rec 0 acc ts) as [(t1 & t2 & t3 & r & ->)|E]
    |destruct (loop_cases rec (S n) acc ts) as [(t1 & t2 & t3 & r & ->)|E]].
  - discriminate.
  - rewrite E. intros [= <- <-]. exists []. rewrite app_nil_r. split; [reflexivity|exact Hacc].
  - cbn [loop].
    destruct (prim rec r) as [[qp restp]|] eqn:Ep; [|discriminate].
    destruct (sound_prim rec _ _ _ Hrec Ep) as (pp & -> & Hp).
    intros H.
    assert (Hacc' : D (NT N_query) (pacc ++ [(K_SP, t1); (K_LOGICAL_OPERATOR, t2); (K_SP, t3)] ++ pp)).
    { eapply (dnt N_query a_logical [pacc; [(K_SP, t1)]; [(K_LOGICAL_OPERATOR, t2)]; [(K_SP, t3)]; pp]); [alt|parts|cat]; try assumption; constructor. }
    destruct (IH _ _ _ _ _ Hacc' H) as (pre & -> & Hd).
    exists ([(K_SP, t1); (K_LOGICAL_OPERATOR, t2); (K_SP, t3)] ++ pp ++ pre). split; [cbn [app]; rewrite <- ?app_assoc; reflexivity|].
    rewrite <- ?app_assoc in Hd. cbn [app] in Hd |- *. exact Hd.
  - rewrite E. intros [= <- <-]. exists []. rewrite app_nil_r. split; [reflexivity|exact Hacc].
Qed.

Lemma sound_query fuel : rec_sound (parse_query fuel).
Proof.
  induction fuel as [|f IH]; intros ts q rest; cbn [parse_query]; [discriminate|].
  destruct (prim (parse_query f) ts) as [[q0 rest0]|] eqn:Ep; [|discriminate].
  destruct (sound_prim _ _ _ _ IH Ep) as (pp & -> & Hp). intros H.
  destruct (sound_loop _ IH _ _ _ _ _ pp Hp H) as (pre & -> & Hd).
  exists (pp ++ pre). split; [rewrite app_assoc; reflexivity|exact Hd].
Qed.

(* derivations only look at token kinds *)
Lemma norm_kind t : fst (norm t) = fst t.
Proof. destruct t as [[] tx]; reflexivity. Qed.

Lemma dsym_kinds : forall s ts, D s ts -> forall ts', map fst ts' = map fst ts -> D s ts'.
Proof.
  apply (dsym_mut G (fun s ts _ => forall ts', map fst ts' = map fst ts -> D s ts')
                    (fun ss ts _ => forall ts', map fst ts' = map fst ts -> dseq G ss ts')).
  - intros k t ts' H. destruct ts' as [|[k' t'] [|x r]]; try discriminate. cbn in H. injection H as ->. constructor.
  - intros n alts lab body ts Hi Ha Hd IH ts' H. eapply DNT; eauto.
  - intros s ts' H. destruct ts'; [|discriminate]. apply DOptN.
  - intros s ts Hd IH ts' H. apply DOptS. apply IH. exact H.
  - intros ks k t Hin ts' H. destruct ts' as [|[k' t'] [|x r]]; try discriminate. cbn in H. injection H as ->. apply DSet. exact Hin.
  - intros ts' H. destruct ts'; [|discriminate]. constructor.
  - intros s ss a b Hs IHs Hss IHss ts' H.
    rewrite map_app in H.
    assert (Hsplit : ts' = firstn (List.length a) ts' ++ skipn (List.length a) ts') by (symmetry; apply firstn_skipn).
    rewrite Hsplit. constructor.
    + apply IHs. rewrite <- firstn_map, H. replace (List.length a) with (List.length (map fst a)) by apply map_length. rewrite firstn_app, Nat.sub_diag, firstn_O, app_nil_r.
      apply firstn_all.
    + apply IHss. rewrite <- skipn_map, H. replace (List.length a) with (List.length (map fst a)) by apply map_length. rewrite skipn_app, Nat.sub_diag, skipn_O.
      rewrite skipn_all. reflexivity.
Qed.

(* SOUNDNESS: every accepted token list is a sentence of the grammar *)
Theorem parse_sound ts q : parse_tokens ts = Some q -> sentence G N_query ts.
Proof.
  unfold parse_tokens, parse_core. intros H.
  destruct (parse_query (S (List.length (map norm ts))) (map norm ts)) as [[q0 rest]|] eqn:E; [|discriminate].
  destruct rest; [|discriminate].
  destruct (sound_query _ _ _ _ E) as (pre & Ep & Hd). rewrite app_nil_r in Ep. subst pre.
  unfold sentence. eapply dsym_kinds; [exact Hd|].
  rewrite map_map. apply map_ext. intros t. symmetry. apply norm_kind.
Qed.

(* ================= completeness: every sentence is accepted ================= *)
Lemma print_rest_app l1 l2 : print_rest (l1 ++ l2) = print_rest l1 ++ print_rest l2.
Proof. induction l1 as [|[o p] l IH]; [reflexivity|]. cbn [app print_rest]. rewrite IH, <- !app_assoc. reflexivity. Qed.

Lemma wf_rest_app l1 l2 : wf_rest l1 -> wf_rest l2 -> wf_rest (l1 ++ l2).
Proof. induction l1 as [|[o p] l IH]; cbn; [auto|]. intros [H1 H2] H3. split; auto. Qed.

(* what a derivation from each non-terminal means in terms of printed trees *)
Definition Pnt (n : ntname) (ts : list tok) : Prop :=
  match n with
  | N_query => exists c, wf_chain c /\ map norm ts = print_chain c
  | N_attrPath => exists p, p <> [] /\ map norm ts = print_path p
  | N_subAttr => exists p, p <> [] /\ map norm ts = tDOT :: print_path p
  | N_value => exists v, wf_value v /\ map norm ts = print_value v
  | N_listInts => exists l, l <> [] /\ map norm ts = tLB :: print_sublist K_INT l
  | N_listDoubles => exists l, l <> [] /\ map norm ts = tLB :: print_sublist K_DOUBLE l
  | N_listStrings => exists l, l <> [] /\ map norm ts = tLB :: print_sublist K_STRING l
  | N_subListOfInts => exists l, l <> [] /\ map norm ts = print_sublist K_INT l
  | N_subListOfDoubles => exists l, l <> [] /\ map norm ts = print_sublist K_DOUBLE l
  | N_subListOfStrings => exists l, l <> [] /\ map norm ts = print_sublist K_STRING l
  end.

Fixpoint Psym (s : sym) (ts : list tok) : Prop :=
  match s with
  | T k => exists t, ts = [(k, t)]
  | TSet ks => exists k t, In k ks /\ ts = [(k, t)]
  | Opt s' => ts = [] \/ Psym s' ts
  | NT n => Pnt n ts
  end.

Fixpoint Pseq (ss : list sym) (ts : list tok) : Prop :=
  match ss with
  | [] => ts = []
  | s :: ss' => exists a b, ts = a ++ b /\ Psym s a /\ Pseq ss' b
  end.

Lemma print_sublist_cons k x l : l <> [] -> print_sublist k (x :: l) = (k, x) :: tCOMMA :: print_sublist k l.
Proof. destruct l; [congruence|reflexivity]. Qed.

Lemma print_path_cons n p : p <> [] -> print_path (n :: p) = (K_ATTRNAME, n) :: tDOT :: print_path p.
Proof. destruct p; [congruence|reflexivity]. Qed.

Lemma op_kind_of k : In k [K_EQ; K_NE; K_GT; K_LT; K_GE; K_LE; K_CO; K_SW; K_EW; K_IN] -> exists op, op_kind op = k.
Proof.
  cbn. intros [<-|[<-|[<-|[<-|[<-|[<-|[<-|[<-|[<-|[<-|[]]]]]]]]]]];
    [exists EQ|exists NE|exists GT|exists LT|exists GE|exists LE|exists CO|exists SW|exists EW|exists IN]; reflexivity.
Qed.

Ltac fin := cbn [map app norm fst snd]; rewrite <- ?app_assoc, ?app_nil_r; cbn [app]; try reflexivity.

Ltac inv_seq H :=
  repeat match type of H with
         | Pseq (_ :: _) _ => let a := fresh "a" in let b := fresh "b" in let E := fresh "E" in let Ha := fresh "Ha" in
                              destruct H as (a & b & E & Ha & H); subst
         | Pseq [] _ => cbn in H; subst
         end.

Lemma complete_nt n lab body ts : In (n, alts_of n) G -> In (lab, body) (alts_of n) -> Pseq body ts -> Pnt n ts.
Proof.
  intros _ Hin Hs. destruct n; cbn in Hin.
  - (* query *)
    destruct Hin as [E|[E|[E|[E|[]]]]]; injection E as <- <-.
    + (* parenExp *)
      destruct Hs as (a0 & b0 & -> & H0 & Hs). destruct Hs as (a1 & b1 & -> & H1 & Hs).
      destruct Hs as (a2 & b2 & -> & (tl & ->) & Hs). destruct Hs as (a3 & b3 & -> & H3 & Hs).
      destruct Hs as (a4 & b4 & -> & (c & Hwc & Hc) & Hs). destruct Hs as (a5 & b5 & -> & H5 & Hs).
      destruct Hs as (a6 & b6 & -> & (tr & ->) & Hs). cbn in Hs. subst b6.
      assert (Hnot : forall a, (a = [] \/ exists t, a = [(K_NOT, t)]) -> exists b : bool, map norm a = if b then [tNOT] else [])
        by (intros a [->|[t ->]]; [exists false|exists true]; reflexivity).
      assert (Hsp : forall a, (a = [] \/ exists t, a = [(K_SP, t)]) -> exists b : bool, map norm a = osp b)
        by (intros a [->|[t ->]]; [exists false|exists true]; reflexivity).
      destruct (Hnot a0 H0) as [neg Hn]. destruct (Hsp a1 H1) as [sp0 Hp0].
      destruct (Hsp a3 H3) as [sp1 Hp1]. destruct (Hsp a5 H5) as [sp2 Hp2].
      exists (LChain (LParen neg sp0 sp1 sp2 c) []). split; [cbn; tauto|].
      rewrite print_chain_eq. cbn [print_rest print_prim]. rewrite app_nil_r, !map_app, Hn, Hp0, Hp1, Hp2, Hc.
      cbn [map app]. rewrite app_nil_r. reflexivity.
    + (* logicalExp *)
      destruct Hs as (a0 & b0 & -> & (c1 & Hw1 & Hc1) & Hs). destruct Hs as (a1 & b1 & -> & (t1 & ->) & Hs).
      destruct Hs as (a2 & b2 & -> & (t2 & ->) & Hs). destruct Hs as (a3 & b3 & -> & (t3 & ->) & Hs).
      destruct Hs as (a4 & b4 & -> & (c2 & Hw2 & Hc2) & Hs). cbn in Hs. subst b4.
      destruct c1 as [f1 r1], c2 as [f2 r2].
      exists (LChain f1 (r1 ++ (is_or t2, f2) :: r2)). split.
      * apply wf_chain_eq in Hw1, Hw2. apply wf_chain_eq. destruct Hw1, Hw2. split; [assumption|].
        apply wf_rest_app; [assumption|]. cbn. tauto.
      * rewrite print_chain_eq in *. rewrite print_rest_app. cbn [print_rest].
        rewrite !map_app, Hc1, Hc2. cbn [map app norm fst snd]. rewrite <- !app_assoc, ?app_nil_r. reflexivity.
    + (* presentExp *)
      destruct Hs as (a0 & b0 & -> & (p & Hp & Hpp) & Hs). destruct Hs as (a1 & b1 & -> & (t1 & ->) & Hs).
      destruct Hs as (a2 & b2 & -> & (t2 & ->) & Hs). cbn in Hs. subst b2.
      exists (LChain (LLeaf (QPresent p)) []). split; [cbn; tauto|].
      rewrite print_chain_eq. cbn [print_rest print_prim print_leaf]. rewrite !map_app, Hpp. fin.
    + (* compareExp *)
      destruct Hs as (a0 & b0 & -> & (p & Hp & Hpp) & Hs). destruct Hs as (a1 & b1 & -> & (t1 & ->) & Hs).
      destruct Hs as (a2 & b2 & -> & (k & t2 & Hk & ->) & Hs). destruct Hs as (a3 & b3 & -> & (t3 & ->) & Hs).
      destruct Hs as (a4 & b4 & -> & (v & Hv & Hvv) & Hs). cbn in Hs. subst b4.
      destruct (op_kind_of k Hk) as [op <-].
      exists (LChain (LLeaf (QCompare p op v)) []). split; [cbn; tauto|].
      rewrite print_chain_eq. cbn [print_rest print_prim print_leaf]. rewrite !map_app, Hpp, Hvv. fin.
      destruct op; reflexivity.
  - (* attrPath *)
    destruct Hin as [E|[]]; injection E as <- <-.
    destruct Hs as (a0 & b0 & -> & (n & ->) & Hs). destruct Hs as (a1 & b1 & -> & H1 & Hs). cbn in Hs. subst b1.
    destruct H1 as [->|(p & Hp & Hpp)].
    + exists [n]. split; [discriminate|reflexivity].
    + exists (n :: p). split; [discriminate|]. rewrite print_path_cons by exact Hp. cbn [map app]. rewrite app_nil_r, Hpp. reflexivity.
  - (* subAttr *)
    destruct Hin as [E|[]]; injection E as <- <-.
    destruct Hs as (a0 & b0 & -> & (t & ->) & Hs). destruct Hs as (a1 & b1 & -> & (p & Hp & Hpp) & Hs). cbn in Hs. subst b1.
    exists p. split; [exact Hp|]. cbn [map app]. rewrite app_nil_r, Hpp. reflexivity.
  - (* value *)
    destruct Hin as [E|[E|[E|[E|[E|[E|[E|[E|[E|[]]]]]]]]]]; injection E as <- <-.
    + destruct Hs as (a0 & b0 & -> & (t & ->) & Hs). cbn in Hs. subst b0. exists (VBoolean t). split; [exact I|reflexivity].
    + destruct Hs as (a0 & b0 & -> & (t & ->) & Hs). cbn in Hs. subst b0. exists VNull. split; [exact I|reflexivity].
    + destruct Hs as (a0 & b0 & -> & (t & ->) & Hs). cbn in Hs. subst b0. exists (VVersion t). split; [exact I|reflexivity].
    + destruct Hs as (a0 & b0 & -> & (t & ->) & Hs). cbn in Hs. subst b0. exists (VString t). split; [exact I|reflexivity].
    + destruct Hs as (a0 & b0 & -> & (t & ->) & Hs). cbn in Hs. subst b0. exists (VDouble t). split; [exact I|reflexivity].
    + destruct Hs as (a0 & b0 & -> & H0 & Hs). destruct Hs as (a1 & b1 & -> & (i & ->) & Hs).
      destruct Hs as (a2 & b2 & -> & H2 & Hs). cbn in Hs. subst b2.
      destruct H0 as [->|(tm & ->)], H2 as [->|(te & ->)].
      * exists (VLong false i None). split; [exact I|reflexivity].
      * exists (VLong false i (Some te)). split; [exact I|reflexivity].
      * exists (VLong true i None). split; [exact I|reflexivity].
      * exists (VLong true i (Some te)). split; [exact I|reflexivity].
    + destruct Hs as (a0 & b0 & -> & (l & Hl & Hll) & Hs). cbn in Hs. subst b0. exists (VListInts l). split; [exact Hl|]. rewrite app_nil_r. exact Hll.
    + destruct Hs as (a0 & b0 & -> & (l & Hl & Hll) & Hs). cbn in Hs. subst b0. exists (VListDoubles l). split; [exact Hl|]. rewrite app_nil_r. exact Hll.
    + destruct Hs as (a0 & b0 & -> & (l & Hl & Hll) & Hs). cbn in Hs. subst b0. exists (VListStrings l). split; [exact Hl|]. rewrite app_nil_r. exact Hll.
  - (* listStrings *)
    destruct Hin as [E|[]]; injection E as <- <-.
    destruct Hs as (a0 & b0 & -> & (t & ->) & Hs). destruct Hs as (a1 & b1 & -> & (l & Hl & Hll) & Hs). cbn in Hs. subst b1.
    exists l. split; [exact Hl|]. cbn [map app]. rewrite app_nil_r, Hll. reflexivity.
  - (* subListOfStrings *)
    destruct Hin as [E|[E|[]]]; injection E as <- <-.
    + destruct Hs as (a0 & b0 & -> & (t & ->) & Hs). destruct Hs as (a1 & b1 & -> & (tc & ->) & Hs).
      destruct Hs as (a2 & b2 & -> & (l & Hl & Hll) & Hs). cbn in Hs. subst b2.
      exists (t :: l). split; [discriminate|]. rewrite print_sublist_cons by exact Hl. cbn [map app]. rewrite app_nil_r, Hll. reflexivity.
    + destruct Hs as (a0 & b0 & -> & (t & ->) & Hs). destruct Hs as (a1 & b1 & -> & (tc & ->) & Hs). cbn in Hs. subst b1.
      exists [t]. split; [discriminate|reflexivity].
  - (* listDoubles *)
    destruct Hin as [E|[]]; injection E as <- <-.
    destruct Hs as (a0 & b0 & -> & (t & ->) & Hs). destruct Hs as (a1 & b1 & -> & (l & Hl & Hll) & Hs). cbn in Hs. subst b1.
    exists l. split; [exact Hl|]. cbn [map app]. rewrite app_nil_r, Hll. reflexivity.
  - (* subListOfDoubles *)
    destruct Hin as [E|[E|[]]]; injection E as <- <-.
    + destruct Hs as (a0 & b0 & -> & (t & ->) & Hs). destruct Hs as (a1 & b1 & -> & (tc & ->) & Hs).
      destruct Hs as (a2 & b2 & -> & (l & Hl & Hll) & Hs). cbn in Hs. subst b2.
      exists (t :: l). split; [discriminate|]. rewrite print_sublist_cons by exact Hl. cbn [map app]. rewrite app_nil_r, Hll. reflexivity.
    + destruct Hs as (a0 & b0 & -> & (t & ->) & Hs). destruct Hs as (a1 & b1 & -> & (tc & ->) & Hs). cbn in Hs. subst b1.
      exists [t]. split; [discriminate|reflexivity].
  - (* listInts *)
    destruct Hin as [E|[]]; injection E as <- <-.
    destruct Hs as (a0 & b0 & -> & (t & ->) & Hs). destruct Hs as (a1 & b1 & -> & (l & Hl & Hll) & Hs). cbn in Hs. subst b1.
    exists l. split; [exact Hl|]. cbn [map app]. rewrite app_nil_r, Hll. reflexivity.
  - (* subListOfInts *)
    destruct Hin as [E|[E|[]]]; injection E as <- <-.
    + destruct Hs as (a0 & b0 & -> & (t & ->) & Hs). destruct Hs as (a1 & b1 & -> & (tc & ->) & Hs).
      destruct Hs as (a2 & b2 & -> & (l & Hl & Hll) & Hs). cbn in Hs. subst b2.
      exists (t :: l). split; [discriminate|]. rewrite print_sublist_cons by exact Hl. cbn [map app]. rewrite app_nil_r, Hll. reflexivity.
    + destruct Hs as (a0 & b0 & -> & (t & ->) & Hs). destruct Hs as (a1 & b1 & -> & (tc & ->) & Hs). cbn in Hs. subst b1.
      exists [t]. split; [discriminate|reflexivity].
Qed.

Lemma alts_unique n alts : In (n, alts) G -> alts = alts_of n.
Proof.
  intros H. cbn in H.
  repeat (destruct H as [H|H]; [injection H as <- <-; reflexivity || (destruct n; discriminate)|]); try contradiction.
Qed.

Lemma derivation_means : forall s ts, D s ts -> Psym s ts.
Proof.
  apply (dsym_mut G (fun s ts _ => Psym s ts) (fun ss ts _ => Pseq ss ts)).
  - intros k t. exists t. reflexivity.
  - intros n alts lab body ts Hi Ha _ IH. cbn [Psym]. rewrite (alts_unique _ _ Hi) in Ha.
    eapply complete_nt; [apply alts_in|exact Ha|exact IH].
  - intros s. left. reflexivity.
  - intros s ts _ IH. right. exact IH.
  - intros ks k t Hin. exists k, t. split; [exact Hin|reflexivity].
  - reflexivity.
  - intros s ss a b _ IHs _ IHss. exists a, b. repeat split; assumption.
Qed.

(* COMPLETENESS: every sentence of the grammar is accepted (and read as some printed tree) *)
Theorem parse_complete ts : sentence G N_query ts ->
  exists c, wf_chain c /\ map norm ts = print_chain c /\ parse_tokens ts = Some (erase_chain c).
Proof.
  intros H. destruct (derivation_means _ _ H) as (c & Hw & Hc).
  exists c. repeat split; [exact Hw|exact Hc|]. unfold parse_tokens. rewrite Hc. apply parse_core_print. exact Hw.
Qed.

(* the parser model accepts exactly the sentences of the parser rules of JsonQuery.g4 *)
Theorem parser_recognises_grammar ts : parse_tokens ts <> None <-> sentence G N_query ts.
Proof.
  split.
  - destruct (parse_tokens ts) as [q|] eqn:E; [intros _; eapply parse_sound; exact E|congruence].
  - intros H. destruct (parse_complete ts H) as (c & _ & _ & ->). discriminate.
Qed.
