(* Semver.v — port of github.com/blang/semver v3.5.1: Parse (= Make),
   NewPRVersion, Version.Compare, PRVersion.Compare.  Byte level: every
   character class the library tests is ASCII, so a non-ASCII byte is simply
   "not in the set".  Definitions only. *)
From Rules Require Export Values.
Open Scope Z_scope.

Inductive prversion := PRNum (n : Z) | PRAlpha (s : bytes).

Record version := { major : Z; minor : Z; patch : Z; pre : list prversion; build : list bytes }.

Definition is_num_byte (b : N) : bool := is_digit b.
Definition is_alpha_byte (b : N) : bool :=
  ((97 <=? b) && (b <=? 122) || (65 <=? b) && (b <=? 90) || (b =? 45))%N.
Definition is_alphanum_byte (b : N) : bool := is_alpha_byte b || is_num_byte b.

Definition contains_only (p : N -> bool) (s : bytes) : bool := forallb p s.
Definition has_leading_zeroes (s : bytes) : bool :=
  match s with 48%N :: _ :: _ => true | _ => false end.

(* strings.Split(s, sep) for a one-byte separator: always at least one part *)
Fixpoint split_on (sep : N) (s : bytes) : list bytes :=
  match s with
  | [] => [[]]
  | c :: r => if (c =? sep)%N then [] :: split_on sep r
              else match split_on sep r with
                   | p :: ps => (c :: p) :: ps
                   | [] => [[c]]
                   end
  end.

(* s[:i], s[i+1:] for the first occurrence of sep *)
Fixpoint cut_at (sep : N) (s : bytes) : option (bytes * bytes) :=
  match s with
  | [] => None
  | c :: r => if (c =? sep)%N then Some ([], r)
              else match cut_at sep r with
                   | Some (a, b) => Some (c :: a, b)
                   | None => None
                   end
  end.

(* a numeric component: digits only, no leading zeroes, fits uint64 *)
Definition parse_component (s : bytes) : option Z :=
  if negb (contains_only is_num_byte s) then None
  else if has_leading_zeroes s then None
  else parse_uint64 s.

Definition new_prversion (s : bytes) : option prversion :=
  match s with
  | [] => None
  | _ =>
    if contains_only is_num_byte s then
      if has_leading_zeroes s then None
      else match parse_uint64 s with Some n => Some (PRNum n) | None => None end
    else if contains_only is_alphanum_byte s then Some (PRAlpha s)
    else None
  end.

Fixpoint map_opt {A B} (f : A -> option B) (l : list A) : option (list B) :=
  match l with
  | [] => Some []
  | x :: r => match f x, map_opt f r with
              | Some y, Some ys => Some (y :: ys)
              | _, _ => None
              end
  end.

Definition check_build (s : bytes) : option bytes :=
  match s with
  | [] => None
  | _ => if contains_only is_alphanum_byte s then Some s else None
  end.

(* semver.Parse *)
Definition sv_parse (s : bytes) : option version :=
  match s with
  | [] => None
  | _ =>
    (* strings.SplitN(s, ".", 3) must give exactly 3 parts *)
    match cut_at 46 s with
    | None => None
    | Some (p0, r0) =>
      match cut_at 46 r0 with
      | None => None
      | Some (p1, p2) =>
        match parse_component p0, parse_component p1 with
        | Some ma, Some mi =>
          let '(patch_str1, build_parts) :=
            match cut_at 43 p2 with            (* '+' *)
            | Some (a, b) => (a, split_on 46 b)
            | None => (p2, [])
            end in
          let '(patch_str, pre_parts) :=
            match cut_at 45 patch_str1 with    (* '-' *)
            | Some (a, b) => (a, split_on 46 b)
            | None => (patch_str1, [])
            end in
          match parse_component patch_str with
          | Some pa =>
            match map_opt new_prversion pre_parts, map_opt check_build build_parts with
            | Some prs, Some bs =>
                Some {| major := ma; minor := mi; patch := pa; pre := prs; build := bs |}
            | _, _ => None
            end
          | None => None
          end
        | _, _ => None
        end
      end
    end
  end.

Definition pr_compare (a b : prversion) : comparison :=
  match a, b with
  | PRNum _, PRAlpha _ => Lt
  | PRAlpha _, PRNum _ => Gt
  | PRNum x, PRNum y => Z.compare x y
  | PRAlpha x, PRAlpha y => bytes_compare x y
  end.

Fixpoint pre_compare (a b : list prversion) : comparison :=
  match a, b with
  | [], [] => Eq
  | [], _ :: _ => Lt
  | _ :: _, [] => Gt
  | x :: a', y :: b' => match pr_compare x y with Eq => pre_compare a' b' | c => c end
  end.

(* Version.Compare *)
Definition sv_compare (v o : version) : comparison :=
  match Z.compare (major v) (major o) with
  | Eq =>
    match Z.compare (minor v) (minor o) with
    | Eq =>
      match Z.compare (patch v) (patch o) with
      | Eq =>
        match pre v, pre o with
        | [], [] => Eq
        | [], _ :: _ => Gt
        | _ :: _, [] => Lt
        | pv, po => pre_compare pv po
        end
      | c => c
      end
    | c => c
    end
  | c => c
  end.
