(* Syntax.v — the parser on token lists: a fuelled recursive-descent reading of
   the parser rules of JsonQuery.g4.  The single left-recursive alternative
   `query SP LOGICAL_OPERATOR SP query` is read as ANTLR reads it: a primary
   followed by any number of (SP op SP primary), associated to the left.
   Definitions only; lemmas in ParserProofs.v. *)
From Rules Require Export Tokens Ast.

Definition skip_sp (ts : list tok) : list tok :=
  match ts with (K_SP, _) :: r => r | _ => ts end.

Fixpoint parse_path (ts : list tok) : option (path * list tok) :=
  match ts with
  | (K_ATTRNAME, n) :: r =>
      match r with
      | (K_DOT, _) :: r' =>
          match parse_path r' with
          | Some (p, rest) => Some (n :: p, rest)
          | None => None
          end
      | _ => Some ([n], r)
      end
  | _ => None
  end.

Fixpoint parse_sublist (k : tkind) (ts : list tok) : option (list text * list tok) :=
  match ts with
  | (k', t) :: r =>
      if tkind_eqb k k' then
        match r with
        | (K_COMMA, _) :: r' =>
            match parse_sublist k r' with
            | Some (l, rest) => Some (t :: l, rest)
            | None => None
            end
        | (K_RB, _) :: r' => Some ([t], r')
        | _ => None
        end
      else None
  | [] => None
  end.

Definition parse_long (neg : bool) (ts : list tok) : option (value * list tok) :=
  match ts with
  | (K_INT, i) :: (K_EXP, e) :: r => Some (VLong neg i (Some e), r)
  | (K_INT, i) :: r => Some (VLong neg i None, r)
  | _ => None
  end.

Definition parse_value (ts : list tok) : option (value * list tok) :=
  match ts with
  | (K_BOOLEAN, t) :: r => Some (VBoolean t, r)
  | (K_NULL, _) :: r => Some (VNull, r)
  | (K_VERSION, t) :: r => Some (VVersion t, r)
  | (K_STRING, t) :: r => Some (VString t, r)
  | (K_DOUBLE, t) :: r => Some (VDouble t, r)
  | (K_MINUS, _) :: r => parse_long true r
  | (K_INT, _) :: _ => parse_long false ts
  | (K_LB, _) :: ((K_INT, _) :: _) as r =>
      match parse_sublist K_INT r with Some (l, rest) => Some (VListInts l, rest) | None => None end
  | (K_LB, _) :: ((K_DOUBLE, _) :: _) as r =>
      match parse_sublist K_DOUBLE r with Some (l, rest) => Some (VListDoubles l, rest) | None => None end
  | (K_LB, _) :: ((K_STRING, _) :: _) as r =>
      match parse_sublist K_STRING r with Some (l, rest) => Some (VListStrings l, rest) | None => None end
  | _ => None
  end.

Definition cmpop_of (k : tkind) : option cmpop :=
  match k with
  | K_EQ => Some EQ | K_NE => Some NE | K_GT => Some GT | K_LT => Some LT
  | K_GE => Some GE | K_LE => Some LE | K_CO => Some CO | K_SW => Some SW
  | K_EW => Some EW | K_IN => Some IN
  | _ => None
  end.

(* presentExp | compareExp *)
Definition parse_leaf (ts : list tok) : option (query * list tok) :=
  match parse_path ts with
  | Some (p, (K_SP, _) :: (K_PR, _) :: rest) => Some (QPresent p, rest)
  | Some (p, (K_SP, _) :: (kop, _) :: (K_SP, _) :: rest) =>
      match cmpop_of kop with
      | Some op =>
          match parse_value rest with
          | Some (v, rest') => Some (QCompare p op v, rest')
          | None => None
          end
      | None => None
      end
  | _ => None
  end.

Definition t_or : text := [111; 114]%N.
Definition is_or (t : text) : bool := list_eqb N.eqb t t_or.

Section Rec.
Variable rec : list tok -> option (query * list tok).

(* a query that is not a logicalExp at its top: leaf or parenExp *)
Definition prim (ts : list tok) : option (query * list tok) :=
  match ts with
  | (K_ATTRNAME, _) :: _ => parse_leaf ts
  | _ =>
      let '(neg, ts1) := match ts with (K_NOT, _) :: r => (true, r) | _ => (false, ts) end in
      match skip_sp ts1 with
      | (K_LP, _) :: r =>
          match rec (skip_sp r) with
          | Some (q, rest) =>
              match skip_sp rest with
              | (K_RP, _) :: rest' => Some (QParen neg q, rest')
              | _ => None
              end
          | None => None
          end
      | _ => None
      end
  end.

Fixpoint loop (n : nat) (acc : query) (ts : list tok) : option (query * list tok) :=
  match ts with
  | (K_SP, _) :: (K_LOGICAL_OPERATOR, o) :: (K_SP, _) :: r =>
      match n with
      | O => None
      | S n' =>
          match prim r with
          | Some (q, rest) => loop n' (QLogic (is_or o) acc q) rest
          | None => None
          end
      end
  | _ => Some (acc, ts)
  end.
End Rec.

Fixpoint parse_query (fuel : nat) (ts : list tok) : option (query * list tok) :=
  match fuel with
  | O => None
  | S f =>
      match prim (parse_query f) ts with
      | Some (q, rest) => loop (parse_query f) (length rest) q rest
      | None => None
      end
  end.

(* the parser looks at the kind of every token, and at the text only of attribute
   names, literals and (and / or) of LOGICAL_OPERATOR: [norm] forgets the rest *)
Definition t_and : text := [97; 110; 100]%N.
Definition norm (t : tok) : tok :=
  match fst t with
  | K_ATTRNAME | K_BOOLEAN | K_VERSION | K_STRING | K_DOUBLE | K_INT | K_EXP => t
  | K_LOGICAL_OPERATOR => (K_LOGICAL_OPERATOR, if is_or (snd t) then t_or else t_and)
  | k => (k, [])
  end.

Definition parse_core (ts : list tok) : option query :=
  match parse_query (S (length ts)) ts with
  | Some (q, []) => Some q
  | _ => None
  end.

(* the whole token list is one query *)
Definition parse_tokens (ts : list tok) : option query := parse_core (map norm ts).
