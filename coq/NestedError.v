(* NestedError.v — parser/nester_error.go: NestedError with Set / Error /
   Original.  A chain of layers wraps a plain (non-nested) cause; Error()
   mutates Vals (it stores "err" and "msg"), so every operation returns the
   new state.  json.Marshal of an attached non-string value is an oracle: each
   value carries its encoding, or None when it cannot be encoded. *)
From Rules Require Export Base.
Open Scope N_scope.

Inductive aval := AStr (s : bytes) | AOther (enc : option bytes).

Record layer := mkLayer { l_msg : bytes; l_vals : list (bytes * aval) }.

(* innermost layer first; the cause of layer 0 is the plain error text *)
Record chain := mkChain { c_cause : bytes; c_layers : list layer }.

(* ---------- map operations on association lists (last binding wins) ---------- *)
Fixpoint aset (k : bytes) (v : aval) (m : list (bytes * aval)) : list (bytes * aval) :=
  match m with
  | [] => [(k, v)]
  | (k', v') :: r => if bytes_eqb k k' then (k, v) :: r else (k', v') :: aset k v r
  end.

Fixpoint aget (k : bytes) (m : list (bytes * aval)) : option aval :=
  match m with
  | [] => None
  | (k', v) :: r => if bytes_eqb k k' then Some v else aget k r
  end.

(* ErrVals.Merge *)
Definition amerge (m upd : list (bytes * aval)) : list (bytes * aval) :=
  fold_left (fun acc kv => aset (fst kv) (snd kv) acc) upd m.

(* ---------- JSON text ---------- *)
Definition hexd (n : N) : N := if n <? 10 then 48 + n else 87 + n.
Definition u00 (c : N) : bytes := [92; 117; 48; 48; hexd (c / 16); hexd (c mod 16)].

(* encoding/json string escaping with HTML escaping on (the default of Marshal) *)
Fixpoint jescape_fuel (fuel : nat) (s : bytes) : bytes :=
  match fuel with
  | O => []
  | S f =>
    match s with
    | [] => []
    | b :: r =>
      if b <? 128 then
        (if b =? 34 then [92; 34]
         else if b =? 92 then [92; 92]
         else if b =? 10 then [92; 110]
         else if b =? 13 then [92; 114]
         else if b =? 9 then [92; 116]
         else if b =? 8 then [92; 98]
         else if b =? 12 then [92; 102]
         else if (b <? 32) || (b =? 60) || (b =? 62) || (b =? 38) then u00 b
         else [b]) ++ jescape_fuel f r
      else
        let '(c, w) := utf8_decode1 s in
        (if (c =? RuneError) && Nat.eqb w 1 then [92; 117; 102; 102; 102; 100]
         else if c =? 8232 then [92; 117; 50; 48; 50; 56]
         else if c =? 8233 then [92; 117; 50; 48; 50; 57]
         else firstn w s) ++ jescape_fuel f (skipn w s)
    end
  end.

Definition jstring (s : bytes) : bytes := [34] ++ jescape_fuel (length s) s ++ [34].

Definition enc_of (v : aval) : option bytes :=
  match v with AStr s => Some (jstring s) | AOther e => e end.

(* insertion into a list sorted by key (bytewise), replacing an equal key *)
Fixpoint sorted_insert (k : bytes) (v : aval) (m : list (bytes * aval)) : list (bytes * aval) :=
  match m with
  | [] => [(k, v)]
  | (k', v') :: r =>
      match bytes_compare k k' with
      | Lt => (k, v) :: m
      | Eq => (k, v) :: r
      | Gt => (k', v') :: sorted_insert k v r
      end
  end.

Definition sort_vals (m : list (bytes * aval)) : list (bytes * aval) :=
  fold_left (fun acc kv => sorted_insert (fst kv) (snd kv) acc) m [].

Fixpoint jmembers (m : list (bytes * aval)) : option (list bytes) :=
  match m with
  | [] => Some []
  | (k, v) :: r =>
      match enc_of v, jmembers r with
      | Some e, Some rest => Some ((jstring k ++ [58] ++ e) :: rest)
      | _, _ => None
      end
  end.

Fixpoint jjoin (l : list bytes) : bytes :=
  match l with [] => [] | [x] => x | x :: r => x ++ [44] ++ jjoin r end.

(* json.Marshal of a map[string]interface{}: None when some value cannot be encoded *)
Definition jobject (m : list (bytes * aval)) : option bytes :=
  match jmembers (sort_vals m) with
  | Some ms => Some ([123] ++ jjoin ms ++ [125])
  | None => None
  end.

Definition k_err : bytes := [101; 114; 114].
Definition k_msg : bytes := [109; 115; 103].

(* ---------- the methods ---------- *)
(* Error() of the outermost layer of [ls] (innermost first), with cause text [cause]:
   the text and the layers after the call *)
Fixpoint error_layers (cause : bytes) (ls_rev : list layer) : bytes * list layer :=
  (* ls_rev: outermost first *)
  match ls_rev with
  | [] => (cause, [])
  | l :: inner =>
      let '(itext, inner') := error_layers cause inner in
      let vals' := aset k_msg (AStr (l_msg l)) (aset k_err (AStr itext) (l_vals l)) in
      let text := match jobject vals' with
                  | Some t => t
                  | None => l_msg l ++ [58; 32] ++ itext   (* "%s: %s"; inner Error() again: no further change *)
                  end in
      (text, mkLayer (l_msg l) vals' :: inner')
  end.

(* c.Error() called on layer index k (0 = innermost): layers above k are untouched *)
Definition error_at (k : nat) (c : chain) : bytes * chain :=
  let below := firstn (S k) (c_layers c) in
  let above := skipn (S k) (c_layers c) in
  let '(t, below_rev') := error_layers (c_cause c) (rev below) in
  (t, mkChain (c_cause c) (rev below_rev' ++ above)).

(* Original() of any layer: the innermost non-nested cause *)
Definition original_at (k : nat) (c : chain) : bytes := c_cause c.

Fixpoint update_nth {A} (n : nat) (f : A -> A) (l : list A) : list A :=
  match l, n with
  | [], _ => []
  | x :: r, O => f x :: r
  | x :: r, S n' => x :: update_nth n' f r
  end.

(* Set(vals) on layer k *)
Definition set_at (k : nat) (upd : list (bytes * aval)) (c : chain) : chain :=
  mkChain (c_cause c) (update_nth k (fun l => mkLayer (l_msg l) (amerge (l_vals l) upd)) (c_layers c)).

Inductive nop := NSet (k : nat) (upd : list (bytes * aval)) | NError (k : nat) | NOriginal (k : nat).
Inductive nout := NOutSet | NOutText (t : bytes) | NOutOrig (t : bytes).

Definition nstep (c : chain) (op : nop) : chain * nout :=
  match op with
  | NSet k upd => (set_at k upd c, NOutSet)
  | NError k => let '(t, c') := error_at k c in (c', NOutText t)
  | NOriginal k => (c, NOutOrig (original_at k c))
  end.

Fixpoint nrun (c : chain) (ops : list nop) : list nout :=
  match ops with
  | [] => []
  | op :: r => let '(c', o) := nstep c op in o :: nrun c' r
  end.
