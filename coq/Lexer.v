(* Lexer.v — generic maximal-munch lexer: at each position the rule matching
   the longest non-empty prefix wins, the earliest rule on ties; if no rule
   matches, lexing fails (ANTLR reports a token recognition error there).
   Definitions only; lemmas in LexerProofs.v. *)
From Rules Require Export Regex.

Section Lexer.
Context {K : Type}.

Definition lexrules := list (K * re).

(* best (kind, length) over the rules; a later rule wins only when strictly longer *)
Fixpoint best_rule (rules : lexrules) (s : text) (best : option (K * nat)) : option (K * nat) :=
  match rules with
  | [] => best
  | (k, r) :: rest =>
      let best' :=
        match longest_match r s with
        | Some (S n) =>
            match best with
            | Some (_, m) => if Nat.ltb m (S n) then Some (k, S n) else best
            | None => Some (k, S n)
            end
        | _ => best
        end in
      best_rule rest s best'
  end.

Definition token := (K * text)%type.

Fixpoint lex_fuel (fuel : nat) (rules : lexrules) (s : text) : option (list token) :=
  match s with
  | [] => Some []
  | _ =>
    match fuel with
    | O => None
    | S f =>
      match best_rule rules s None with
      | None => None
      | Some (k, n) =>
          match lex_fuel f rules (skipn n s) with
          | Some toks => Some ((k, firstn n s) :: toks)
          | None => None
          end
      end
    end
  end.

Definition lex (rules : lexrules) (s : text) : option (list token) := lex_fuel (length s) rules s.

End Lexer.
