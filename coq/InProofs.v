(* InProofs.v — C08: `p in [v1, ..., vn]` has the outcome of `p eq v1 or ... or p eq vn`. *)
From Rules Require Import Spec Eval Refinement SemProps SemLaws OpsProps ValuesProps Theorems.
Open Scope Z_scope.

Section WithLower.
Variable lower : bytes -> bytes.
Variable top : object.
Notation sh := (sh lower top).

(* q1 or q2 or ... or qn as the grammar reads it: associated to the left *)
Definition or_chain (qs : list query) : query :=
  match qs with
  | [] => QPresent []
  | q0 :: r => fold_left (QLogic true) r q0
  end.

Lemma sh_or_fold f qs : forall acc b,
  sh acc = Some (inl b) -> (forall q, In q qs -> sh q = Some (inl (f q))) ->
  sh (fold_left (QLogic true) qs acc) = Some (inl (b || existsb f qs)%bool).
Proof.
  induction qs as [|q r IH]; intros acc b Ha Hq; cbn [fold_left existsb].
  - rewrite Bool.orb_false_r. exact Ha.
  - rewrite (IH (QLogic true acc q) (b || f q)%bool).
    + rewrite Bool.orb_assoc. reflexivity.
    + rewrite sh_logic, Ha, (Hq q (or_introl eq_refl)). destruct b; reflexivity.
    + intros q' Hin. apply Hq. right. exact Hin.
Qed.

(* a panic in the first comparison is a panic of the chain *)
Lemma sh_or_fold_none qs : forall acc, sh acc = None -> sh (fold_left (QLogic true) qs acc) = None.
Proof.
  induction qs as [|q r IH]; intros acc Ha; cbn [fold_left]; [exact Ha|].
  apply IH. rewrite sh_logic, Ha. reflexivity.
Qed.

Lemma sh_compare p op v :
  sh (QCompare p op v) = shape (of_lres None (compare_sem lower top p op v)).
Proof. reflexivity. Qed.

Lemma bytes_eqb_compare a : forall b, bytes_eqb a b = match bytes_compare a b with Eq => true | _ => false end.
Proof.
  induction a as [|x a IH]; intros [|y b]; cbn; try reflexivity.
  destruct (N.compare_spec x y) as [->|H|H].
  - rewrite N.eqb_refl. apply IH.
  - destruct (N.eqb_spec x y); [lia|reflexivity].
  - destruct (N.eqb_spec x y); [lia|reflexivity].
Qed.

(* ---------- integers ---------- *)
Lemma ints_denote_all l : forall acc zs,
  map_opt parse_int l = Some zs -> ints_denote l acc = (RInts (acc ++ zs), None).
Proof.
  induction l as [|x r IH]; intros acc zs; cbn.
  - intros [= <-]. rewrite app_nil_r. reflexivity.
  - destruct (parse_int x) as [z|]; [|discriminate]. destruct (map_opt parse_int r) as [zr|] eqn:E; [|discriminate].
    intros [= <-]. rewrite (IH (acc ++ [z]) zr eq_refl), <- app_assoc. reflexivity.
Qed.

Lemma int_in_err_false l nums : forall b e, int_in l nums = (b, Some e) -> b = false.
Proof.
  induction nums as [|n rest IH]; cbn; intros b e; [discriminate|].
  destruct (int_cmp l (RInt n)) as [[[]|]|e']; try apply IH; try discriminate. intros [= <- _]. reflexivity.
Qed.

Definition eq_leaf_int (p : path) (x : text) : query := QCompare p EQ (VLong false x None).

Lemma long_text_plain x : long_text false x None = x.
Proof. unfold long_text. cbn. apply app_nil_r. Qed.

Theorem c08_ints p l zs :
  l <> [] -> map_opt parse_int l = Some zs ->
  same_outcome (sh (QCompare p IN (VListInts l))) (sh (or_chain (map (eq_leaf_int p) l))).
Proof.
  intros Hne Hall. destruct l as [|x0 r]; [congruence|]. cbn [or_chain map].
  rewrite sh_compare. unfold compare_sem.
  assert (Hlit : lit_denote (VListInts (x0 :: r)) = (OpInt, RInts zs, None)).
  { unfold lit_denote. rewrite (ints_denote_all (x0 :: r) [] zs Hall). reflexivity. }
  rewrite Hlit.
  (* every eq-leaf *)
  assert (Hleaf : forall x z lv, denote top p = Ok lv -> parse_int x = Some z ->
            sh (eq_leaf_int p x) = Some (inl (fst (match op_apply lower OpInt EQ lv (RInt z) with Ok r0 => r0 | Panic => (false, None) end)))).
  { intros x z lv Hd Hp. unfold eq_leaf_int. rewrite sh_compare. unfold compare_sem. rewrite Hd. cbn [lit_denote]. rewrite long_text_plain, Hp. cbn [op_apply int_apply]. destruct (int_cmp lv (RInt z)) as [c|e] eqn:Ec; cbn; [reflexivity|].
    destruct (int_cmp_err _ _ _ Ec) as [-> | ->]; reflexivity. }
  destruct (denote top p) as [lv|] eqn:Hd.
  - cbn [map_opt] in Hall. destruct (parse_int x0) as [z0|] eqn:E0; [|discriminate].
    destruct (map_opt parse_int r) as [zr|] eqn:Er; [|discriminate]. injection Hall as <-.
    rewrite (sh_or_fold (fun q => match q with QCompare _ _ (VLong _ x _) =>
                 match parse_int x with Some z => fst (match op_apply lower OpInt EQ lv (RInt z) with Ok r0 => r0 | Panic => (false, None) end) | None => false end
               | _ => false end) _ _ _ (Hleaf x0 z0 lv eq_refl E0)).
    + cbn [op_apply int_apply]. pose proof (int_in_is_exists_eq lower lv (z0 :: zr)) as Hin.
      destruct (int_in lv (z0 :: zr)) as [b e] eqn:Ei. cbn [fst] in Hin.
      assert (He : e <> Some EInvalidOperation).
      { destruct e as [e|]; [|discriminate]. destruct (int_in_err _ _ _ _ Ei); congruence. }
      assert (Hshape : shape (of_lres None (match e with
                 | None => LRes b None None
                 | Some EInvalidOperation => LRes false (Some VErrInvalidOp) (Some DInvalidOp)
                 | Some e' => LRes false None (Some (dbg_of_operr e')) end)) = Some (inl (match e with None => b | Some _ => false end))).
      { destruct e as [[]|]; try congruence; reflexivity. }
      cbn [of_lres]. 
      replace (match Ok (b, e) with Panic => LPanic | Ok (b0, None) => LRes b0 None None
               | Ok (_, Some EInvalidOperation) => LRes false (Some VErrInvalidOp) (Some DInvalidOp)
               | Ok (_, Some e') => LRes false None (Some (dbg_of_operr e')) end)
        with (match e with None => LRes b None None | Some EInvalidOperation => LRes false (Some VErrInvalidOp) (Some DInvalidOp)
              | Some e' => LRes false None (Some (dbg_of_operr e')) end) by (destruct e as [[]|]; reflexivity).
      rewrite Hshape. cbn [same_outcome].
      assert (Hb : (match e with None => b | Some _ => false end) = b).
      { destruct e as [e|]; [|reflexivity]. symmetry. eapply int_in_err_false. exact Ei. }
      rewrite Hb, Hin. cbn [existsb]. f_equal.
      clear -Er. revert zr Er. induction r as [|x r IH]; intros zr; cbn [map_opt map].
      * intros [= <-]. reflexivity.
      * destruct (parse_int x) as [z|] eqn:E; [|discriminate]. destruct (map_opt parse_int r) as [zr'|]; [|discriminate].
        intros [= <-]. cbn [existsb eq_leaf_int]. rewrite E. f_equal. apply IH. reflexivity.
    + intros q Hin. apply in_map_iff in Hin. destruct Hin as (x & <- & Hx).
      assert (Hp : exists z, parse_int x = Some z).
      { clear -Er Hx. revert zr Er. induction r as [|y r IH]; intros zr; [contradiction|]. cbn.
        destruct (parse_int y) as [zy|] eqn:E; [|discriminate]. destruct (map_opt parse_int r) as [zr'|]; [|discriminate].
        intros _. destruct Hx as [<-|Hx]; [eexists; exact E|]. eapply IH; [exact Hx|reflexivity]. }
      destruct Hp as [z Hz]. rewrite (Hleaf x z lv eq_refl Hz). cbn. rewrite Hz. reflexivity.
  - (* non-object in the path: both sides panic *)
    cbn. rewrite sh_or_fold_none; [exact I|].
    unfold eq_leaf_int. rewrite sh_compare. unfold compare_sem. rewrite Hd. reflexivity.
Qed.


(* ---------- strings ---------- *)
Definition eq_leaf_str (p : path) (x : text) : query := QCompare p EQ (VString x).

Lemma existsb_map {A B} (f : B -> bool) (g : A -> B) l : existsb f (map g l) = existsb (fun x => f (g x)) l.
Proof. induction l as [|x r IH]; cbn; [reflexivity|]. rewrite IH. reflexivity. Qed.

Theorem c08_strings p l :
  l <> [] ->
  same_outcome (sh (QCompare p IN (VListStrings l))) (sh (or_chain (map (eq_leaf_str p) l))).
Proof.
  intros Hne. destruct l as [|x0 r]; [congruence|]. cbn [or_chain map].
  rewrite sh_compare. unfold compare_sem.
  change (lit_denote (VListStrings (x0 :: r))) with (OpString, RStrs (map get_string (x0 :: r)), @None verr).
  destruct (denote top p) as [lv|] eqn:Hd.
  - cbn [op_apply string_apply].
    assert (Hleaf : forall x, sh (eq_leaf_str p x) =
              shape (of_lres None (match op_apply lower OpString EQ lv (RStr (get_string x)) with
                                   | Panic => LPanic | Ok (b, None) => LRes b None None
                                   | Ok (_, Some EInvalidOperation) => LRes false (Some VErrInvalidOp) (Some DInvalidOp)
                                   | Ok (_, Some e') => LRes false None (Some (dbg_of_operr e')) end))).
    { intros x. unfold eq_leaf_str. rewrite sh_compare. unfold compare_sem. rewrite Hd. reflexivity. }
    destruct (get_string_left lv) as [[a|]|] eqn:Eg; cbn [rbind].
    + (* a string or Stringer: membership among the lower-cased texts *)
      assert (Hl : string_of lv = Some a) by (destruct lv as [| | | | | |s|[s|]| |]; cbn in Eg |- *; congruence).
      assert (Hv : forall x, sh (eq_leaf_str p x) = Some (inl (bytes_eqb (lower a) (lower (get_string x))))).
      { intros x. rewrite Hleaf, (string_apply_string lower EQ lv a (get_string x)) by (congruence || exact Hl).
        cbn. rewrite bytes_eqb_compare. destruct (bytes_compare (lower a) (lower (get_string x))); reflexivity. }
      rewrite (sh_or_fold (fun q => match q with QCompare _ _ (VString x) => bytes_eqb (lower a) (lower (get_string x)) | _ => false end)
                 _ _ _ (Hv x0)).
      * cbn [of_lres shape same_outcome ret_ok map existsb]. f_equal. rewrite !existsb_map. reflexivity.
      * intros q Hin. apply in_map_iff in Hin. destruct Hin as (x & <- & _). apply Hv.
    + (* neither: false on both sides (operand missing / wrong type) *)
      assert (Hv : forall x, sh (eq_leaf_str p x) = Some (inl false)).
      { intros x. rewrite Hleaf. destruct lv as [| | | | | |s|[s|]| |]; cbn in Eg |- *; try discriminate; reflexivity. }
      rewrite (sh_or_fold (fun _ => false) _ _ _ (Hv x0)).
      * cbn. clear. induction (map (eq_leaf_str p) r) as [|q l IH]; [reflexivity|]. cbn. exact IH.
      * intros q Hin. apply in_map_iff in Hin. destruct Hin as (x & <- & _). apply Hv.
    + (* String() panics: both sides are recovered panics *)
      cbn. rewrite sh_or_fold_none; [exact I|]. rewrite Hleaf.
      destruct lv as [| | | | | |s|[s|]| |]; cbn in Eg |- *; try discriminate; reflexivity.
  - cbn. rewrite sh_or_fold_none; [exact I|].
    unfold eq_leaf_str. rewrite sh_compare. unfold compare_sem. rewrite Hd. reflexivity.
Qed.

(* ---------- decimals ---------- *)
Definition eq_leaf_dbl (p : path) (x : text) : query := QCompare p EQ (VDouble x).
Definition pf_opt (x : text) : option f64 := match parse_float x with PFVal f => Some f | PFError => None end.

Lemma doubles_denote_all l : forall acc fs,
  map_opt pf_opt l = Some fs -> doubles_denote l acc = (RFloats (acc ++ fs), None).
Proof.
  induction l as [|x r IH]; intros acc fs; cbn.
  - intros [= <-]. rewrite app_nil_r. reflexivity.
  - unfold pf_opt at 1. destruct (parse_float x) as [|f]; [discriminate|]. destruct (map_opt pf_opt r) as [fr|] eqn:E; [|discriminate].
    intros [= <-]. rewrite (IH (acc ++ [f]) fr eq_refl), <- app_assoc. reflexivity.
Qed.

Theorem c08_doubles p l fs :
  l <> [] -> map_opt pf_opt l = Some fs ->
  same_outcome (sh (QCompare p IN (VListDoubles l))) (sh (or_chain (map (eq_leaf_dbl p) l))).
Proof.
  intros Hne Hall. destruct l as [|x0 r]; [congruence|]. cbn [or_chain map].
  rewrite sh_compare. unfold compare_sem.
  assert (Hlit : lit_denote (VListDoubles (x0 :: r)) = (OpFloat, RFloats fs, None)).
  { unfold lit_denote. rewrite (doubles_denote_all (x0 :: r) [] fs Hall). reflexivity. }
  rewrite Hlit.
  destruct (denote top p) as [lv|] eqn:Hd.
  - assert (Hleaf : forall x f, pf_opt x = Some f ->
              sh (eq_leaf_dbl p x) = Some (inl (match lv with GNil => false | _ =>
                                                  match to_float_left lv with Some a => f64_eqb f a | None => false end end))).
    { intros x f Hx. unfold eq_leaf_dbl. rewrite sh_compare. unfold compare_sem. rewrite Hd. cbn [lit_denote].
      unfold pf_opt in Hx. destruct (parse_float x) as [|f']; [discriminate|]. injection Hx as ->.
      cbn [op_apply float_apply]. destruct lv; cbn; try reflexivity.
      - unfold f64_eqb. rewrite (f64_compare_antisym f (f64_of_Z z)). destruct (f64_compare f (f64_of_Z z)) as [[]|]; reflexivity.
      - unfold f64_eqb. rewrite (f64_compare_antisym f f0). destruct (f64_compare f f0) as [[]|]; reflexivity. }
    cbn [map_opt] in Hall. destruct (pf_opt x0) as [f0|] eqn:E0; [|discriminate].
    destruct (map_opt pf_opt r) as [fr|] eqn:Er; [|discriminate]. injection Hall as <-.
    rewrite (sh_or_fold (fun q => match q with QCompare _ _ (VDouble x) =>
                 match pf_opt x with Some f => (match lv with GNil => false | _ =>
                     match to_float_left lv with Some a => f64_eqb f a | None => false end end) | None => false end
               | _ => false end) _ _ _ (Hleaf x0 f0 E0)).
    + cbn [op_apply float_apply].
      assert (Hrest : existsb (fun q => match q with QCompare _ _ (VDouble x) =>
                 match pf_opt x with Some f => (match lv with GNil => false | _ =>
                     match to_float_left lv with Some a => f64_eqb f a | None => false end end) | None => false end
               | _ => false end) (map (eq_leaf_dbl p) r)
              = existsb (fun f => match lv with GNil => false | _ => match to_float_left lv with Some a => f64_eqb f a | None => false end end) fr).
      { clear -Er. revert fr Er. induction r as [|x r IH]; intros fr; cbn [map_opt map].
        - intros [= <-]. reflexivity.
        - destruct (pf_opt x) as [f|] eqn:E; [|discriminate]. destruct (map_opt pf_opt r) as [fr'|]; [|discriminate].
          intros [= <-]. cbn [existsb eq_leaf_dbl]. rewrite E. f_equal. apply IH. reflexivity. }
      assert (Hff : forall l0 : list f64, existsb (fun _ => false) l0 = false)
        by (induction l0 as [|f l0 IH]; [reflexivity|exact IH]).
      rewrite Hrest. destruct lv; cbn; rewrite ?Hff; try reflexivity.
    + intros q Hin. apply in_map_iff in Hin. destruct Hin as (x & <- & Hx).
      assert (Hp : exists f, pf_opt x = Some f).
      { clear -Er Hx. revert fr Er. induction r as [|y r IH]; intros fr; [contradiction|]. cbn.
        destruct (pf_opt y) as [fy|] eqn:E; [|discriminate]. destruct (map_opt pf_opt r) as [fr'|]; [|discriminate].
        intros _. destruct Hx as [<-|Hx]; [eexists; exact E|]. eapply IH; [exact Hx|reflexivity]. }
      destruct Hp as [f Hf]. rewrite (Hleaf x f Hf). cbn. rewrite Hf. reflexivity.
  - cbn. rewrite sh_or_fold_none; [exact I|].
    unfold eq_leaf_dbl. rewrite sh_compare. unfold compare_sem. rewrite Hd. reflexivity.
Qed.

(* membership does not depend on order or repetition *)
Lemma existsb_same_elements {A} (f : A -> bool) l1 l2 :
  (forall x, In x l1 <-> In x l2) -> existsb f l1 = existsb f l2.
Proof.
  intros H. destruct (existsb f l1) eqn:E1; symmetry.
  - apply existsb_exists in E1. destruct E1 as (x & Hx & Hf). apply existsb_exists. exists x. split; [apply H; exact Hx|exact Hf].
  - destruct (existsb f l2) eqn:E2; [|reflexivity]. apply existsb_exists in E2. destruct E2 as (x & Hx & Hf).
    assert (existsb f l1 = true) by (apply existsb_exists; exists x; split; [apply H; exact Hx|exact Hf]). congruence.
Qed.

End WithLower.
