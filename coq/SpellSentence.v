(* SpellSentence.v — C15 at character level for whole sentences: however the tokens of a
   printed layout tree are respelled (operators eq / EQ / ==, not / NOT, blanks with any
   newlines, commas with any blanks, any stand-alone spelling of the kinds the parser does
   not read), the concatenated TEXT lexes to those tokens and parses to the same tree. *)
From Rules Require Import Regex Lexer LexContext SpellingProofs RegexAnalysis Tokens GrammarGen Syntax Layout ParserProofs Eval SpellContext.
Open Scope N_scope.

Definition kinds (l : list tok) : list tkind := map fst l.

Lemma kinds_app a b : kinds (a ++ b) = kinds a ++ kinds b.
Proof. apply map_app. Qed.

(* summary of a kind list: empty, broken, or a segment with its first and last kind *)
Inductive summ := SEmpty | SBad | SSeg (f l : tkind).

Fixpoint summary (ks : list tkind) : summ :=
  match ks with
  | [] => SEmpty
  | k :: r => match summary r with
              | SEmpty => SSeg k k
              | SBad => SBad
              | SSeg f l => if adjb k f then SSeg k l else SBad
              end
  end.

Definition sapp (a b : summ) : summ :=
  match a, b with
  | SEmpty, x => x
  | x, SEmpty => x
  | SBad, _ => SBad
  | _, SBad => SBad
  | SSeg f1 l1, SSeg f2 l2 => if adjb l1 f2 then SSeg f1 l2 else SBad
  end.

Lemma summary_app a b : summary (a ++ b) = sapp (summary a) (summary b).
Proof.
  induction a as [|k r IH]; cbn [app summary].
  - destruct (summary b); reflexivity.
  - rewrite IH. destruct (summary r) as [| |f l]; destruct (summary b) as [| |f2 l2]; cbn [sapp]; try reflexivity.
    all: repeat (match goal with |- context[adjb ?a ?b] => let E := fresh "E" in destruct (adjb a b) eqn:E end; cbn [sapp]; rewrite ?E, ?E0, ?E1); reflexivity.
Qed.

Lemma summary_empty ks : summary ks = SEmpty -> ks = [].
Proof. destruct ks as [|k r]; [reflexivity|]. cbn [summary]. destruct (summary r) as [| |f l]; try discriminate. destruct (adjb k f); discriminate. Qed.

Lemma summary_seg_head ks f l : summary ks = SSeg f l -> exists r, ks = f :: r.
Proof.
  destruct ks as [|k r]; [discriminate|]. cbn [summary]. destruct (summary r) as [| |f' l']; try discriminate.
  - intros [= <- _]. eexists; reflexivity.
  - destruct (adjb k f'); [|discriminate]. intros [= <- _]. eexists; reflexivity.
Qed.

Lemma summary_chain ks f l : summary ks = SSeg f l -> chain_ok ks = true.
Proof.
  revert f l. induction ks as [|k r IH]; intros f l; [discriminate|]. cbn [summary].
  destruct (summary r) as [| |f' l'] eqn:Er.
  - apply summary_empty in Er. subst r. reflexivity.
  - discriminate.
  - destruct (adjb k f') eqn:Ea; [|discriminate]. intros _. destruct (summary_seg_head _ _ _ Er) as [r' ->].
    cbn [chain_ok]. rewrite Ea. exact (IH _ _ eq_refl).
Qed.

Definition mem (k : tkind) (l : list tkind) : bool := existsb (tkind_eqb k) l.
Definition seg_in (F L : list tkind) (s : summ) : bool :=
  match s with SSeg f l => mem f F && mem l L | _ => false end.

Lemma mem_in k l : mem k l = true -> In k l.
Proof.
  unfold mem. intros H. apply existsb_exists in H. destruct H as (x & Hx & E). unfold tkind_eqb in E.
  destruct (tkind_eq_dec k x) as [->|]; [exact Hx|discriminate E].
Qed.

Lemma seg_in_cases F L s : seg_in F L s = true -> exists f l, s = SSeg f l /\ In f F /\ In l L.
Proof.
  destruct s as [| |f l]; try discriminate. cbn [seg_in]. intros H. apply andb_prop in H. destruct H as [H1 H2].
  exists f, l. split; [reflexivity|]. split; apply mem_in; assumption.
Qed.

(* ---------- the printed pieces ---------- *)
Lemma path_summ p : p <> [] -> summary (kinds (print_path p)) = SSeg K_ATTRNAME K_ATTRNAME.
Proof.
  induction p as [|n [|n2 r] IH]; [congruence|reflexivity|]. intros _.
  change (print_path (n :: n2 :: r)) with ((K_ATTRNAME, n) :: tDOT :: print_path (n2 :: r)).
  cbn [kinds map fst tDOT summary]. unfold kinds in IH. rewrite IH by discriminate. vm_compute. reflexivity.
Qed.

Lemma sublist_summ k l : l <> [] -> In k [K_INT; K_DOUBLE; K_STRING] -> summary (kinds (print_sublist k l)) = SSeg k K_RB.
Proof.
  intros Hl Hk. induction l as [|x [|y r] IH]; [congruence| |].
  - cbn [In] in Hk. destruct Hk as [<-|[<-|[<-|[]]]]; vm_compute; reflexivity.
  - change (print_sublist k (x :: y :: r)) with ((k, x) :: tCOMMA :: print_sublist k (y :: r)).
    cbn [kinds map fst tCOMMA summary]. unfold kinds in IH. rewrite IH by discriminate.
    cbn [In] in Hk. destruct Hk as [<-|[<-|[<-|[]]]]; vm_compute; reflexivity.
Qed.

Lemma value_summ v : wf_value v -> seg_in vals vlast (summary (kinds (print_value v))) = true.
Proof.
  intros Hw. destruct v as [t| |t|t|t|neg i e|l|l|l]; try (vm_compute; reflexivity).
  - destruct e as [x|]; destruct neg; vm_compute; reflexivity.
  - cbn [print_value kinds map fst tLB summary]. change (map fst (print_sublist K_INT l)) with (kinds (print_sublist K_INT l)).
    rewrite (sublist_summ K_INT l Hw) by (cbn; tauto). vm_compute. reflexivity.
  - cbn [print_value kinds map fst tLB summary]. change (map fst (print_sublist K_DOUBLE l)) with (kinds (print_sublist K_DOUBLE l)).
    rewrite (sublist_summ K_DOUBLE l Hw) by (cbn; tauto). vm_compute. reflexivity.
  - cbn [print_value kinds map fst tLB summary]. change (map fst (print_sublist K_STRING l)) with (kinds (print_sublist K_STRING l)).
    rewrite (sublist_summ K_STRING l Hw) by (cbn; tauto). vm_compute. reflexivity.
Qed.

Definition leaf_last := K_PR :: vlast.

Lemma leaf_summ q : wf_leaf q -> seg_in [K_ATTRNAME] leaf_last (summary (kinds (print_leaf q))) = true.
Proof.
  intros Hw. destruct q as [? ?|? ? ?|p|p op v]; [destruct Hw|destruct Hw| |].
  - cbn [print_leaf wf_leaf] in *. rewrite kinds_app, summary_app, (path_summ p Hw). vm_compute. reflexivity.
  - cbn [print_leaf wf_leaf] in *. destruct Hw as [Hp Hv].
    rewrite kinds_app, summary_app, (path_summ p Hp), kinds_app, summary_app.
    destruct (seg_in_cases _ _ _ (value_summ v Hv)) as (f & l & -> & Hf & Hl).
    cbn [vals vlast In] in Hf, Hl.
    destruct op; repeat (destruct Hf as [<-|Hf]); try contradiction Hf;
      repeat (destruct Hl as [<-|Hl]); try contradiction Hl; vm_compute; reflexivity.
Qed.

Definition rest_ok (s : summ) : bool :=
  match s with SEmpty => true | SBad => false | SSeg f l => tkind_eqb f K_SP && mem l plast end.

Lemma rest_ok_cases s : rest_ok s = true -> s = SEmpty \/ exists l, s = SSeg K_SP l /\ In l plast.
Proof.
  destruct s as [| |f l]; [left; reflexivity|discriminate|]. cbn [rest_ok]. intros H. apply andb_prop in H. destruct H as [H1 H2].
  right. unfold tkind_eqb in H1. destruct (tkind_eq_dec f K_SP) as [->|]; [|discriminate H1]. exists l. split; [reflexivity|apply mem_in; exact H2].
Qed.

Ltac enum H := repeat (destruct H as [<-|H]); try contradiction H.

Lemma leaf_prim_summ q : wf_leaf q -> seg_in pfirst plast (summary (kinds (print_leaf q))) = true.
Proof.
  intros Hw. destruct (seg_in_cases _ _ _ (leaf_summ q Hw)) as (f & l & -> & Hf & Hl).
  cbn [leaf_last vlast In] in Hf, Hl. enum Hf; enum Hl; vm_compute; reflexivity.
Qed.

Lemma chain_summ : forall c, wf_chain c -> seg_in pfirst plast (summary (kinds (print_chain c))) = true
with prim_summ : forall p, wf_prim p -> seg_in pfirst plast (summary (kinds (print_prim p))) = true.
Proof.
  - intros [f l] Hw. apply wf_chain_eq in Hw. destruct Hw as [Hf Hl]. rewrite print_chain_eq in *.
    assert (Hr : rest_ok (summary (kinds (print_rest l))) = true).
    { clear -Hl prim_summ. induction l as [|[o p] l IH]; [reflexivity|]. destruct Hl as [Hp Hl'].
      cbn [print_rest] in *.
      change (tSP :: (K_LOGICAL_OPERATOR, if o then t_or else t_and) :: tSP :: print_prim p ++ print_rest l)
        with ([tSP; (K_LOGICAL_OPERATOR, if o then t_or else t_and); tSP] ++ print_prim p ++ print_rest l) in *.
      rewrite kinds_app, summary_app, kinds_app, summary_app.
      destruct (seg_in_cases _ _ _ (prim_summ p Hp)) as (f & la & -> & Hf & Hla).
      destruct (rest_ok_cases _ (IH Hl')) as [->|(l2 & -> & Hl2)];
        cbn [pfirst plast vlast In] in *; enum Hf; enum Hla; try (enum Hl2); vm_compute; reflexivity. }
    rewrite kinds_app, summary_app.
    destruct (seg_in_cases _ _ _ (prim_summ f Hf)) as (f0 & la & -> & Hf0 & Hla).
    destruct (rest_ok_cases _ Hr) as [->|(l2 & -> & Hl2)];
      cbn [pfirst plast vlast In] in *; enum Hf0; enum Hla; try (enum Hl2); vm_compute; reflexivity.
  - intros [q|neg sp0 sp1 sp2 inner] Hw.
    + apply leaf_prim_summ; assumption.
    + cbn [print_prim wf_prim] in *.
      rewrite !kinds_app, !summary_app.
      destruct (seg_in_cases _ _ _ (chain_summ inner Hw)) as (f & la & -> & Hf & Hla).
      cbn [pfirst plast vlast In] in *. 
      destruct neg, sp0, sp1, sp2; enum Hf; enum Hla; vm_compute; reflexivity.
Qed.

Lemma fst_norm t : fst (norm t) = fst t.
Proof. destruct t as [k w]. destruct k; reflexivity. Qed.

Lemma kinds_norm ts : kinds (map norm ts) = kinds ts.
Proof. unfold kinds. rewrite map_map. apply map_ext. exact fst_norm. Qed.

(* THE theorem: any spelling of a sentence's tokens, concatenated, lexes to those tokens ... *)
Theorem spelled_sentence_lexes c ts :
  wf_chain c -> map norm ts = print_chain c -> Forall tok_ok ts ->
  lex g4_lexer_rules (cat_texts ts) = Some ts.
Proof.
  intros Hw Hn Hall. apply context_lex; [exact Hall|].
  change (map fst ts) with (kinds ts). rewrite <- kinds_norm, Hn.
  destruct (seg_in_cases _ _ _ (chain_summ c Hw)) as (f & l & E & _). exact (summary_chain _ _ _ E).
Qed.

(* ... and therefore the text parses to the tree of the sentence, whatever the spelling *)
Theorem spelled_sentence_parses c ts :
  wf_chain c -> map norm ts = print_chain c -> Forall tok_ok ts ->
  parse_text (cat_texts ts) = Some (erase_chain c).
Proof.
  intros Hw Hn Hall. unfold parse_text. rewrite (spelled_sentence_lexes c ts Hw Hn Hall).
  unfold parse_tokens. rewrite Hn. apply parse_core_print. exact Hw.
Qed.

(* two spellings of one sentence give one tree *)
Corollary respelling_same_tree c ts1 ts2 :
  wf_chain c -> map norm ts1 = print_chain c -> map norm ts2 = print_chain c ->
  Forall tok_ok ts1 -> Forall tok_ok ts2 ->
  parse_text (cat_texts ts1) = parse_text (cat_texts ts2).
Proof.
  intros Hw H1 H2 A1 A2. rewrite (spelled_sentence_parses c ts1 Hw H1 A1), (spelled_sentence_parses c ts2 Hw H2 A2). reflexivity.
Qed.

(* the hypotheses are satisfiable: NOT( \n x == "a" \n\n and y IN [1,  2] or \n z > -1e+5) *)
Definition ex_ts : list tok :=
  [(K_NOT,[78;79;84]); (K_LP,[40]); (K_SP,[32;10]); (K_ATTRNAME,[120]); (K_SP,[32]); (K_EQ,[61;61]); (K_SP,[32]); (K_STRING,[34;97;34]);
   (K_SP,[32;10;10]); (K_LOGICAL_OPERATOR,[97;110;100]); (K_SP,[32]); (K_ATTRNAME,[121]); (K_SP,[32]); (K_IN,[73;78]); (K_SP,[32]);
   (K_LB,[91]); (K_INT,[49]); (K_COMMA,[44;32;32]); (K_INT,[50]); (K_RB,[93]);
   (K_SP,[32]); (K_LOGICAL_OPERATOR,[111;114]); (K_SP,[32;10]); (K_ATTRNAME,[122]); (K_SP,[32]); (K_GT,[62]); (K_SP,[32]);
   (K_MINUS,[45]); (K_INT,[49]); (K_EXP,[101;43;53]); (K_RP,[41])].
Definition ex_c : lchain :=
  LChain (LParen true false true false
    (LChain (LLeaf (QCompare [[120]] EQ (VString [34;97;34]))) [(false, LLeaf (QCompare [[121]] IN (VListInts [[49];[50]])));
       (true, LLeaf (QCompare [[122]] GT (VLong true [49] (Some [101;43;53]))))])) [].

Example ex_hyps : wf_chain ex_c /\ map norm ex_ts = print_chain ex_c /\ Forall tok_ok ex_ts.
Proof.
  split; [cbn; repeat split; discriminate|]. split; [reflexivity|].
  repeat constructor; try (vm_compute; reflexivity); cbn [fst snd]; try discriminate; intros _; vm_compute; reflexivity.
Qed.

Example ex_parses : parse_text (cat_texts ex_ts) = Some (erase_chain ex_c).
Proof. destruct ex_hyps as (H1 & H2 & H3). exact (spelled_sentence_parses ex_c ex_ts H1 H2 H3). Qed.
