(* Values.v — Go values as far as the engine can tell them apart; float64 as
   exact dyadic numbers; strconv.ParseInt / ParseFloat on the literal texts the
   grammar admits.  Definitions only. *)
From Rules Require Export Base.
Open Scope Z_scope.

(* ---------- float64 ---------- *)
(* FFin m e denotes m * 2^e exactly (m signed; -0 and +0 are both m = 0, the
   engine cannot tell them apart).  The representation need not be normalised. *)
Inductive f64 := FNaN | FInf (neg : bool) | FFin (m : Z) (e : Z).

Definition f64_of_bits (b : N) : f64 :=
  let neg := N.testbit b 63 in
  let ex := ((b / 4503599627370496) mod 2048)%N in
  let frac := (b mod 4503599627370496)%N in
  let sgn (m : Z) := if neg then - m else m in
  if (ex =? 2047)%N then (if (frac =? 0)%N then FInf neg else FNaN)
  else if (ex =? 0)%N then FFin (sgn (Z.of_N frac)) (-1074)
  else FFin (sgn (4503599627370496 + Z.of_N frac)) (Z.of_N ex - 1075).

(* exact order of m1*2^e1 and m2*2^e2 *)
Definition dyadic_compare (m1 e1 m2 e2 : Z) : comparison :=
  let e := Z.min e1 e2 in
  Z.compare (m1 * 2 ^ (e1 - e)) (m2 * 2 ^ (e2 - e)).

(* IEEE comparison: None = unordered (a NaN is involved) *)
Definition f64_compare (a b : f64) : option comparison :=
  match a, b with
  | FNaN, _ | _, FNaN => None
  | FInf na, FInf nb => Some (if na then (if nb then Eq else Lt) else (if nb then Gt else Eq))
  | FInf na, FFin _ _ => Some (if na then Lt else Gt)
  | FFin _ _, FInf nb => Some (if nb then Gt else Lt)
  | FFin m1 e1, FFin m2 e2 => Some (dyadic_compare m1 e1 m2 e2)
  end.

Definition f64_of_int_exact (z : Z) : f64 := FFin z 0.

(* exact order of a float64 and an integer: the specification of compareFloatToInt *)
Definition f64_compare_Z (a : f64) (z : Z) : option comparison :=
  f64_compare a (FFin z 0).

(* compareFloatToInt (parser/int_operation.go) step by step:
     f != f -> unordered;  f >= 2^63 -> +1;  f < -2^63 -> -1;
     whole := math.Trunc(f); i := int(whole);
     i < r -> -1;  i > r -> +1;  f < whole -> -1;  f > whole -> +1;  0            *)
Definition two63 : Z := 9223372036854775808.
Definition compare_float_to_int (a : f64) (r : Z) : option comparison :=
  match a with
  | FNaN => None
  | FInf neg => Some (if neg then Lt else Gt)
  | FFin m e =>
      match dyadic_compare m e two63 0 with
      | Lt =>
          match dyadic_compare m e (- two63) 0 with
          | Lt => Some Lt
          | _ =>
              (* math.Trunc: toward zero; exact because |f| < 2^63 *)
              let whole := Z.quot (m * 2 ^ (Z.max e 0)) (2 ^ (Z.max (- e) 0)) in
              match Z.compare whole r with
              | Lt => Some Lt
              | Gt => Some Gt
              | Eq => Some (dyadic_compare m e whole 0)
              end
          end
      | _ => Some Gt
      end
  end.

(* ---- rounding a non-negative rational num/den to nearest-even binary64 ---- *)
(* Some f : the rounded value (finite);  None : overflow (|x| >= 2^1024 after rounding) *)
Definition round_pos_rational (num den : Z) : option (Z * Z) :=
  if num =? 0 then Some (0, 0) else
  let lb := Z.log2 num - Z.log2 den in
  (* scaled k : q = floor (num * 2^k / den) *)
  let quot (k : Z) := if 0 <=? k then (num * 2 ^ k) / den else num / (den * 2 ^ (- k)) in
  let k0 := 52 - lb in
  let q0 := quot k0 in
  let k1 := if 9007199254740992 <=? q0 then k0 - 1
            else if q0 <? 4503599627370496 then k0 + 1 else k0 in
  let k := Z.min k1 1074 in
  let n := if 0 <=? k then num * 2 ^ k else num in
  let d := if 0 <=? k then den else den * 2 ^ (- k) in
  let q := n / d in
  let r := n mod d in
  let q' := match Z.compare (2 * r) d with
            | Gt => q + 1
            | Eq => if Z.odd q then q + 1 else q
            | Lt => q
            end in
  let e := - k in
  (* largest finite: (2^53 - 1) * 2^971 *)
  if (971 <? e) || ((e =? 971) && (9007199254740992 <=? q')) then None
  else Some (q', e).

(* float64(int) conversion of Go: round to nearest even (never overflows) *)
Definition f64_of_Z (z : Z) : f64 :=
  match round_pos_rational (Z.abs z) 1 with
  | Some (m, e) => FFin (if z <? 0 then - m else m) e
  | None => FInf (z <? 0)
  end.

(* ---------- decimal digit strings ---------- *)
Definition is_digit (c : N) : bool := (48 <=? c)%N && (c <=? 57)%N.

Fixpoint digits_val_acc (acc : Z) (t : text) : option Z :=
  match t with
  | [] => Some acc
  | c :: t' => if is_digit c then digits_val_acc (acc * 10 + (Z.of_N c - 48)) t' else None
  end.

(* value of a non-empty all-digit text *)
Definition digits_val (t : text) : option Z :=
  match t with [] => None | _ => digits_val_acc 0 t end.

Definition min_int64 : Z := -9223372036854775808.
Definition max_int64 : Z := 9223372036854775807.
Definition max_uint64 : Z := 18446744073709551615.

(* strconv.ParseInt(s, 10, 64): optional sign, then digits only *)
Definition parse_int (t : text) : option Z :=
  let '(neg, ds) := match t with
                    | 45%N :: r => (true, r)
                    | 43%N :: r => (false, r)
                    | _ => (false, t)
                    end in
  match digits_val ds with
  | None => None
  | Some v => let z := if neg then - v else v in
              if (min_int64 <=? z) && (z <=? max_int64) then Some z else None
  end.

(* strconv.ParseUint(s, 10, 64) on a byte string *)
Definition parse_uint64 (t : bytes) : option Z :=
  match digits_val t with
  | Some v => if v <=? max_uint64 then Some v else None
  | None => None
  end.

(* ---------- strconv.ParseFloat on texts of the shape of a DOUBLE token:
   '-'? digits '.' digits ([eE] [+-]? digits)?   (anything else: None = error) *)
Fixpoint span_digits (t : text) : text * text :=
  match t with
  | c :: t' => if is_digit c then let '(a, b) := span_digits t' in (c :: a, b) else ([], t)
  | [] => ([], [])
  end.

Inductive pf_result := PFError | PFVal (f : f64).

(* the number a decimal text denotes: sign, digits D (integer and fraction part together) and
   decimal exponent e10, i.e. (-1)^neg * D * 10^e10;  None: not of the shape above *)
Definition dec_parts (t : text) : option (bool * Z * Z) :=
  let '(neg, t1) := match t with 45%N :: r => (true, r) | 43%N :: r => (false, r) | _ => (false, t) end in
  let '(ip, t2) := span_digits t1 in
  let '(fp, t3) := match t2 with
                   | 46%N :: r => span_digits r
                   | _ => ([], t2)
                   end in
  match ip ++ fp with
  | [] => None
  | ds =>
    let exp10 : option Z :=
      match t3 with
      | [] => Some 0
      | c :: r =>
          if (c =? 101)%N || (c =? 69)%N then
            let '(eneg, r') := match r with 45%N :: r' => (true, r') | 43%N :: r' => (false, r') | _ => (false, r) end in
            match digits_val r' with
            | Some v => Some (if eneg then - v else v)
            | None => None
            end
          else None
      end in
    match exp10, digits_val ds with
    | Some ex, Some D => Some (neg, D, ex - Z.of_nat (length fp))
    | _, _ => None
    end
  end.

(* D * 10^e10 as a fraction *)
Definition dec_fraction (D e10 : Z) : Z * Z :=
  if 0 <=? e10 then (D * 10 ^ e10, 1) else (D, 10 ^ (- e10)).

Definition parse_float (t : text) : pf_result :=
  match dec_parts t with
  | None => PFError
  | Some (neg, D, e10) =>
      if D =? 0 then PFVal (FFin 0 0) else
      (* number of significant decimal digits of D *)
      let nd := Z.log2 D / 3 + 1 in   (* over-approximation of the digit count: 10^nd > D *)
      if 310 <=? e10 then PFError                       (* D >= 1 : value >= 10^310 *)
      else if e10 + nd <=? -330 then PFVal (FFin 0 0)   (* value < 10^-330 : rounds to 0 *)
      else
        let '(num, den) := dec_fraction D e10 in
        match round_pos_rational num den with
        | Some (m, e) => PFVal (FFin (if neg then - m else m) e)
        | None => PFError
        end
  end.

(* ---------- Go values an input object can hold ---------- *)
Inductive gval :=
| GNil                                  (* untyped nil / missing key *)
| GBool (b : bool)
| GInt (z : Z) | GInt32 (z : Z) | GInt64 (z : Z)
| GF64 (f : f64)
| GStr (s : bytes)
| GStringer (s : option bytes)          (* a non-string type with String(); None: String() panics *)
| GMap (kv : list (bytes * gval))       (* exactly map[string]interface{} (nil map = []) *)
| GOther (tag : N).                     (* any other dynamic type: named map, slice, struct, func,
                                           chan, typed nil pointer, uint8, float32, ... *)

Fixpoint lookup (k : bytes) (kv : list (bytes * gval)) : gval :=
  match kv with
  | [] => GNil
  | (k', v) :: r => if bytes_eqb k k' then v else lookup k r
  end.

Definition is_nil (v : gval) : bool := match v with GNil => true | _ => false end.

(* ---------- rule operands (what the literal visitors leave in rightOp) ---------- *)
Inductive operand :=
| RNil
| RBool (b : bool)
| RInt (z : Z)
| RF64 (f : f64)
| RStr (s : bytes)
| RInts (l : list Z)
| RFloats (l : list f64)
| RStrs (l : list bytes).
