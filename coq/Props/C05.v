(* C05 — malformed rules are rejected, never partially evaluated. *)
From Rules Require Import Eval EvalProofs.
Open Scope N_scope.

(* a verdict true is produced only for a text whose trimmed form lexes (maximal munch over the
   lexer rules generated from JsonQuery.g4) and parses to end of input as one `query` *)
Theorem C05_only_sentences :
  forall lower rule o, o_verdict (run lower rule o) = true ->
    exists toks q, lex g4_lexer_rules (trim_space (utf8_decode rule)) = Some toks /\ parse_tokens toks = Some q.
Proof.
  intros lower rule o H. unfold run, new_evaluator, process in H. cbn in H.
  unfold parse_rule, parse_text in H.
  destruct (lex g4_lexer_rules (trim_space (utf8_decode rule))) as [toks|]; [|discriminate].
  destruct (parse_tokens toks) as [q|] eqn:E; [|discriminate]. exists toks, q. split; [reflexivity|exact E].
Qed.
Print Assumptions C05_only_sentences.

(* every other text: (false, error) from NewEvaluator+Process and rules.Evaluate, false from
   parser.Evaluate, whatever the object *)
Theorem C05_reject :
  forall lower rule o, parse_rule rule = None ->
    run lower rule o = mkOut false ErrOther None /\
    rules_evaluate lower rule o = (false, ErrOther) /\
    parser_evaluate lower rule o = false.
Proof.
  intros lower rule o H. pose proof (run_reject lower rule o H) as R.
  unfold rules_evaluate, parser_evaluate. rewrite R. repeat split.
Qed.
Print Assumptions C05_reject.

(* the texts of the statement are not sentences *)
Example C05_examples :
  forallb (fun r => match parse_rule r with None => true | Some _ => false end)
    [ [120;32;101;113;32;49;32;65;78;68;32;121;32;101;113;32;50];   (* x eq 1 AND y eq 2 *)
      [120;32;108;116;32;49;101;53];                                (* x lt 1e5 *)
      [120;32;101;113;32;48;49];                                    (* x eq 01 *)
      [110;111;116;32;120;32;101;113;32;49];                        (* not x eq 1 *)
      [120;32;101;113;32;49;32;103;97;114;98;97;103;101];           (* x eq 1 garbage *)
      [120;32;101;113;32;49;10;32;97;110;100;32;121;32;101;113;32;50]; (* x eq 1\n and y eq 2 *)
      [] ] = true /\
  parse_rule [32;120;32;101;113;32;49;10] <> None.                 (* outer whitespace aside *)
Proof. split; [vm_compute; reflexivity|vm_compute; discriminate]. Qed.
