(* C05 — malformed rules are rejected, never partially evaluated. *)
From Rules Require Import Eval EvalProofs Grammar SentenceProofs.
Open Scope N_scope.

(* [is_sentence t]: t has a maximal-munch tokenisation over the lexer rules generated from
   JsonQuery.g4 whose token list derives from the start rule `query` by the parser rules
   generated from JsonQuery.g4 — nothing left over. *)

(* a verdict true is produced only for a sentence (outer whitespace aside) *)
Theorem C05_only_sentences :
  forall lower rule o, o_verdict (run lower rule o) = true -> is_sentence (trim_space (utf8_decode rule)).
Proof. exact verdict_only_for_sentences. Qed.
Print Assumptions C05_only_sentences.

(* every other text: (false, error) from NewEvaluator+Process and rules.Evaluate, false from
   parser.Evaluate, whatever the object *)
Theorem C05_reject :
  forall lower rule o, ~ is_sentence (trim_space (utf8_decode rule)) ->
    run lower rule o = mkOut false ErrOther None /\
    rules_evaluate lower rule o = (false, ErrOther) /\
    parser_evaluate lower rule o = false.
Proof. exact non_sentences_rejected. Qed.
Print Assumptions C05_reject.

(* the model recogniser decides sentence-hood *)
Theorem C05_recogniser : forall t, parse_text t <> None <-> is_sentence t.
Proof. exact parse_text_iff_sentence. Qed.
Print Assumptions C05_recogniser.

(* the texts of the statement are not sentences *)
Example C05_examples :
  forallb (fun r => match parse_rule r with None => true | Some _ => false end)
    [ [120;32;101;113;32;49;32;65;78;68;32;121;32;101;113;32;50];   (* x eq 1 AND y eq 2 *)
      [120;32;108;116;32;49;101;53];                                (* x lt 1e5 *)
      [120;32;101;113;32;48;49];                                    (* x eq 01 *)
      [110;111;116;32;120;32;101;113;32;49];                        (* not x eq 1 *)
      [120;32;101;113;32;49;32;103;97;114;98;97;103;101];           (* x eq 1 garbage *)
      [120;32;101;113;32;49;10;32;97;110;100;32;121;32;101;113;32;50]; (* x eq 1\n and y eq 2 *)
      [] ] = true /\
  parse_rule [32;120;32;101;113;32;49;10] <> None.                 (* outer whitespace aside *)
Proof. split; [vm_compute; reflexivity|vm_compute; discriminate]. Qed.
