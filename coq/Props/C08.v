(* C08 — `in` is membership under the same equality as `eq`. *)
From Rules Require Import Spec Eval Refinement SemLaws Theorems InProofs.

Theorem C08_ints :
  forall lower top p l zs, l <> [] -> Semver.map_opt parse_int l = Some zs ->
    same_outcome (sh lower top (QCompare p IN (VListInts l))) (sh lower top (or_chain (map (eq_leaf_int p) l))).
Proof. exact c08_ints. Qed.
Theorem C08_doubles :
  forall lower top p l fs, l <> [] -> Semver.map_opt pf_opt l = Some fs ->
    same_outcome (sh lower top (QCompare p IN (VListDoubles l))) (sh lower top (or_chain (map (eq_leaf_dbl p) l))).
Proof. exact c08_doubles. Qed.
Theorem C08_strings :
  forall lower top p l, l <> [] ->
    same_outcome (sh lower top (QCompare p IN (VListStrings l))) (sh lower top (or_chain (map (eq_leaf_str p) l))).
Proof. exact c08_strings. Qed.
Print Assumptions C08_ints.
Print Assumptions C08_doubles.
Print Assumptions C08_strings.

(* [same_outcome] on the semantics is [same_result] on what Process returns *)
Theorem C08_transport :
  forall lower top A B, wf_query A -> wf_query B -> same_outcome (sh lower top A) (sh lower top B) ->
    same_result (process_tree lower A top) (process_tree lower B top).
Proof. exact same_outcome_result. Qed.
Print Assumptions C08_transport.

(* order and repetition of the elements do not matter *)
Theorem C08_order_repetition :
  forall (A : Type) (f : A -> bool) l1 l2, (forall x, In x l1 <-> In x l2) -> existsb f l1 = existsb f l2.
Proof. exact @existsb_same_elements. Qed.
Print Assumptions C08_order_repetition.

(* 1.0 (float64) is a member of [1,2]; "abc" of ["ABC"] *)
Example C08_example :
  o_verdict (run go_lower [120;32;105;110;32;91;49;44;50;93]%N [([120]%N, GF64 (f64_of_bits 4607182418800017408))]) = true /\
  o_verdict (run go_lower [120;32;105;110;32;91;34;65;66;67;34;93]%N [([120]%N, GStr [97;98;99]%N)]) = true.
Proof. split; vm_compute; reflexivity. Qed.
