(* C12 — evaluators on different goroutines do not interfere (partial: the theorem is about
   the model, which has no component shared between evaluators; data-race freedom of the
   Go runtime, the generated code's lazily initialised statics and the ANTLR caches is
   sampled with the race detector). *)
From Rules Require Import Eval Histories SourceC12.

(* for EVERY interleaving of per-goroutine operations, each goroutine observes exactly what
   it observes running alone *)
Theorem C12_interleaving :
  forall lower sched s g, proj_outs g (sys_run lower s sched) = erun lower (s g) (proj_ops g sched).
Proof. exact c12_interleaving. Qed.
Print Assumptions C12_interleaving.

(* checked on the source of this run: the hand-written code starts no goroutine, never assigns to
   or through a package-level variable, never takes the address of one, and mentions
   package-level variables only in ways that cannot change them (see SourceC12.use_ok) *)
Theorem C12_no_shared_state :
  forallb (fun u => use_ok (kind_of (snd (fst u))) (snd u)) SourceFacts.pkg_uses = true /\
  SourceFacts.pkg_assigns = [] /\ SourceFacts.go_stmts = [].
Proof. exact c12_no_shared_state. Qed.
Print Assumptions C12_no_shared_state.
