(* C12 — evaluators on different goroutines do not interfere (partial: the theorem is about
   the model, which has no component shared between evaluators; data-race freedom of the
   Go runtime, the generated code's lazily initialised statics and the ANTLR caches is
   sampled with the race detector). *)
From Rules Require Import Eval Histories SourceProofs.

(* for EVERY interleaving of per-goroutine operations, each goroutine observes exactly what
   it observes running alone *)
Theorem C12_interleaving :
  forall lower sched s g, proj_outs g (sys_run lower s sched) = erun lower (s g) (proj_ops g sched).
Proof. exact c12_interleaving. Qed.
Print Assumptions C12_interleaving.

(* checked on the source of this run: no package-level variable except the two error
   sentinels, none assigned or address-taken, no goroutine started by the package *)
Theorem C12_no_shared_state :
  forallb (fun v => sentinel (fst (fst v))) SourceFacts.pkg_vars = true /\
  SourceFacts.pkg_assigns = [] /\ SourceFacts.go_stmts = [].
Proof. exact c12_no_shared_state. Qed.
Print Assumptions C12_no_shared_state.
