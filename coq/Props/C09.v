(* C09 — version literals compare by semantic-version precedence. *)
From Rules Require Import Spec Eval Refinement OpsProps ValuesProps LeafTheorems.
Open Scope Z_scope.

Theorem C09_valid :
  forall lower top p op t a va vb,
    p <> [] -> denote top p = Ok (GStr a) -> sv_parse a = Some va -> sv_parse (utf8_encode t) = Some vb -> is_rel op ->
    process_tree lower (QCompare p op (VVersion t)) top = mkOut (rel_holds op (Some (sv_compare va vb))) ErrNone None.
Proof. exact c09_valid. Qed.
Print Assumptions C09_valid.

Theorem C09_other :
  forall lower top p op t l,
    p <> [] -> denote top p = Ok l -> (match l with GStr a => sv_parse a = None | _ => True end) -> is_rel op ->
    o_verdict (process_tree lower (QCompare p op (VVersion t)) top) = false /\
    o_err (process_tree lower (QCompare p op (VVersion t)) top) = ErrNone.
Proof. exact c09_other. Qed.
Print Assumptions C09_other.

(* precedence is a total preorder; equal precedence = same numbers and pre-release *)
Theorem C09_total_preorder :
  cmp_antisym sv_compare /\ cmp_trans sv_compare /\ (forall v, sv_compare v v = Eq) /\
  (forall v o, sv_compare v o = Eq <-> (major v = major o /\ minor v = minor o /\ patch v = patch o /\ pre v = pre o)).
Proof. exact (conj sv_compare_antisym (conj sv_compare_trans (conj sv_compare_refl sv_compare_eq))). Qed.
Print Assumptions C09_total_preorder.

Theorem C09_numeric_components :
  (forall v o, major v < major o -> sv_compare v o = Lt) /\
  (forall v o, major v = major o -> minor v < minor o -> sv_compare v o = Lt) /\
  (forall v o, major v = major o -> minor v = minor o -> patch v < patch o -> sv_compare v o = Lt).
Proof. exact (conj sv_numeric (conj sv_numeric_minor sv_numeric_patch)). Qed.

Theorem C09_prerelease_below_release :
  forall M m p x r b1 b2,
    sv_compare {| major := M; minor := m; patch := p; pre := x :: r; build := b1 |}
               {| major := M; minor := m; patch := p; pre := []; build := b2 |} = Lt.
Proof. exact sv_prerelease_below. Qed.

Theorem C09_build_ignored :
  forall v b' o,
    sv_compare {| major := major v; minor := minor v; patch := patch v; pre := pre v; build := b' |} o = sv_compare v o /\
    sv_compare o {| major := major v; minor := minor v; patch := patch v; pre := pre v; build := b' |} = sv_compare o v.
Proof. exact sv_build_ignored. Qed.
Print Assumptions C09_numeric_components.
Print Assumptions C09_prerelease_below_release.
Print Assumptions C09_build_ignored.

(* 1.10.0 > 1.9.0 ; 1.0.0-beta < 1.0.0 ; "1.0", "v1.0.0", "1.0.0." are not versions *)
Example C09_example :
  let s := fun (l : list Z) => map Z.to_N l in
  o_verdict (run go_lower (s [120;32;103;116;32;49;46;57;46;48]) [(s [120], GStr (s [49;46;49;48;46;48]))]) = true /\
  o_verdict (run go_lower (s [120;32;108;116;32;49;46;48;46;48]) [(s [120], GStr (s [49;46;48;46;48;45;98;101;116;97]))]) = true /\
  sv_parse (s [49;46;48]) = None /\ sv_parse (s [118;49;46;48;46;48]) = None /\ sv_parse (s [49;46;48;46;48;46]) = None.
Proof. repeat split; vm_compute; reflexivity. Qed.
