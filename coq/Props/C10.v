(* C10 — presence, null and boolean literals mean what they say. *)
From Rules Require Import Spec Eval Refinement LeafTheorems.

Theorem C10_pr :
  forall lower top p lv, p <> [] -> denote top p = Ok lv ->
    o_verdict (process_tree lower (QPresent p) top) = negb (is_nil lv) /\ o_err (process_tree lower (QPresent p) top) = ErrNone.
Proof. exact c10_pr. Qed.
Print Assumptions C10_pr.

Theorem C10_null :
  forall lower top p lv, p <> [] -> denote top p = Ok lv ->
    process_tree lower (QCompare p EQ VNull) top = mkOut (is_nil lv) ErrNone None /\
    process_tree lower (QCompare p NE VNull) top = mkOut (negb (is_nil lv)) ErrNone None.
Proof. exact c10_null. Qed.
Print Assumptions C10_null.

Theorem C10_bool :
  forall lower top p lv b, p <> [] -> denote top p = Ok lv ->
    o_verdict (process_tree lower (QCompare p EQ (lit_bool b)) top) = (match lv with GBool x => Bool.eqb x b | _ => false end) /\
    o_verdict (process_tree lower (QCompare p NE (lit_bool b)) top) = (match lv with GBool x => negb (Bool.eqb x b) | _ => false end) /\
    o_err (process_tree lower (QCompare p EQ (lit_bool b)) top) = ErrNone /\
    o_err (process_tree lower (QCompare p NE (lit_bool b)) top) = ErrNone.
Proof. exact c10_bool. Qed.
Print Assumptions C10_bool.

(* false and 0 are present; `x ne true` is false for a non-bool *)
Example C10_example :
  run go_lower [120;32;112;114]%N [([120]%N, GBool false)] = mkOut true ErrNone None /\
  run go_lower [120;32;112;114]%N [([120]%N, GInt 0)] = mkOut true ErrNone None /\
  o_verdict (run go_lower [120;32;110;101;32;116;114;117;101]%N [([120]%N, GInt 1)]) = false.
Proof. repeat split; vm_compute; reflexivity. Qed.
