(* C03 — numeric comparisons agree with the mathematical order. *)
From Rules Require Import Spec Eval Refinement OpsProps ValuesProps FloatProofs LeafTheorems RoundProofs DecimalProofs DecimalLeaf.
From Coq Require Import QArith.

(* integer attribute (int, int32, int64) against an integer literal: the order of Z *)
Theorem C03_int_int :
  forall lower top p op neg i e l z n,
    p <> [] -> denote top p = Ok l -> int_attr l z -> parse_int (long_text neg i e) = Some n -> is_rel op ->
    process_tree lower (QCompare p op (VLong neg i e)) top = mkOut (rel_holds op (Some (Z.compare z n))) ErrNone None.
Proof. exact c03_int_int. Qed.
Print Assumptions C03_int_int.

(* finite float64 attribute m*2^e against an integer literal: the order of the rationals
   (no truncation: 1.7 is greater than 1 and not equal to it) *)
Theorem C03_float_int :
  forall lower top p op neg i ex m e n,
    p <> [] -> denote top p = Ok (GF64 (FFin m e)) -> parse_int (long_text neg i ex) = Some n -> is_rel op ->
    process_tree lower (QCompare p op (VLong neg i ex)) top
    = mkOut (rel_holds op (Some (Qcompare (Qval m e) (inject_Z n)))) ErrNone None.
Proof. exact c03_float_int. Qed.
Print Assumptions C03_float_int.

(* finite float64 attribute against a decimal literal (converted by ParseFloat to m'*2^e') *)
Theorem C03_float_dec :
  forall lower top p op t m e m' e',
    p <> [] -> denote top p = Ok (GF64 (FFin m e)) -> parse_float t = PFVal (FFin m' e') -> is_rel op ->
    process_tree lower (QCompare p op (VDouble t)) top
    = mkOut (rel_holds op (Some (Qcompare (Qval m e) (Qval m' e')))) ErrNone None.
Proof. exact c03_float_dec. Qed.
Print Assumptions C03_float_dec.

(* Go int attribute against a decimal literal: the attribute is converted by float64(int) *)
Theorem C03_int_dec :
  forall lower top p op t z d,
    p <> [] -> denote top p = Ok (GInt z) -> parse_float t = PFVal d -> is_rel op ->
    process_tree lower (QCompare p op (VDouble t)) top = mkOut (rel_holds op (f64_compare (f64_of_Z z) d)) ErrNone None.
Proof. exact c03_int_dec. Qed.
Print Assumptions C03_int_dec.

(* ... and for |z| <= 2^53 that conversion is exact: the order of the rationals *)
Theorem C03_int_dec_exact :
  forall lower top p op t z m' e',
    p <> [] -> denote top p = Ok (GInt z) -> (Z.abs z <= two53)%Z -> parse_float t = PFVal (FFin m' e') -> is_rel op ->
    process_tree lower (QCompare p op (VDouble t)) top
    = mkOut (rel_holds op (Some (Qcompare (inject_Z z) (Qval m' e')))) ErrNone None.
Proof. exact c03_int_dec_exact. Qed.
Print Assumptions C03_int_dec_exact.

(* the decimal literal as a mathematical value: a text sign digits[.digits][e exponent] denotes
   Qdec neg D e10 = (-1)^neg * D * 10^e10 (dec_parts reads it off the text); when that number is
   a finite float64 (dec_is_finite_float64: zero, or M * 2^E with M < 2^53, E >= -1074, below 2^1024)
   the literal is accepted and the comparison is with the number itself *)
Theorem C03_float_dec_value :
  forall lower top p op t m e neg D e10,
    p <> [] -> denote top p = Ok (GF64 (FFin m e)) ->
    dec_parts t = Some (neg, D, e10) -> dec_is_finite_float64 D e10 -> is_rel op ->
    process_tree lower (QCompare p op (VDouble t)) top
    = mkOut (rel_holds op (Some (Qcompare (Qval m e) (Qdec neg D e10)))) ErrNone None.
Proof. exact c03_float_dec_finite. Qed.
Print Assumptions C03_float_dec_value.

Theorem C03_int_dec_value :
  forall lower top p op t z neg D e10,
    p <> [] -> denote top p = Ok (GInt z) -> (Z.abs z <= two53)%Z ->
    dec_parts t = Some (neg, D, e10) -> dec_is_finite_float64 D e10 -> is_rel op ->
    process_tree lower (QCompare p op (VDouble t)) top
    = mkOut (rel_holds op (Some (Qcompare (inject_Z z) (Qdec neg D e10)))) ErrNone None.
Proof. exact c03_int_dec_finite. Qed.
Print Assumptions C03_int_dec_value.

(* every other accepted decimal literal is converted to the NEAREST float64, ties to even
   (zero below 10^-330): m0 * 2^e is within half a unit 2^e of D * 10^e10, the significand is
   normalised or the exponent is the minimum *)
Theorem C03_decimal_nearest :
  forall t neg D e10 m e, dec_parts t = Some (neg, D, e10) -> (0 < D)%Z -> parse_float t = PFVal (FFin m e) ->
  ((e10 + (Z.log2 D / 3 + 1) <= -330)%Z /\ m = 0%Z /\ e = 0%Z) \/
  (let num := fst (dec_fraction D e10) in let den := snd (dec_fraction D e10) in
   exists m0, m = (if neg then - m0 else m0)%Z /\
   let n := Nk num (- e) in let d := Dk den (- e) in
   (Z.abs (2 * (m0 * d - n)) <= d)%Z /\ (Z.abs (2 * (m0 * d - n)) = d -> Z.even m0 = true) /\
   ((two52 <= m0 <= two53)%Z \/ (e = (-1074)%Z /\ (0 <= m0 <= two53)%Z)) /\ (-1074 <= e <= 971)%Z /\ (e = 971%Z -> (m0 < two53)%Z)).
Proof. exact parse_float_nearest. Qed.
Print Assumptions C03_decimal_nearest.

(* the same for float64(int) and any other quotient: round_pos_rational is nearest-even *)
Theorem C03_round_nearest_even :
  forall num den m e, (0 < num)%Z -> (0 < den)%Z -> round_pos_rational num den = Some (m, e) ->
  let n := Nk num (- e) in let d := Dk den (- e) in
  (Z.abs (2 * (m * d - n)) <= d)%Z /\ (Z.abs (2 * (m * d - n)) = d -> Z.even m = true) /\
  ((two52 <= m <= two53)%Z \/ (e = (-1074)%Z /\ (0 <= m <= two53)%Z)) /\ (-1074 <= e <= 971)%Z /\ (e = 971%Z -> (m < two53)%Z).
Proof. exact round_nearest_even. Qed.
Print Assumptions C03_round_nearest_even.

(* the premises hold for 1.5, -2.25, 1.0e3, 0.0 *)
Example C03_decimal_examples :
  (dec_parts [49;46;53]%N = Some (false, 15, -1)%Z /\ dec_is_finite_float64 15 (-1)) /\
  (dec_parts [45;50;46;50;53]%N = Some (true, 225, -2)%Z /\ dec_is_finite_float64 225 (-2)) /\
  (dec_parts [49;46;48;101;51]%N = Some (false, 10, 2)%Z /\ dec_is_finite_float64 10 2) /\
  (dec_parts [48;46;48]%N = Some (false, 0, -1)%Z /\ dec_is_finite_float64 0 (-1)).
Proof. exact dec_examples. Qed.

Theorem C03_nan :
  forall lower top p op v (t : f64) r,
    p <> [] -> denote top p = Ok (GF64 FNaN) -> is_rel op ->
    (lit_denote v = (OpInt, RInt r, None) \/ exists d, lit_denote v = (OpFloat, RF64 d, None) /\ t = d) ->
    process_tree lower (QCompare p op v) top = mkOut (match op with NE => true | _ => false end) ErrNone None.
Proof. exact c03_nan. Qed.
Print Assumptions C03_nan.

Theorem C03_non_numeric :
  forall lower top p op v l,
    p <> [] -> denote top p = Ok l -> non_numeric l -> is_rel op ->
    ((exists n, lit_denote v = (OpInt, RInt n, None)) \/ (exists d, lit_denote v = (OpFloat, RF64 d, None))) ->
    o_verdict (process_tree lower (QCompare p op v) top) = false /\ o_err (process_tree lower (QCompare p op v) top) = ErrNone.
Proof. exact c03_non_numeric. Qed.
Print Assumptions C03_non_numeric.

(* the exact comparison used by the model IS the order of the rationals *)
Theorem C03_dyadic_order : forall m1 e1 m2 e2, dyadic_compare m1 e1 m2 e2 = Qcompare (Qval m1 e1) (Qval m2 e2).
Proof. exact dyadic_compare_is_Qcompare. Qed.
Print Assumptions C03_dyadic_order.

(* 1.7 (0x3FFB333333333333) vs 1: not equal, greater; 2.0 equals 2 *)
Example C03_example :
  let x17 := [([120]%N, GF64 (f64_of_bits 4610334938539176755))] in
  o_verdict (run go_lower [120;32;101;113;32;49]%N x17) = false /\
  o_verdict (run go_lower [120;32;103;116;32;49]%N x17) = true /\
  o_verdict (run go_lower [120;32;101;113;32;50]%N [([120]%N, GF64 (f64_of_bits 4611686018427387904))]) = true.
Proof. repeat split; vm_compute; reflexivity. Qed.
