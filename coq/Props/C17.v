(* C17 — rules obey the laws of Boolean algebra, including failures. *)
From Rules Require Import Spec Eval Refinement SemLaws Theorems.

Theorem C17_double_negation :
  forall lower top A, wf_query A -> same_result (process_tree lower (QParen true (QParen true A)) top) (process_tree lower A top).
Proof. exact c17_double_negation. Qed.
Theorem C17_de_morgan_and :
  forall lower top A B, wf_query A -> wf_query B ->
    same_result (process_tree lower (QParen true (QLogic false A B)) top)
                (process_tree lower (QLogic true (QParen true A) (QParen true B)) top).
Proof. exact c17_de_morgan_and. Qed.
Theorem C17_de_morgan_or :
  forall lower top A B, wf_query A -> wf_query B ->
    same_result (process_tree lower (QParen true (QLogic true A B)) top)
                (process_tree lower (QLogic false (QParen true A) (QParen true B)) top).
Proof. exact c17_de_morgan_or. Qed.
Theorem C17_associativity :
  forall lower top A B C isor, wf_query A -> wf_query B -> wf_query C ->
    same_result (process_tree lower (QLogic isor (QLogic isor A B) C) top)
                (process_tree lower (QLogic isor A (QLogic isor B C)) top).
Proof. exact c17_assoc. Qed.
Theorem C17_idempotence :
  forall lower top A isor, wf_query A -> same_result (process_tree lower (QLogic isor A A) top) (process_tree lower A top).
Proof. exact c17_idempotent. Qed.
Theorem C17_commutativity :
  forall lower top A B isor, wf_query A -> wf_query B ->
    o_err (process_tree lower A top) = ErrNone -> o_err (process_tree lower B top) = ErrNone ->
    same_result (process_tree lower (QLogic isor A B) top) (process_tree lower (QLogic isor B A) top).
Proof. exact c17_commutative. Qed.
Theorem C17_parentheses :
  forall lower top q, wf_query q -> process_tree lower (QParen false q) top = process_tree lower q top.
Proof. exact c17_paren_transparent. Qed.
Print Assumptions C17_double_negation.
Print Assumptions C17_de_morgan_and.
Print Assumptions C17_de_morgan_or.
Print Assumptions C17_associativity.
Print Assumptions C17_idempotence.
Print Assumptions C17_commutativity.
Print Assumptions C17_parentheses.
