(* C16 — LastDebugErr tells exactly when a reached comparison could not be decided. *)
From Rules Require Import Spec Eval Refinement SemProps SemLaws Theorems OpsProps UndecidedProofs NestedError NestedErrorProofs.

Theorem C16_iff :
  forall lower top q, wf_query q -> sem lower top q None <> SPanic ->
    (o_dbg (process_tree lower q top) <> None <->
     exists l, In l (fst (reached lower top q)) /\ leaf_dbg lower top l <> None).
Proof. exact c16_dbg_iff. Qed.
Print Assumptions C16_iff.

(* the diagnostic is the one of the LAST reached comparison that produced one *)
Theorem C16_latest :
  forall lower top q d d', dbg_result (sem lower top q d) = Some d' -> d' = fold_dbg lower top d (fst (reached lower top q)).
Proof. exact sem_dbg. Qed.
Print Assumptions C16_latest.

(* leaf level: a comparison produces a diagnostic exactly when it is undecided — the operator is
   unsupported for the literal, the attribute is absent, or its type/format (or the shape of
   the literal) cannot be compared; [decidable] is written from that reading *)
Theorem C16_leaf_iff_undecided :
  forall lower t op l r b e, op_apply lower t op l r = Ok (b, e) -> (e <> None <-> undecided t op l r = true).
Proof. exact diagnostic_iff_undecided. Qed.
Print Assumptions C16_leaf_iff_undecided.

(* a diagnostic is a NestedError with at least one layer: in the model of NestedError its
   Error() text is never empty (an object starts with '{', the fallback contains ": "),
   whatever values are attached and however deep the chain; that fmt / encoding/json do not
   panic on the attached Go values is sampled, not modelled *)
Theorem C16_error_text_nonempty : forall cause l inner, fst (error_layers cause (l :: inner)) <> [].
Proof. exact error_text_nonempty. Qed.
Print Assumptions C16_error_text_nonempty.

(* `x le 1.5` on {x:"s"} leaves a diagnostic, like `x lt 1.5` *)
Example C16_example :
  o_dbg (run go_lower [120;32;108;101;32;49;46;53]%N [([120]%N, GStr [115]%N)]) = Some DOperand /\
  o_dbg (run go_lower [120;32;108;116;32;49;46;53]%N [([120]%N, GStr [115]%N)]) = Some DOperand.
Proof. split; vm_compute; reflexivity. Qed.
