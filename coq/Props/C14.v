(* C14 — all entry points give the same answer.  For every rule text (any
   bytes, the empty text included) and every object. *)
From Rules Require Import Eval EvalProofs.

Theorem C14_entry_points_agree :
  forall (lower : bytes -> bytes) (rule : bytes) (o : object),
    let r := run lower rule o in
    rules_evaluate lower rule o = (o_verdict r, o_err r) /\
    parser_evaluate lower rule o = o_verdict r /\
    (o_err r <> ErrNone ->
       o_verdict r = false /\ parser_evaluate lower rule o = false /\ fst (rules_evaluate lower rule o) = false).
Proof. exact entry_points_agree. Qed.
Print Assumptions C14_entry_points_agree.

(* non-vacuity: a failing and a succeeding evaluation *)
Example C14_example_error :
  run go_lower [120; 32; 103; 116; 32; 110; 117; 108; 108]%N [] = mkOut false ErrInvalidOp (Some DInvalidOp).  (* "x gt null" *)
Proof. vm_compute. reflexivity. Qed.
Example C14_example_true :
  run go_lower [120; 32; 112; 114]%N [([120]%N, GBool false)] = mkOut true ErrNone None.                      (* "x pr" *)
Proof. vm_compute. reflexivity. Qed.
