(* C19 — nested diagnostic errors keep their cause and their context. *)
From Rules Require Import NestedError NestedErrorProofs.

Theorem C19_original_innermost : forall cause ls_rev, original_layers cause ls_rev = cause.
Proof. exact original_innermost. Qed.

Theorem C19_error_idempotent :
  forall cause ls_rev, let '(t, ls') := error_layers cause ls_rev in error_layers cause ls' = (t, ls').
Proof. exact error_idempotent. Qed.

(* JSON object when everything is encodable, else `msg: cause` *)
Theorem C19_error_text :
  forall cause l inner,
    let '(itext, inner') := error_layers cause inner in
    let vals' := aset k_msg (AStr (l_msg l)) (aset k_err (AStr itext) (l_vals l)) in
    fst (error_layers cause (l :: inner)) = match jobject vals' with Some t => t | None => l_msg l ++ [58; 32]%N ++ itext end.
Proof. exact error_text. Qed.

Theorem C19_keys :
  forall l itext k,
    let vals' := aset k_msg (AStr (l_msg l)) (aset k_err (AStr itext) (l_vals l)) in
    aget k vals' = if bytes_eqb k k_msg then Some (AStr (l_msg l))
                   else if bytes_eqb k k_err then Some (AStr itext) else aget k (l_vals l).
Proof. exact error_vals_lookup. Qed.

(* later Set calls override earlier ones key by key *)
Theorem C19_set_override :
  forall upd m k, aget k (amerge m upd) = match aget k (rev upd) with Some v => Some v | None => aget k m end.
Proof. exact set_lookup. Qed.

Theorem C19_encodable : forall m, jmembers m <> None <-> Forall (fun kv => enc_of (snd kv) <> None) m.
Proof. exact jmembers_some. Qed.
Print Assumptions C19_original_innermost.
Print Assumptions C19_error_idempotent.
Print Assumptions C19_error_text.
Print Assumptions C19_keys.
Print Assumptions C19_set_override.
Print Assumptions C19_encodable.

(* depth 2, a Set, an unencodable value: object first, then the fallback text *)
Example C19_example :
  let c := mkChain [101]%N [mkLayer [97]%N []; mkLayer [98]%N []] in
  nrun c [NError 1; NSet 1 [([107]%N, AOther None)]; NError 1; NOriginal 1] =
  [NOutText [123;34;101;114;114;34;58;34;123;92;34;101;114;114;92;34;58;92;34;101;92;34;44;92;34;109;115;103;92;34;58;92;34;97;92;34;125;34;44;34;109;115;103;34;58;34;98;34;125]%N;
   NOutSet;
   NOutText [98;58;32;123;34;101;114;114;34;58;34;101;34;44;34;109;115;103;34;58;34;97;34;125]%N;
   NOutOrig [101]%N].
Proof. vm_compute. reflexivity. Qed.

Theorem C19_error_nonempty : forall cause l inner, fst (error_layers cause (l :: inner)) <> [].
Proof. exact error_text_nonempty. Qed.
Print Assumptions C19_error_nonempty.
