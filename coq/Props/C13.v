(* C13 — evaluation never modifies the input object (partial: in the model the object is an
   immutable value, so the frame condition holds by construction; what is checked against
   the source of this run is that every write site of the hand-written code targets the
   engine's own state). *)
From Rules Require Import Eval Histories SourceC13.

Theorem C13_write_sites_private : forallb private_target SourceFacts.write_sites = true.
Proof. exact c13_write_sites_private. Qed.
Print Assumptions C13_write_sites_private.

Theorem C13_frame :
  forall lower ev o, let '(ev', out) := process lower ev o in snd (process lower ev' o) = out.
Proof. exact c13_frame. Qed.
Print Assumptions C13_frame.
