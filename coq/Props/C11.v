(* C11 — a parsed evaluator can be reused: verdicts do not depend on history (partial:
   the process-wide ANTLR prediction caches are not part of the model; sampled). *)
From Rules Require Import Eval Histories.

Theorem C11_history :
  forall lower rule ops o, snd (process lower (esteps lower (new_evaluator rule) ops) o) = run lower rule o.
Proof. exact c11_history. Qed.
Theorem C11_every_call :
  forall lower rule ops ev, ev_tree ev = parse_rule rule ->
  forall k o, nth_error ops k = Some (OpProcess o) ->
    nth_error (erun lower ev ops) k = Some (OutProcess (run lower rule o)).
Proof. exact c11_erun. Qed.
Theorem C11_dbg_latest : forall lower ev o, last_debug_err (fst (process lower ev o)) = o_dbg (snd (process lower ev o)).
Proof. exact c11_dbg_latest. Qed.
Theorem C11_dbg_reset : forall ev, last_debug_err (reset ev) = None.
Proof. exact c11_dbg_reset. Qed.
Print Assumptions C11_history.
Print Assumptions C11_every_call.
Print Assumptions C11_dbg_latest.

(* a history with an error, a recovered panic and a Reset in it *)
Example C11_example :
  let rule := [120;32;101;113;32;34;97;34]%N in   (* x eq "a" *)
  erun go_lower (new_evaluator rule)
    [OpProcess [([120]%N, GStringer None)]; OpLastDebugErr; OpProcess []; OpLastDebugErr; OpReset; OpLastDebugErr; OpProcess [([120]%N, GStr [65]%N)]]
  = [OutProcess (mkOut false ErrOther None); OutDbg None; OutProcess (mkOut false ErrNone (Some DMissing)); OutDbg (Some DMissing);
     OutReset; OutDbg None; OutProcess (mkOut true ErrNone None)].
Proof. vm_compute. reflexivity. Qed.
