(* C11 — a parsed evaluator can be reused: verdicts do not depend on history (partial:
   the process-wide ANTLR prediction caches are not part of the model; sampled). *)
From Rules Require Import Eval Histories.

Theorem C11_history :
  forall lower rule ops o, snd (process lower (esteps lower (new_evaluator rule) ops) o) = run lower rule o.
Proof. exact c11_history. Qed.
Theorem C11_every_call :
  forall lower rule ops ev, ev_tree ev = parse_rule rule ->
  forall k o, nth_error ops k = Some (OpProcess o) ->
    nth_error (erun lower ev ops) k = Some (OutProcess (run lower rule o)).
Proof. exact c11_erun. Qed.
Theorem C11_dbg_latest : forall lower ev o, last_debug_err (fst (process lower ev o)) = o_dbg (snd (process lower ev o)).
Proof. exact c11_dbg_latest. Qed.
Theorem C11_dbg_reset : forall ev, last_debug_err (reset ev) = None.
Proof. exact c11_dbg_reset. Qed.
Print Assumptions C11_history.
Print Assumptions C11_every_call.
Print Assumptions C11_dbg_latest.

(* a history with an error, a recovered panic and a Reset in it *)
Example C11_example :
  let rule := [120;32;101;113;32;34;97;34]%N in   (* x eq "a" *)
  erun go_lower (new_evaluator rule)
    [OpProcess [([120]%N, GStringer None)]; OpLastDebugErr; OpProcess []; OpLastDebugErr; OpReset; OpLastDebugErr; OpProcess [([120]%N, GStr [65]%N)]]
  = [OutProcess (mkOut false ErrOther None); OutDbg None; OutProcess (mkOut false ErrNone (Some DMissing)); OutDbg (Some DMissing);
     OutReset; OutDbg None; OutProcess (mkOut true ErrNone None)].
Proof. vm_compute. reflexivity. Qed.

(* the caller changes its object in place between calls: the evaluator answers - also LastDebugErr, read after the change - as in the
   plain history in which every Process carries the object of its own moment *)
Theorem C11_caller_changes :
  forall lower ops ev cur, wrun lower ev cur ops = erun lower ev (at_call_time cur ops).
Proof. exact c11_caller_changes. Qed.
Theorem C11_dbg_after_change :
  forall lower ev o o', wrun lower ev o [CProcess; CChange o'; CLastDebugErr]
                        = [OutProcess (snd (process lower ev o)); OutDbg (o_dbg (snd (process lower ev o)))].
Proof. exact c11_dbg_after_change. Qed.
Print Assumptions C11_caller_changes.
Print Assumptions C11_dbg_after_change.
Example C11_example_change :
  let rule := [120;32;101;113;32;49]%N in   (* x eq 1 *)
  wrun go_lower (new_evaluator rule) [] [CProcess; CChange [([120]%N, GInt 1)]; CLastDebugErr; CProcess; CLastDebugErr]
  = [OutProcess (mkOut false ErrNone (Some DMissing)); OutDbg (Some DMissing); OutProcess (mkOut true ErrNone None); OutDbg None].
Proof. vm_compute. reflexivity. Qed.
