(* C18 — each typed comparison family is a consistent order (on the model of the exported
   Operation implementations, which is also what single-comparison rules apply). *)
From Rules Require Import Ops OpsProps ValuesProps OrderProofs.
Open Scope Z_scope.

Theorem C18_int : forall lower l n, (exists c, six_from lower OpInt l (RInt n) c) \/ six_false lower OpInt l (RInt n).
Proof. exact six_int. Qed.
Theorem C18_float : forall lower l d, (exists c, six_from lower OpFloat l (RF64 d) c) \/ six_false lower OpFloat l (RF64 d).
Proof. exact six_float. Qed.
Theorem C18_string : forall lower l v, l <> GStringer None ->
  (exists c, six_from lower OpString l (RStr v) (Some c)) \/ six_false lower OpString l (RStr v).
Proof. exact six_string. Qed.
Theorem C18_version : forall lower l v, (exists c, six_from lower OpVersion l (RStr v) (Some c)) \/ six_false lower OpVersion l (RStr v).
Proof. exact six_version. Qed.

(* comparable (and not NaN): exactly one of lt eq gt; ne, le, ge derived *)
Theorem C18_consistent :
  forall lower t l r c, six_from lower t l r (Some c) ->
  let v := fun op => match op_apply lower t op l r with Ok (b, _) => b | Panic => false end in
  (v LT = true /\ v EQ = false /\ v GT = false \/ v LT = false /\ v EQ = true /\ v GT = false \/ v LT = false /\ v EQ = false /\ v GT = true) /\
  v NE = negb (v EQ) /\ v LE = (v LT || v EQ)%bool /\ v GE = (v GT || v EQ)%bool.
Proof. exact six_consistent. Qed.

(* monotone in the literal *)
Theorem C18_mono_int : forall l v w, min_int64 <= v <= max_int64 -> min_int64 <= w <= max_int64 -> v < w ->
  (int_cmp l (RInt v) = inl (Some Lt) -> int_cmp l (RInt w) = inl (Some Lt)) /\
  (int_cmp l (RInt w) = inl (Some Gt) -> int_cmp l (RInt v) = inl (Some Gt)).
Proof. exact mono_int. Qed.
Theorem C18_mono_float : forall a v w, f64_compare v w = Some Lt ->
  (f64_compare a v = Some Lt -> f64_compare a w = Some Lt) /\ (f64_compare a w = Some Gt -> f64_compare a v = Some Gt).
Proof. exact mono_float. Qed.
Theorem C18_mono_string : forall a v w, bytes_compare v w = Lt ->
  (bytes_compare a v = Lt -> bytes_compare a w = Lt) /\ (bytes_compare a w = Gt -> bytes_compare a v = Gt).
Proof. exact (mono_cmp bytes_compare bytes_compare_antisym bytes_compare_trans). Qed.
Theorem C18_mono_version : forall a v w, sv_compare v w = Lt ->
  (sv_compare a v = Lt -> sv_compare a w = Lt) /\ (sv_compare a w = Gt -> sv_compare a v = Gt).
Proof. exact (mono_cmp sv_compare sv_compare_antisym sv_compare_trans). Qed.
Print Assumptions C18_int.
Print Assumptions C18_float.
Print Assumptions C18_string.
Print Assumptions C18_version.
Print Assumptions C18_consistent.
Print Assumptions C18_mono_int.
Print Assumptions C18_mono_float.
Print Assumptions C18_mono_string.
Print Assumptions C18_mono_version.
