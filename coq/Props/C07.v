(* C07 — no input can crash the engine: every failure is a returned error (partial:
   the logic part; panics inside the ANTLR runtime, fmt or encoding/json and fatal runtime
   errors cannot be exhibited by the model and are sampled by the correspondence run). *)
From Rules Require Import Eval EvalProofs.

(* for ANY bytes as rule text and ANY object value (hostile Stringers, non-objects inside
   paths, values of other types): whenever an error is returned the verdict is false, on
   all three entry points *)
Theorem C07_error_means_false :
  forall lower rule o,
    let r := run lower rule o in
    o_err r <> ErrNone ->
    o_verdict r = false /\ parser_evaluate lower rule o = false /\ fst (rules_evaluate lower rule o) = false.
Proof. intros lower rule o r H. apply (proj2 (proj2 (entry_points_agree lower rule o))). exact H. Qed.
Print Assumptions C07_error_means_false.

(* every modelled Go panic (failed type assertion on a path component or a list operand,
   a panicking String()) is absorbed by the recover() of Process: it surfaces as an error *)
Theorem C07_panic_is_recovered :
  forall lower q o, visit_query lower o q init_vstate = Panic -> process_tree lower q o = mkOut false ErrOther None.
Proof. intros lower q o H. unfold process_tree. rewrite H. reflexivity. Qed.
Print Assumptions C07_panic_is_recovered.

(* `x.y eq 1` with a non-object in the path; `x eq "a"` with a Stringer whose String() panics *)
Example C07_example :
  run go_lower [120;46;121;32;101;113;32;49]%N [([120]%N, GInt 5)] = mkOut false ErrOther None /\
  run go_lower [120;32;101;113;32;34;97;34]%N [([120]%N, GStringer None)] = mkOut false ErrOther None.
Proof. split; vm_compute; reflexivity. Qed.
