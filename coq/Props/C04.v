(* C04 — string comparisons are case-insensitive and otherwise exact.
   [lower] is universally quantified: the theorems hold for every lower-casing function. *)
From Rules Require Import Spec Eval Refinement OpsProps ValuesProps LeafTheorems.

Theorem C04_string :
  forall lower top p op t l a,
    p <> [] -> denote top p = Ok l -> string_of l = Some a -> op <> IN ->
    process_tree lower (QCompare p op (VString t)) top
    = mkOut (string_rel op (lower a) (lower (get_string t))) ErrNone None.
Proof. exact c04_string. Qed.
Print Assumptions C04_string.

(* eq/ne/lt/gt/le/ge: bytewise lexicographic order; co/sw/ew: infix, prefix, suffix *)
Theorem C04_relations :
  forall a b,
  string_rel EQ a b = (match bytes_compare a b with Eq => true | _ => false end) /\
  string_rel NE a b = (match bytes_compare a b with Eq => false | _ => true end) /\
  string_rel LT a b = (match bytes_compare a b with Lt => true | _ => false end) /\
  string_rel GT a b = (match bytes_compare a b with Gt => true | _ => false end) /\
  string_rel LE a b = (match bytes_compare a b with Gt => false | _ => true end) /\
  string_rel GE a b = (match bytes_compare a b with Lt => false | _ => true end) /\
  string_rel CO a b = contains a b /\ string_rel SW a b = is_prefix b a /\ string_rel EW a b = is_suffix b a.
Proof. exact string_rel_spec. Qed.
Print Assumptions C04_relations.

Theorem C04_order_is_total_order :
  (forall a b, bytes_compare a b = Eq <-> a = b) /\ cmp_antisym bytes_compare /\ cmp_trans bytes_compare.
Proof. exact (conj bytes_compare_eq (conj bytes_compare_antisym bytes_compare_trans)). Qed.
Print Assumptions C04_order_is_total_order.

(* the literal denotes exactly the characters between its quotes *)
Theorem C04_literal_exact : forall s, get_string (34%N :: s ++ [34%N]) = utf8_encode s.
Proof. exact c04_literal_exact. Qed.
Print Assumptions C04_literal_exact.

Theorem C04_non_string :
  forall lower top p op t l,
    p <> [] -> denote top p = Ok l -> string_of l = None -> l <> GStringer None -> op <> IN ->
    o_verdict (process_tree lower (QCompare p op (VString t)) top) = false /\
    o_err (process_tree lower (QCompare p op (VString t)) top) = ErrNone.
Proof. exact c04_non_string. Qed.
Print Assumptions C04_non_string.

(* `x eq "ABC"` on "abc"; `x sw "ab"` but not `x ew "ab"` on "abc" *)
Example C04_example :
  let o := [([120]%N, GStr [97;98;99]%N)] in
  o_verdict (run go_lower [120;32;101;113;32;34;65;66;67;34]%N o) = true /\
  o_verdict (run go_lower [120;32;115;119;32;34;97;98;34]%N o) = true /\
  o_verdict (run go_lower [120;32;101;119;32;34;97;98;34]%N o) = false.
Proof. repeat split; vm_compute; reflexivity. Qed.
