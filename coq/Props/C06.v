(* C06 — unsupported operators fail loudly iff reached; type mismatch never errors. *)
From Rules Require Import Spec Eval Refinement SemProps OpsProps Theorems UndecidedProofs SourceC06.
From Coq Require Import String.

(* ErrInvalidOperation exactly for the table of the statement, whatever the operands *)
Theorem C06_table :
  forall lower t op l r,
    (exists b, op_apply lower t op l r = Ok (b, Some EInvalidOperation)) <-> unsupported t op = true.
Proof. exact op_invalid_iff. Qed.
Print Assumptions C06_table.

(* the evaluation fails with ErrInvalidOperation exactly when the left-to-right
   short-circuit order reaches a comparison that fails that way (it is then the last
   one reached: nothing later is evaluated) *)
Theorem C06_fail_iff_reached :
  forall lower top q, wf_query q ->
    (o_err (process_tree lower q top) = ErrInvalidOp <->
     exists pre l, fst (reached lower top q) = pre ++ [l] /\ leaf_fails lower top l VErrInvalidOp /\ snd (reached lower top q) = None).
Proof. exact c06_fail_iff_reached. Qed.
Print Assumptions C06_fail_iff_reached.

Theorem C06_error_means_false :
  forall lower top q, wf_query q -> o_err (process_tree lower q top) <> ErrNone -> o_verdict (process_tree lower q top) = false.
Proof. exact c06_error_false. Qed.
Print Assumptions C06_error_means_false.

(* a reached failure is final *)
Theorem C06_final_left :
  forall lower top isor l r d e d', sem lower top l d = SFail e d' -> sem lower top (QLogic isor l r) d = SFail e d'.
Proof. exact fail_sticky_logic. Qed.
Theorem C06_final_paren :
  forall lower top neg q d e d', sem lower top q d = SFail e d' -> sem lower top (QParen neg q) d = SFail e d'.
Proof. exact fail_sticky_paren. Qed.
Theorem C06_final_right :
  forall lower top (isor : bool) l r d (b : bool) d1 e d',
    sem lower top l d = SVal b d1 -> (if isor then b else negb b) = false -> sem lower top r d1 = SFail e d' ->
    sem lower top (QLogic isor l r) d = SFail e d'.
Proof. exact fail_sticky_right. Qed.
Print Assumptions C06_final_right.

(* checked on the source of this run (go/ast facts): the typed operations override exactly the
   operators the table calls supported; everything else falls through to NullOperation *)
Theorem C06_method_sets_of_source :
  overrides "NullOperation" = op_names /\
  overrides "BoolOperation" = ["EQ"; "NE"]%string /\
  overrides "IntOperation" = ["EQ"; "NE"; "GT"; "LT"; "GE"; "LE"; "IN"]%string /\
  overrides "FloatOperation" = ["EQ"; "NE"; "GT"; "LT"; "GE"; "LE"; "IN"]%string /\
  overrides "StringOperation" = op_names /\
  overrides "VersionOperation" = ["EQ"; "NE"; "GT"; "LT"; "GE"; "LE"]%string.
Proof. exact c06_method_sets. Qed.
Print Assumptions C06_method_sets_of_source.

(* an absent attribute or an attribute of the wrong type is never an error: a supported
   operator never fails, whatever the operands (it may only panic on a hostile Stringer) *)
Theorem C06_mismatch_never_errors :
  forall lower t op l r, unsupported t op = false ->
    op_apply lower t op l r = Panic \/ exists b e, op_apply lower t op l r = Ok (b, e) /\ e <> Some EInvalidOperation.
Proof. exact supported_never_fails. Qed.
Print Assumptions C06_mismatch_never_errors.

(* `a gt null or b le "bc" or k in [1]` on {} : ErrInvalidOperation, nothing later matters *)
Example C06_example :
  run go_lower [97;32;103;116;32;110;117;108;108;32;111;114;32;98;32;108;101;32;34;98;99;34;32;111;114;32;107;32;105;110;32;91;49;93]%N []
  = mkOut false ErrInvalidOp (Some DInvalidOp).
Proof. vm_compute. reflexivity. Qed.
