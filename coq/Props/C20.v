(* C20 — the shipped lexer and parser implement the documented grammar.
   The grammar data (g4_lexer_rules, g4_token_types, g4_parser_rules) is regenerated from
   parser/JsonQuery.g4 on every run; the model lexer interprets it. *)
From Rules Require Import Eval Layout ParserProofs RegexProofs LexerProofs Grammar GrammarProofs SentenceProofs.
From Coq Require Import String.
Open Scope N_scope.

(* the model lexer computes exactly the maximal-munch tokenisation of the lexer rules of the
   .g4 (for ANY rule list: longest non-empty match at each position, the first rule on ties),
   and fails exactly when the text has none; rule bodies mean the declarative [matches] *)
Theorem C20_lexer_is_maximal_munch :
  forall s toks, lex g4_lexer_rules s = Some toks <-> tokens_spec g4_lexer_rules s toks.
Proof. exact (lex_correct g4_lexer_rules). Qed.
Theorem C20_lexer_rejects_iff_no_tokenisation :
  forall s, lex g4_lexer_rules s = None <-> forall toks, ~ tokens_spec g4_lexer_rules s toks.
Proof. exact (lex_none g4_lexer_rules). Qed.
Theorem C20_longest_match : forall r s k, longest_match r s = Some k <-> is_longest r s k.
Proof. exact longest_match_some. Qed.
Theorem C20_derivative : forall c r s, matches (deriv c r) s <-> matches r (c :: s).
Proof. exact deriv_matches. Qed.
Print Assumptions C20_lexer_is_maximal_munch.
Print Assumptions C20_lexer_rejects_iff_no_tokenisation.

(* the model parser accepts exactly the token lists that derive from `query` by the parser
   rules generated from the .g4 (generic CFG derivations over the rule DATA) ... *)
Theorem C20_parser_recognises_grammar :
  forall ts, parse_tokens ts <> None <-> sentence g4_parser_rules N_query ts.
Proof. exact parser_recognises_grammar. Qed.
(* ... and reads every sentence as a printed rule tree (grouping of C01) *)
Theorem C20_parser_complete :
  forall ts, sentence g4_parser_rules N_query ts ->
    exists c, wf_chain c /\ map norm ts = print_chain c /\ parse_tokens ts = Some (erase_chain c).
Proof. exact parse_complete. Qed.
Theorem C20_recogniser : forall t, parse_text t <> None <-> is_sentence t.
Proof. exact parse_text_iff_sentence. Qed.
Print Assumptions C20_parser_recognises_grammar.
Print Assumptions C20_parser_complete.
Print Assumptions C20_recogniser.

(* the parser model reads every sentence printed from a rule tree with the structure the
   grammar prescribes (completeness on all printed trees, all depths) *)
Theorem C20_parser_reads_trees : forall c, wf_chain c -> parse_tokens (print_chain c) = Some (erase_chain c).
Proof. exact parse_print. Qed.
Print Assumptions C20_parser_reads_trees.

(* the parser rules the model parser was written for are the ones in the .g4 *)
Definition modelled_parser_rules : list (ntname * list (string * list sym)) := [
  (N_query, [
    ("parenExp"%string, [Opt (T K_NOT); Opt (T K_SP); T K_LP; Opt (T K_SP); NT N_query; Opt (T K_SP); T K_RP]);
    ("logicalExp"%string, [NT N_query; T K_SP; T K_LOGICAL_OPERATOR; T K_SP; NT N_query]);
    ("presentExp"%string, [NT N_attrPath; T K_SP; T K_PR]);
    ("compareExp"%string, [NT N_attrPath; T K_SP; TSet [K_EQ; K_NE; K_GT; K_LT; K_GE; K_LE; K_CO; K_SW; K_EW; K_IN]; T K_SP; NT N_value])]);
  (N_attrPath, [(""%string, [T K_ATTRNAME; Opt (NT N_subAttr)])]);
  (N_subAttr, [(""%string, [T K_DOT; NT N_attrPath])]);
  (N_value, [
    ("boolean"%string, [T K_BOOLEAN]); ("null"%string, [T K_NULL]); ("version"%string, [T K_VERSION]);
    ("string"%string, [T K_STRING]); ("double"%string, [T K_DOUBLE]);
    ("long"%string, [Opt (T K_MINUS); T K_INT; Opt (T K_EXP)]);
    ("listOfInts"%string, [NT N_listInts]); ("listOfDoubles"%string, [NT N_listDoubles]); ("listOfStrings"%string, [NT N_listStrings])]);
  (N_listStrings, [(""%string, [T K_LB; NT N_subListOfStrings])]);
  (N_subListOfStrings, [(""%string, [T K_STRING; T K_COMMA; NT N_subListOfStrings]); (""%string, [T K_STRING; T K_RB])]);
  (N_listDoubles, [(""%string, [T K_LB; NT N_subListOfDoubles])]);
  (N_subListOfDoubles, [(""%string, [T K_DOUBLE; T K_COMMA; NT N_subListOfDoubles]); (""%string, [T K_DOUBLE; T K_RB])]);
  (N_listInts, [(""%string, [T K_LB; NT N_subListOfInts])]);
  (N_subListOfInts, [(""%string, [T K_INT; T K_COMMA; NT N_subListOfInts]); (""%string, [T K_INT; T K_RB])])].

Theorem C20_g4_is_modelled : g4_parser_rules = modelled_parser_rules.
Proof. reflexivity. Qed.
Print Assumptions C20_g4_is_modelled.

(* token vocabulary and priority order of the .g4 (implicit literal tokens first) *)
Theorem C20_token_order :
  map fst g4_lexer_rules =
  [K_LP; K_RP; K_PR; K_DOT; K_MINUS; K_LB; K_RB; K_NOT; K_LOGICAL_OPERATOR; K_BOOLEAN; K_NULL; K_IN; K_EQ; K_NE; K_GT; K_LT;
   K_GE; K_LE; K_CO; K_SW; K_EW; K_ATTRNAME; K_VERSION; K_STRING; K_DOUBLE; K_INT; K_EXP; K_NEWLINE; K_COMMA; K_SP] /\
  map snd g4_token_types = [1;2;3;4;5;6;7;8;9;10;11;12;13;14;15;16;17;18;19;20;21;22;23;24;25;26;27;28;29;30].
Proof. split; reflexivity. Qed.

(* longest match, keywords win ties: the facts named in the statement *)
Definition lex1 (t : text) : option (list tkind) := option_map (map fst) (lex g4_lexer_rules t).
Example C20_lexer_facts :
  lex1 [111;114;100;101;114] = Some [K_ATTRNAME] /\                 (* order *)
  lex1 [111;114] = Some [K_LOGICAL_OPERATOR] /\                     (* or *)
  lex1 [49;46;50;46;51] = Some [K_VERSION] /\                       (* 1.2.3 *)
  lex1 [49;46;50] = Some [K_DOUBLE] /\                              (* 1.2 *)
  lex1 [60;61] = Some [K_LE] /\                                     (* <= *)
  lex1 [101;53] = Some [K_ATTRNAME] /\                              (* e5 *)
  lex1 [101;43;53] = Some [K_EXP] /\                                (* e+5 *)
  lex1 [49;101;53] = Some [K_INT; K_ATTRNAME] /\                    (* 1e5 *)
  lex1 [97;45;98;95;99;58;100;49] = Some [K_ATTRNAME] /\            (* a-b_c:d1 *)
  lex1 [48;49] = Some [K_INT; K_INT] /\                             (* 01 *)
  lex1 [126] = None /\                                              (* ~ *)
  lex1 [34;97] = None.                                              (* unterminated string literal *)
Proof. repeat split; vm_compute; reflexivity. Qed.
