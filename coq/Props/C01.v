(* C01 — compound rules are the Boolean combination of their comparisons. *)
From Rules Require Import Spec Eval Refinement SemProps Theorems.

(* for every well-formed tree whose comparisons are individually error-free, and every
   object: the verdict is the plain Boolean reading (and / or / not, parentheses group) *)
Theorem C01_boolean :
  forall lower top q, wf_query q -> leaves_decided lower top q ->
    o_verdict (process_tree lower q top) = bool_denote lower top q /\ o_err (process_tree lower q top) = ErrNone.
Proof. exact c01_boolean. Qed.
Print Assumptions C01_boolean.

(* the verdict of a leaf in that reading is the verdict of the leaf as a stand-alone rule *)
Theorem C01_leaf_verdict :
  forall lower top q, is_leaf q -> (exists b d, leaf_res lower top q = LRes b None d) ->
    o_verdict (process_tree lower q top) = leaf_verdict lower top q /\ o_err (process_tree lower q top) = ErrNone.
Proof. exact leaf_alone_verdict. Qed.
Print Assumptions C01_leaf_verdict.
