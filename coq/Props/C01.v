(* C01 — compound rules are the Boolean combination of their comparisons. *)
From Rules Require Import Spec Eval Refinement SemProps Theorems.

(* for every well-formed tree whose comparisons are individually error-free, and every
   object: the verdict is the plain Boolean reading (and / or / not, parentheses group) *)
Theorem C01_boolean :
  forall lower top q, wf_query q -> leaves_decided lower top q ->
    o_verdict (process_tree lower q top) = bool_denote lower top q /\ o_err (process_tree lower q top) = ErrNone.
Proof. exact c01_boolean. Qed.
Print Assumptions C01_boolean.

(* the verdict of a leaf in that reading is the verdict of the leaf as a stand-alone rule *)
Theorem C01_leaf_verdict :
  forall lower top q, is_leaf q -> (exists b d, leaf_res lower top q = LRes b None d) ->
    o_verdict (process_tree lower q top) = leaf_verdict lower top q /\ o_err (process_tree lower q top) = ErrNone.
Proof. exact leaf_alone_verdict. Qed.
Print Assumptions C01_leaf_verdict.

(* ---------- grouping: how the parser reads chains ---------- *)
From Rules Require Import Layout ParserProofs.

(* every printed rule tree — any chain length, any nesting depth, any placement of not and
   of the optional blanks — is read back as its tree *)
Theorem C01_grouping : forall c, wf_chain c -> parse_tokens (print_chain c) = Some (erase_chain c).
Proof. exact parse_print. Qed.
Print Assumptions C01_grouping.

(* a chain without parentheses associates to the left, `and` and `or` at the same precedence *)
Theorem C01_left_assoc :
  forall f l, wf_chain (LChain f l) ->
    parse_tokens (print_chain (LChain f l)) =
    Some (fold_left (fun acc op => QLogic (fst op) acc (erase_prim (snd op))) l (erase_prim f)).
Proof. exact chain_left_assoc. Qed.
Print Assumptions C01_left_assoc.

(* `a or b and c` means `(a or b) and c`;  `not (a) and b` negates only a *)
Example C01_example :
  let a := QPresent [[97]%N] in let b := QPresent [[98]%N] in let c := QPresent [[99]%N] in
  parse_tokens (print_chain (LChain (LLeaf a) [(true, LLeaf b); (false, LLeaf c)])) = Some (QLogic false (QLogic true a b) c) /\
  parse_tokens (print_chain (LChain (LParen true false false false (LChain (LLeaf a) [])) [(false, LLeaf b)]))
    = Some (QLogic false (QParen true a) b) /\
  (* a or b and c  on {a}: (a or b) and c = false, whereas a or (b and c) would be true *)
  o_verdict (run go_lower [97;32;112;114;32;111;114;32;98;32;112;114;32;97;110;100;32;99;32;112;114]%N [([97]%N, GInt 1)]) = false.
Proof. repeat split; vm_compute; reflexivity. Qed.
