(* C02 — an attribute path denotes one value, independent of the rest of the rule. *)
From Rules Require Import Spec Eval Refinement SemProps Theorems.

(* the path walk of the visitor computes [denote] from ANY state left behind by earlier
   comparisons (arbitrary stale stack / operands), on object-shaped inputs *)
Theorem C02_path_walk :
  forall top p st, p <> [] ->
    match denote top p with
    | Panic => visit_attr_path top p (reset_path st) = Panic
    | Ok v => exists st', visit_attr_path top p (reset_path st) = Ok st' /\ leftOp st' = v /\ keeps st st'
    end.
Proof. exact visit_path_after_reset. Qed.
Print Assumptions C02_path_walk.

(* absent as soon as a step is missing or null; the remaining steps are not looked at *)
Theorem C02_denote_stops :
  forall p, p <> [] -> forall item s, denote_from item p = Ok GNil -> denote_from item (p ++ s) = Ok GNil.
Proof. exact c02_denote_stops. Qed.
Print Assumptions C02_denote_stops.

(* non-interference: whatever state the visitor is in (no error, empty rule operand),
   a rule evaluates to its compositional meaning *)
Theorem C02_non_interference :
  forall lower top q, wf_query q ->
  forall st, verror st = None -> rightOp st = RNil ->
    refines (sem lower top q (dbg st)) (visit_query lower top q st).
Proof. exact visitor_refines_sem. Qed.
Print Assumptions C02_non_interference.

(* a comparison placed anywhere in a compound yields what it yields as a stand-alone rule:
   only its stand-alone result enters the meaning of the compound *)
Theorem C02_locality :
  forall lower top c l1 l2,
    is_leaf l1 -> is_leaf l2 -> wf_query (plug c l1) -> wf_query (plug c l2) ->
    process_tree lower l1 top = process_tree lower l2 top ->
    leaf_res lower top l1 = leaf_res lower top l2 ->
    process_tree lower (plug c l1) top = process_tree lower (plug c l2) top.
Proof. exact c02_locality. Qed.
Print Assumptions C02_locality.

Theorem C02_stand_alone :
  forall lower top q, is_leaf q -> process_tree lower q top = outcome_of (of_lres None (leaf_res lower top q)).
Proof. exact leaf_alone. Qed.
Print Assumptions C02_stand_alone.

(* non-vacuity: `x.a eq 1` on {y:1}: the missing intermediate denotes absent *)
Example C02_example :
  denote [([121]%N, GInt 1)] [[120]%N; [97]%N] = Ok GNil /\
  process_tree go_lower (QLogic false (QCompare [[121]%N] EQ (VLong false [49]%N None)) (QCompare [[120]%N; [97]%N] EQ (VLong false [49]%N None)))
               [([121]%N, GInt 1)] = mkOut false ErrNone (Some DMissing).
Proof. split; vm_compute; reflexivity. Qed.
