(* C15 — spelling, case of operators and permitted whitespace do not change meaning. *)
From Rules Require Import Spec Eval Refinement SemLaws Theorems Layout ParserProofs SpellingProofs LexContext RegexAnalysis SpellContext SpellSentence.
Open Scope N_scope.

(* spelling: the parser sees token kinds (and the text of names, literals, and/or only):
   two token lists that differ in the spelling of operators, not/NOT, blanks (with any
   newlines), commas (with any blanks) parse identically *)
Theorem C15_spelling_tokens : forall ts1 ts2, map norm ts1 = map norm ts2 -> parse_tokens ts1 = parse_tokens ts2.
Proof. exact spelling_irrelevant. Qed.
Print Assumptions C15_spelling_tokens.

(* layout: optional blank after `(`, before `)`, before an opening `(`, between not and `(` *)
Theorem C15_layout :
  forall c1 c2, wf_chain c1 -> wf_chain c2 -> erase_chain c1 = erase_chain c2 ->
    parse_tokens (print_chain c1) = parse_tokens (print_chain c2).
Proof. exact layout_irrelevant. Qed.
Print Assumptions C15_layout.

(* a redundant pair of parentheses around the whole rule or any sub-rule *)
Theorem C15_parentheses :
  forall lower top q, wf_query q -> process_tree lower (QParen false q) top = process_tree lower q top.
Proof. exact c17_paren_transparent. Qed.
Theorem C15_parentheses_anywhere :
  forall lower top c q d, sem lower top (SemProps.plug c (QParen false q)) d = sem lower top (SemProps.plug c q) d.
Proof. intros. apply SemProps.sem_congruence. intros d0. apply paren_transparent. Qed.
Print Assumptions C15_parentheses_anywhere.

(* every listed spelling lexes to one token of the same kind (character level, finite table) *)
Definition spellings : list (tkind * list text) :=
  [ (K_EQ, [[101;113]; [69;81]; [61;61]]); (K_NE, [[110;101]; [78;69]; [33;61]]);
    (K_GT, [[103;116]; [71;84]; [62]]); (K_LT, [[108;116]; [76;84]; [60]]);
    (K_GE, [[103;101]; [71;69]; [62;61]]); (K_LE, [[108;101]; [76;69]; [60;61]]);
    (K_CO, [[99;111]; [67;79]]); (K_SW, [[115;119]; [83;87]]); (K_EW, [[101;119]; [69;87]]);
    (K_IN, [[105;110]; [73;78]]); (K_NOT, [[110;111;116]; [78;79;84]]);
    (K_SP, [[32]; [32;10]; [32;10;10]; [32;10;10;10]]); (K_COMMA, [[44]; [44;32]; [44;32;32]; [44;32;32;32]]) ].

Theorem C15_spelling_table :
  forallb (fun e => forallb (fun t => match lex g4_lexer_rules t with
                                      | Some [(k, t')] => tkind_eqb k (fst e) && list_eqb N.eqb t t'
                                      | _ => false end) (snd e)) spellings = true.
Proof. vm_compute. reflexivity. Qed.
Print Assumptions C15_spelling_table.

(* unbounded repetition (single tokens): a blank followed by ANY number of newlines is one SP,
   a comma followed by ANY number of blanks is one COMMA *)
Theorem C15_sp_any_newlines : forall n, lex g4_lexer_rules (32 :: repeat 10 n) = Some [(K_SP, 32 :: repeat 10 n)].
Proof. exact sp_any_newlines. Qed.
Theorem C15_comma_any_blanks : forall n, lex g4_lexer_rules (44 :: repeat 32 n) = Some [(K_COMMA, 44 :: repeat 32 n)].
Proof. exact comma_any_blanks. Qed.
Print Assumptions C15_sp_any_newlines.
Print Assumptions C15_comma_any_blanks.

(* character level, whole texts: take ANY token list that is a respelling of a sentence of the
   grammar (same kinds, same names / literals / and-or), each token text being one that alone lexes
   to its kind (eq / EQ / ==, not / NOT, a blank with any newlines, a comma with any blanks, ...;
   a string text ending at its closing quote).  Then the concatenated characters lex to exactly
   those tokens — maximal munch never merges or splits neighbours — and parse to the sentence's tree. *)
Theorem C15_text_lexes :
  forall c ts, wf_chain c -> map norm ts = print_chain c -> Forall tok_ok ts ->
    lex g4_lexer_rules (cat_texts ts) = Some ts.
Proof. exact spelled_sentence_lexes. Qed.
Print Assumptions C15_text_lexes.

Theorem C15_text_parses :
  forall c ts, wf_chain c -> map norm ts = print_chain c -> Forall tok_ok ts ->
    parse_text (cat_texts ts) = Some (erase_chain c).
Proof. exact spelled_sentence_parses. Qed.
Print Assumptions C15_text_parses.

Theorem C15_respelling :
  forall c ts1 ts2, wf_chain c -> map norm ts1 = print_chain c -> map norm ts2 = print_chain c ->
    Forall tok_ok ts1 -> Forall tok_ok ts2 ->
    parse_text (cat_texts ts1) = parse_text (cat_texts ts2).
Proof. exact respelling_same_tree. Qed.
Print Assumptions C15_respelling.

(* the generic fact underneath: stand-alone token texts whose neighbouring kinds are neighbours
   in the grammar's sentences lex, concatenated, to themselves *)
Theorem C15_context :
  forall ts, Forall tok_ok ts -> chain_ok (map fst ts) = true -> lex g4_lexer_rules (cat_texts ts) = Some ts.
Proof. exact context_lex. Qed.
Print Assumptions C15_context.

(* the premises hold for NOT( \n x == "a" \n\n and y IN [1,  2] or \n z > -1e+5) *)
Example C15_text_example : parse_text (cat_texts ex_ts) = Some (erase_chain ex_c).
Proof. exact ex_parses. Qed.

(* `x EQ 1 \n AND...`: respelled variants of one rule give one outcome *)
Example C15_example :
  let o := [([120], GInt 1)] in
  run go_lower [120;32;101;113;32;49;32;97;110;100;32;110;111;116;32;40;120;32;103;116;32;50;41] o =
  run go_lower [40;32;120;32;10;61;61;32;49;32;10;10;97;110;100;32;78;79;84;40;32;120;32;62;32;50;32;41;41] o.
Proof. vm_compute. reflexivity. Qed.
