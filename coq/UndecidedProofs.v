(* UndecidedProofs.v — C16, leaf level: a comparison leaves a diagnostic exactly when it
   could not be decided on its merits: the operator is unsupported for the literal, or the
   attribute is absent, or its type / format cannot be compared with the literal (or the
   literal's shape does not fit the operator).  [decidable] is written from that reading,
   independently of the code paths of Ops.v. *)
From Rules Require Import Ops OpsProps.
Open Scope Z_scope.

Definition is_numeric_int (l : gval) : bool :=
  match l with GInt _ | GInt32 _ | GInt64 _ | GF64 _ => true | _ => false end.
Definition is_numeric_float (l : gval) : bool :=
  match l with GInt _ | GF64 _ => true | _ => false end.
Definition is_textual (l : gval) : bool :=
  match l with GStr _ | GStringer (Some _) => true | _ => false end.

Definition decidable (t : optype) (op : cmpop) (l : gval) (r : operand) : bool :=
  match t with
  | OpNull => true                                     (* null tests are always decided *)
  | OpBool => match l, r with GBool _, RBool _ => true | _, _ => false end
  | OpInt =>
      match op, r with
      | IN, RInts [] => true
      | IN, RInts _ => is_numeric_int l
      | IN, _ => false
      | _, RInt _ => is_numeric_int l
      | _, RF64 (FFin _ _) => is_numeric_int l
      | _, _ => false
      end
  | OpFloat =>
      match op, r with
      | IN, RFloats _ => is_numeric_float l
      | IN, _ => false
      | _, (RInt _ | RF64 _) => is_numeric_float l
      | _, _ => false
      end
  | OpString =>
      match op, r with
      | IN, RStrs _ => is_textual l
      | IN, _ => false
      | _, RStr _ => is_textual l
      | _, _ => false
      end
  | OpVersion =>
      match l, r with
      | GStr a, RStr b => match sv_parse a, sv_parse b with Some _, Some _ => true | _, _ => false end
      | _, _ => false
      end
  end.

Definition undecided (t : optype) (op : cmpop) (l : gval) (r : operand) : bool :=
  unsupported t op || negb (decidable t op l r).

Lemma int_in_decided l n nums : is_numeric_int l = true -> snd (int_in l (n :: nums)) = None.
Proof.
  intros Hl. revert n. induction nums as [|m rest IH]; intros n; cbn [int_in].
  - destruct l; try discriminate Hl; cbn; try (destruct (Z.compare _ _); reflexivity);
      destruct (compare_float_to_int f n) as [[]|]; reflexivity.
  - destruct l; try discriminate Hl; cbn -[int_in].
    + destruct (Z.compare z n); try reflexivity; apply (IH m).
    + destruct (Z.compare z n); try reflexivity; apply (IH m).
    + destruct (Z.compare z n); try reflexivity; apply (IH m).
    + destruct (compare_float_to_int f n) as [[]|]; try reflexivity; apply (IH m).
Qed.

Lemma int_in_undecided l n nums : is_numeric_int l = false -> snd (int_in l (n :: nums)) <> None.
Proof. intros Hl. destruct l; try discriminate Hl; cbn; discriminate. Qed.

Section WithLower.
Variable lower : bytes -> bytes.

Theorem diagnostic_iff_undecided t op l r b e :
  op_apply lower t op l r = Ok (b, e) -> (e <> None <-> undecided t op l r = true).
Proof.
  unfold undecided. destruct (unsupported t op) eqn:Eu.
  - (* unsupported: always ErrInvalidOperation *)
    intros H. cbn [orb]. apply conj; [intros _; reflexivity|intros _].
    destruct (proj2 (op_invalid_iff lower t op l r) Eu) as [b' H']. rewrite H' in H. injection H as _ <-. discriminate.
  - cbn [orb]. destruct t.
    + (* null *) destruct op; try discriminate Eu; cbn; intros [= _ <-]; (split; [congruence|discriminate]).
    + (* bool *) destruct op; try discriminate Eu; destruct l; destruct r; cbn; intros [= _ <-]; split; congruence.
    + (* int *)
      destruct op; try discriminate Eu.
      1-6: (cbn [op_apply int_apply]; unfold int_cmp; destruct l; destruct r as [| | |[| |]| | | |]; cbn;
            intros [= _ <-]; split; congruence).
      cbn [op_apply int_apply]. destruct r as [| | | | |nums| |]; try (cbn; intros [= _ <-]; split; congruence).
      destruct nums as [|n nums]; [cbn; intros [= _ <-]; split; congruence|].
      remember (int_in l (n :: nums)) as X eqn:EX. intros [= ->]. cbn [decidable]. destruct (is_numeric_int l) eqn:El.
      * pose proof (int_in_decided l n nums El) as Hd. rewrite <- EX in Hd. cbn in Hd. subst e. split; [congruence|discriminate].
      * pose proof (int_in_undecided l n nums El) as Hd. rewrite <- EX in Hd. cbn in Hd. split; [reflexivity|intros _; exact Hd].
    + (* float *)
      destruct op; try discriminate Eu;
        destruct l; destruct r; cbn; intros [= _ <-]; split; congruence.
    + (* string *)
      destruct op; destruct l as [| | | | | |s|[s|]| |]; destruct r; cbn; try discriminate; intros [= _ <-]; split; congruence.
    + (* version *)
      destruct op; try discriminate Eu; destruct l; destruct r; cbn; try (intros [= _ <-]; split; congruence);
        destruct (sv_parse s); cbn; try (intros [= _ <-]; split; congruence);
        destruct (sv_parse s0); cbn; intros [= _ <-]; split; congruence.
Qed.

(* C06: an absent attribute or an attribute of the wrong type is never an error:
   a supported operator never fails, whatever the operands *)
Theorem supported_never_fails t op l r :
  unsupported t op = false ->
  op_apply lower t op l r = Panic \/ exists b e, op_apply lower t op l r = Ok (b, e) /\ e <> Some EInvalidOperation.
Proof.
  intros Hu. destruct (op_apply lower t op l r) as [[b e]|] eqn:E; [right|left; reflexivity].
  exists b, e. split; [reflexivity|]. intros ->.
  assert (H : exists b0, op_apply lower t op l r = Ok (b0, Some EInvalidOperation)) by (exists b; exact E).
  apply op_invalid_iff in H. congruence.
Qed.

End WithLower.
