(* RoundProofs.v — the decimal -> binary64 conversion of the model (round_pos_rational, used by
   parse_float and float64(int)) IS round-to-nearest-even on the float64 grid: the result is
   within half a unit of the exact quotient, ties go to the even significand, the significand
   is normalised (or the exponent is the minimum), and a quotient that is itself a float64 is
   returned exactly. *)
From Coq Require Import ZArith Lia Bool List.
From Rules Require Import Base Values FloatProofs.
Open Scope Z_scope.

Definition Pk (k : Z) : Z := if 0 <=? k then 2 ^ k else 1.
Definition Mk (k : Z) : Z := if 0 <=? k then 1 else 2 ^ (- k).

Lemma Pk_pos k : 0 < Pk k.
Proof. unfold Pk. destruct (0 <=? k) eqn:E; [apply Z.pow_pos_nonneg; lia|lia]. Qed.
Lemma Mk_pos k : 0 < Mk k.
Proof. unfold Mk. destruct (0 <=? k) eqn:E; [lia|apply Z.pow_pos_nonneg; lia]. Qed.

(* Pk k / Mk k = 2^k *)
Lemma PM_shift a k : 0 <= a -> 0 <= a + k -> 2 ^ a * Pk k = 2 ^ (a + k) * Mk k.
Proof.
  intros Ha Hk. unfold Pk, Mk. destruct (0 <=? k) eqn:E.
  - apply Z.leb_le in E. rewrite Z.pow_add_r by lia. lia.
  - apply Z.leb_gt in E. replace a with ((a + k) + (- k)) at 1 by lia. rewrite Z.pow_add_r by lia. lia.
Qed.

Lemma PM_step k : Pk (k + 1) * Mk k = 2 * Pk k * Mk (k + 1).
Proof.
  unfold Pk, Mk. destruct (0 <=? k) eqn:E; destruct (0 <=? k + 1) eqn:E1;
    try apply Z.leb_le in E; try apply Z.leb_le in E1; try apply Z.leb_gt in E; try apply Z.leb_gt in E1; try lia.
  - rewrite Z.pow_add_r by lia. change (2 ^ 1) with 2. lia.
  - assert (k = -1) by lia. subst k. reflexivity.
  - replace (- k) with (1 + (- (k + 1))) by lia. rewrite Z.pow_add_r by lia. change (2 ^ 1) with 2. lia.
Qed.

Lemma PM_add k j : 0 <= j -> Pk (k + j) * Mk k = 2 ^ j * Pk k * Mk (k + j).
Proof.
  intros Hj. unfold Pk, Mk. destruct (0 <=? k) eqn:E; destruct (0 <=? k + j) eqn:E1;
    try apply Z.leb_le in E; try apply Z.leb_le in E1; try apply Z.leb_gt in E; try apply Z.leb_gt in E1; try lia.
  - rewrite Z.pow_add_r by lia. lia.
  - rewrite Z.mul_1_r, Z.mul_1_r. rewrite <- Z.pow_add_r by lia. f_equal. lia.
  - rewrite Z.mul_1_l, Z.mul_1_r. rewrite <- Z.pow_add_r by lia. f_equal. lia.
Qed.

Lemma div_ge_of_mul q n d : 0 < d -> q * d <= n -> q <= n / d.
Proof. intros Hd H. apply Z.div_le_lower_bound; lia. Qed.
Lemma div_lt_of_mul q n d : 0 < d -> n < q * d -> n / d < q.
Proof. intros Hd H. apply Z.div_lt_upper_bound; lia. Qed.
Lemma mul_le_of_div q n d : 0 < d -> q <= n / d -> q * d <= n.
Proof. intros Hd H. pose proof (Z.mul_div_le n d Hd). nia. Qed.
Lemma mul_gt_of_div q n d : 0 < d -> n / d < q -> n < q * d.
Proof. intros Hd H. pose proof (Z.mul_succ_div_gt n d Hd). nia. Qed.

Section Round.
Variables num den : Z.
Hypothesis Hnum : 0 < num.
Hypothesis Hden : 0 < den.

Definition Nk (k : Z) : Z := num * Pk k.
Definition Dk (k : Z) : Z := den * Mk k.

Lemma Nk_pos k : 0 < Nk k. Proof. unfold Nk. pose proof (Pk_pos k). nia. Qed.
Lemma Dk_pos k : 0 < Dk k. Proof. unfold Dk. pose proof (Mk_pos k). nia. Qed.

Lemma quot_is k : (if 0 <=? k then (num * 2 ^ k) / den else num / (den * 2 ^ (- k))) = Nk k / Dk k.
Proof. unfold Nk, Dk, Pk, Mk. destruct (0 <=? k); rewrite ?Z.mul_1_r; reflexivity. Qed.

Lemma ND_step k : Nk (k + 1) * Dk k = 2 * (Nk k * Dk (k + 1)).
Proof.
  unfold Nk, Dk. replace (num * Pk (k + 1) * (den * Mk k)) with (num * den * (Pk (k + 1) * Mk k)) by ring.
  rewrite PM_step. ring.
Qed.

Lemma ND_add k j : 0 <= j -> Nk (k + j) * Dk k = 2 ^ j * (Nk k * Dk (k + j)).
Proof.
  intros Hj. unfold Nk, Dk. replace (num * Pk (k + j) * (den * Mk k)) with (num * den * (Pk (k + j) * Mk k)) by ring.
  rewrite (PM_add k j Hj). ring.
Qed.

Definition two51 : Z := 2251799813685248.
Lemma two51_pow : two51 = 2 ^ 51. Proof. reflexivity. Qed.
Lemma two52_two51 : two52 = 2 * two51. Proof. reflexivity. Qed.
Lemma two53_two52 : two53 = 2 * two52. Proof. reflexivity. Qed.

Let a := Z.log2 num.
Let b := Z.log2 den.
Let k0 := 52 - (a - b).

(* the first guess already puts the quotient between 2^51 and 2^53 *)
Lemma k0_bounds : two51 * Dk k0 < Nk k0 < two53 * Dk k0.
Proof.
  destruct (Z.log2_spec num Hnum) as [Ha1 Ha2]. destruct (Z.log2_spec den Hden) as [Hb1 Hb2]. fold a in Ha1, Ha2. fold b in Hb1, Hb2.
  assert (Ha0 : 0 <= a) by apply Z.log2_nonneg. assert (Hb0 : 0 <= b) by apply Z.log2_nonneg.
  assert (Hs : 2 ^ a * Pk k0 = 2 ^ (52 + b) * Mk k0).
  { replace (52 + b) with (a + k0) by (unfold k0; lia). apply PM_shift; unfold k0; lia. }
  rewrite Z.pow_add_r in Hs by lia. change (2 ^ 52) with two52 in Hs.
  rewrite Z.pow_succ_r in Ha2, Hb2 by lia.
  pose proof (Pk_pos k0) as HP. pose proof (Mk_pos k0) as HM. unfold Nk, Dk.
  set (P := Pk k0) in *. set (M := Mk k0) in *. set (A := 2 ^ a) in *. set (B := 2 ^ b) in *.
  split.
  - (* 2^51 den M < 2^51 (2B) M = 2^52 B M = A P <= num P *)
    apply Z.lt_le_trans with (A * P).
    + rewrite Hs, two52_two51. assert (den * M < 2 * B * M) by (apply Z.mul_lt_mono_pos_r; lia).
      replace (two51 * (den * M)) with (two51 * (den * M)) by ring. replace (2 * two51 * B * M) with (two51 * (2 * B * M)) by ring.
      apply Z.mul_lt_mono_pos_l; [reflexivity|exact H].
    + apply Z.mul_le_mono_nonneg_r; lia.
  - (* num P < 2A P = 2 * 2^52 B M = 2^53 B M <= 2^53 den M *)
    apply Z.lt_le_trans with (2 * A * P).
    + apply Z.mul_lt_mono_pos_r; lia.
    + replace (2 * A * P) with (2 * (A * P)) by ring. rewrite Hs, two53_two52.
      replace (2 * (two52 * B * M)) with (2 * two52 * (B * M)) by ring.
      apply Z.mul_le_mono_nonneg_l; [unfold two52; lia|]. apply Z.mul_le_mono_nonneg_r; lia.
Qed.

Let q0 := Nk k0 / Dk k0.
Let k1 := if two53 <=? q0 then k0 - 1 else if q0 <? two52 then k0 + 1 else k0.

(* after the adjustment the quotient is normalised: in [2^52, 2^53) *)
Lemma k1_normal : two52 * Dk k1 <= Nk k1 < two53 * Dk k1.
Proof.
  destruct k0_bounds as [Hlo Hhi]. pose proof (Dk_pos k0) as HD0.
  assert (Hq0 : q0 < two53) by (apply div_lt_of_mul; [exact HD0|exact Hhi]).
  unfold k1. destruct (two53 <=? q0) eqn:E1; [apply Z.leb_le in E1; lia|]. clear E1.
  destruct (q0 <? two52) eqn:E2.
  - apply Z.ltb_lt in E2. pose proof (mul_gt_of_div _ _ _ HD0 E2) as Hlt. pose proof (ND_step k0) as Hs. pose proof (Dk_pos (k0 + 1)) as HD1.
    split.
    + apply Z.mul_le_mono_pos_r with (Dk k0); [exact HD0|]. rewrite Hs. rewrite two52_two51.
      replace (2 * two51 * Dk (k0 + 1) * Dk k0) with (2 * ((two51 * Dk k0) * Dk (k0 + 1))) by ring.
      apply Z.mul_le_mono_nonneg_l; [lia|]. apply Z.mul_le_mono_nonneg_r; lia.
    + apply Z.mul_lt_mono_pos_r with (Dk k0); [exact HD0|]. rewrite Hs. rewrite two53_two52.
      replace (2 * two52 * Dk (k0 + 1) * Dk k0) with (2 * ((two52 * Dk k0) * Dk (k0 + 1))) by ring.
      apply Z.mul_lt_mono_pos_l; [lia|]. apply Z.mul_lt_mono_pos_r; lia.
  - apply Z.ltb_ge in E2. split; [apply mul_le_of_div; [exact HD0|exact E2]|exact Hhi].
Qed.

Let k := Z.min k1 1074.
Let q := Nk k / Dk k.

(* the quotient that is rounded: normalised, or taken at the minimum exponent and below 2^53 *)
Lemma q_range : (k = k1 /\ two52 <= q < two53) \/ (k = 1074 /\ 1074 < k1 /\ 0 <= q < two53).
Proof.
  destruct k1_normal as [Hlo Hhi]. pose proof (Dk_pos k) as HDk. unfold q. unfold k in *.
  destruct (Z.min_spec k1 1074) as [[Hlt ->]|[Hge ->]].
  - left. split; [reflexivity|]. split; [apply div_ge_of_mul; [apply Dk_pos|exact Hlo]|apply div_lt_of_mul; [apply Dk_pos|exact Hhi]].
  - destruct (Z.eq_dec k1 1074) as [E|NE].
    + left. split; [symmetry; exact E|]. rewrite <- E. split; [apply div_ge_of_mul; [apply Dk_pos|exact Hlo]|apply div_lt_of_mul; [apply Dk_pos|exact Hhi]].
    + right. split; [reflexivity|]. split; [lia|]. split; [apply Z.div_pos; [pose proof (Nk_pos 1074); lia|apply Dk_pos]|].
      apply div_lt_of_mul; [apply Dk_pos|].
      pose proof (ND_add 1074 (k1 - 1074) ltac:(lia)) as Hs. replace (1074 + (k1 - 1074)) with k1 in Hs by lia.
      pose proof (Dk_pos k1) as HD1. pose proof (Dk_pos 1074) as HD. pose proof (Nk_pos 1074) as HN.
      assert (Hp : 1 <= 2 ^ (k1 - 1074)) by (apply (Z.pow_le_mono_r 2 0); lia).
      (* Nk 1074 * Dk k1 <= 2^j * (Nk 1074 * Dk k1) = Nk k1 * Dk 1074 < two53 * Dk k1 * Dk 1074 *)
      apply Z.mul_lt_mono_pos_r with (Dk k1); [exact HD1|].
      apply Z.le_lt_trans with (Nk k1 * Dk 1074).
      * rewrite Hs. assert (0 < Nk 1074 * Dk k1) by (apply Z.mul_pos_pos; assumption). nia.
      * replace (two53 * Dk 1074 * Dk k1) with (two53 * Dk k1 * Dk 1074) by ring. apply Z.mul_lt_mono_pos_r; assumption.
Qed.
End Round.

(* ---------- the function, restated over Nk / Dk ---------- *)
Definition rk (num den : Z) : Z :=
  let k0 := 52 - (Z.log2 num - Z.log2 den) in
  let q0 := Nk num k0 / Dk den k0 in
  let k1 := if two53 <=? q0 then k0 - 1 else if q0 <? two52 then k0 + 1 else k0 in
  Z.min k1 1074.

Definition nearest_even (n d : Z) : Z :=
  let q := n / d in
  match Z.compare (2 * (n mod d)) d with
  | Gt => q + 1
  | Eq => if Z.odd q then q + 1 else q
  | Lt => q
  end.

Definition round2 (num den : Z) : option (Z * Z) :=
  if num =? 0 then Some (0, 0) else
  let k := rk num den in
  let q' := nearest_even (Nk num k) (Dk den k) in
  let e := - k in
  if (971 <? e) || ((e =? 971) && (two53 <=? q')) then None else Some (q', e).

Lemma Nk_is num k : (if 0 <=? k then num * 2 ^ k else num) = Nk num k.
Proof. unfold Nk, Pk. destruct (0 <=? k); lia. Qed.
Lemma Dk_is den k : (if 0 <=? k then den else den * 2 ^ (- k)) = Dk den k.
Proof. unfold Dk, Mk. destruct (0 <=? k); lia. Qed.

Lemma round_eq num den : round_pos_rational num den = round2 num den.
Proof.
  unfold round_pos_rational, round2, rk, nearest_even. destruct (num =? 0); [reflexivity|]. cbv zeta.
  rewrite !quot_is, !Nk_is, !Dk_is. reflexivity.
Qed.

Lemma nearest_even_spec n d : 0 < d -> 0 <= n ->
  let m := nearest_even n d in
  Z.abs (2 * (m * d - n)) <= d /\ (Z.abs (2 * (m * d - n)) = d -> Z.even m = true)
  /\ n / d <= m <= n / d + 1 /\ (n mod d = 0 -> m = n / d).
Proof.
  intros Hd Hn. unfold nearest_even. pose proof (Z.div_mod n d ltac:(lia)) as Hdm. pose proof (Z.mod_pos_bound n d Hd) as Hr.
  set (q := n / d) in *. set (r := n mod d) in *.
  destruct (Z.compare_spec (2 * r) d) as [E|E|E]; cbv zeta.
  - destruct (Z.odd q) eqn:Eo.
    + replace ((q + 1) * d - n) with (d - r) by lia. rewrite Z.abs_eq by lia. repeat split; try lia.
      rewrite Z.even_add, <- Z.negb_odd, Eo. reflexivity.
    + replace (q * d - n) with (- r) by lia. rewrite Z.abs_neq by lia. repeat split; try lia.
      rewrite <- Z.negb_odd, Eo. reflexivity.
  - replace (q * d - n) with (- r) by lia. rewrite Z.abs_neq by lia. repeat split; lia.
  - replace ((q + 1) * d - n) with (d - r) by lia. rewrite Z.abs_eq by lia. repeat split; lia.
Qed.

Lemma q_range_rk num den : 0 < num -> 0 < den ->
  let k := rk num den in
  (two52 <= Nk num k / Dk den k < two53) \/ (k = 1074 /\ 0 <= Nk num k / Dk den k < two53).
Proof.
  intros Hn Hd. pose proof (q_range num den Hn Hd) as Hq. unfold rk. cbv zeta.
  destruct Hq as [[_ Hq]|(Hk & _ & Hq)]; [left; exact Hq|right; split; [exact Hk|exact Hq]].
Qed.

(* THE rounding theorem *)
Theorem round_nearest_even num den m e :
  0 < num -> 0 < den -> round_pos_rational num den = Some (m, e) ->
  let n := Nk num (- e) in let d := Dk den (- e) in        (* n / d = (num / den) * 2^(-e), exactly *)
  (* within half a unit of the last place, ties to even *)
  Z.abs (2 * (m * d - n)) <= d /\ (Z.abs (2 * (m * d - n)) = d -> Z.even m = true) /\
  (* the unit is float64's: normalised significand, or the minimum exponent *)
  ((two52 <= m <= two53) \/ (e = -1074 /\ 0 <= m <= two53)) /\
  (* finite *)
  -1074 <= e <= 971 /\ (e = 971 -> m < two53).
Proof.
  intros Hn Hd. rewrite round_eq. unfold round2. destruct (num =? 0) eqn:E0; [apply Z.eqb_eq in E0; lia|]. cbv zeta.
  destruct ((971 <? - rk num den) || ((- rk num den =? 971) && (two53 <=? nearest_even (Nk num (rk num den)) (Dk den (rk num den))))) eqn:Eov; [discriminate|].
  intros [= <- <-]. rewrite Z.opp_involutive.
  apply orb_false_elim in Eov. destruct Eov as [Eo1 Eo2]. apply Z.ltb_ge in Eo1.
  pose proof (Dk_pos num den Hn Hd (rk num den)) as HD. pose proof (Nk_pos num Hn (rk num den)) as HN.
  destruct (nearest_even_spec (Nk num (rk num den)) (Dk den (rk num den)) HD ltac:(lia)) as (H1 & H2 & H3 & _).
  split; [exact H1|]. split; [exact H2|].
  pose proof (q_range_rk num den Hn Hd) as Hq. cbv zeta in Hq.
  assert (Hk : rk num den <= 1074) by (unfold rk; apply Z.le_min_r).
  split; [|split].
  - destruct Hq as [Hq|(Hk' & Hq)]; [left; lia|right]. split; lia.
  - lia.
  - intros E. apply andb_false_elim in Eo2. destruct Eo2 as [Eo2|Eo2]; [apply Z.eqb_neq in Eo2; lia|apply Z.leb_gt in Eo2; exact Eo2].
Qed.

(* ---------- a quotient that is itself a float64 is returned exactly ---------- *)
Lemma PP_nonneg E k : 0 <= E + k -> Pk E * Pk k = 2 ^ (E + k) * (Mk k * Mk E).
Proof.
  intros H. unfold Pk, Mk. destruct (0 <=? E) eqn:E1; destruct (0 <=? k) eqn:E2;
    try apply Z.leb_le in E1; try apply Z.leb_le in E2; try apply Z.leb_gt in E1; try apply Z.leb_gt in E2.
  - rewrite Z.pow_add_r by lia. lia.
  - rewrite Z.mul_1_r, Z.mul_1_r. rewrite <- Z.pow_add_r by lia. f_equal. lia.
  - rewrite Z.mul_1_l, Z.mul_1_l. rewrite <- Z.pow_add_r by lia. f_equal. lia.
  - lia.
Qed.

Lemma PP_neg E k : E + k < 0 -> Pk E * Pk k * 2 ^ (- E - k) = Mk k * Mk E.
Proof.
  intros H. unfold Pk, Mk. destruct (0 <=? E) eqn:E1; destruct (0 <=? k) eqn:E2;
    try apply Z.leb_le in E1; try apply Z.leb_le in E2; try apply Z.leb_gt in E1; try apply Z.leb_gt in E2;
    try lia; rewrite ?Z.mul_1_l, ?Z.mul_1_r; rewrite <- ?Z.pow_add_r by lia; f_equal; lia.
Qed.

(* num / den = M * 2^E, written without division *)
Definition is_dyadic (num den M E : Z) : Prop := num * Mk E = M * Pk E * den.

Theorem round_exact_dyadic num den M E m e :
  0 < num -> 0 < den -> 0 < M < two53 -> -1074 <= E -> is_dyadic num den M E ->
  round_pos_rational num den = Some (m, e) ->
  m * Dk den (- e) = Nk num (- e).
Proof.
  intros Hn Hd HM HE Hdy. rewrite round_eq. unfold round2. destruct (num =? 0) eqn:E0; [apply Z.eqb_eq in E0; lia|]. cbv zeta.
  destruct (_ || _); [discriminate|]. intros [= <- <-]. rewrite Z.opp_involutive.
  set (k := rk num den). pose proof (Dk_pos num den Hn Hd k) as HD. pose proof (Nk_pos num Hn k) as HN.
  pose proof (Mk_pos E) as HME. pose proof (Mk_pos k) as HMk.
  assert (Hdiv : exists c, Nk num k = c * Dk den k).
  { destruct (Z_le_gt_dec 0 (E + k)) as [Hs|Hs].
    - exists (M * 2 ^ (E + k)). unfold Nk, Dk. apply Z.mul_reg_r with (Mk E); [lia|].
      replace (num * Pk k * Mk E) with ((num * Mk E) * Pk k) by ring. rewrite Hdy.
      replace (M * Pk E * den * Pk k) with (M * den * (Pk E * Pk k)) by ring. rewrite (PP_nonneg E k Hs). ring.
    - exfalso. assert (Hk : k <> 1074) by lia.
      pose proof (q_range_rk num den Hn Hd) as Hq. cbv zeta in Hq. fold k in Hq. destruct Hq as [Hq|[Hq _]]; [|contradiction].
      assert (Hlo : two52 * Dk den k <= Nk num k) by (apply mul_le_of_div; [exact HD|lia]).
      assert (Hsc : Nk num k * 2 ^ (- E - k) = M * Dk den k).
      { unfold Nk, Dk. apply Z.mul_reg_r with (Mk E); [lia|].
        replace (num * Pk k * 2 ^ (- E - k) * Mk E) with ((num * Mk E) * Pk k * 2 ^ (- E - k)) by ring. rewrite Hdy.
        replace (M * Pk E * den * Pk k * 2 ^ (- E - k)) with (M * den * (Pk E * Pk k * 2 ^ (- E - k))) by ring.
        rewrite (PP_neg E k ltac:(lia)). ring. }
      assert (Hp : 2 <= 2 ^ (- E - k)) by (change 2 with (2 ^ 1) at 1; apply Z.pow_le_mono_r; lia).
      (* two52 * d * 2 <= n * 2^j = M * d < two53 * d *)
      assert (H1 : two52 * Dk den k * 2 <= Nk num k * 2 ^ (- E - k)).
      { apply Z.mul_le_mono_nonneg; try lia. unfold two52. lia. }
      rewrite Hsc in H1. assert (H2 : M * Dk den k < two53 * Dk den k) by (apply Z.mul_lt_mono_pos_r; lia).
      rewrite two53_two52 in H2. lia. }
  destruct Hdiv as [c Hc].
  destruct (nearest_even_spec (Nk num k) (Dk den k) HD ltac:(lia)) as (_ & _ & _ & H4).
  rewrite H4 by (rewrite Hc; apply Z.mod_mul; lia). rewrite Hc, Z.div_mul by lia. reflexivity.
Qed.

(* ... and a finite one is never reported as overflow *)
Theorem round_accepts_dyadic num den M E :
  0 < num -> 0 < den -> 0 < M < two53 -> -1074 <= E -> is_dyadic num den M E ->
  M * Pk E < 2 ^ 1024 * Mk E ->                      (* M * 2^E < 2^1024 *)
  exists m e, round_pos_rational num den = Some (m, e).
Proof.
  intros Hn Hd HM HE Hdy Hfin.
  destruct (round_pos_rational num den) as [[m e]|] eqn:Er; [exists m, e; reflexivity|exfalso].
  rewrite round_eq in Er. unfold round2 in Er. destruct (num =? 0) eqn:E0; [discriminate|]. cbv zeta in Er.
  set (k := rk num den) in *. set (q' := nearest_even (Nk num k) (Dk den k)) in *.
  destruct ((971 <? - k) || ((- k =? 971) && (two53 <=? q'))) eqn:Eov; [|discriminate]. clear Er.
  (* q' is the exact quotient *)
  assert (Hex : q' * Dk den k = Nk num k).
  { (* the divisibility argument of round_exact_dyadic *)
    pose proof (Dk_pos num den Hn Hd k) as HD. pose proof (Nk_pos num Hn k) as HN.
    pose proof (Mk_pos E) as HME.
    assert (Hdiv : exists c, Nk num k = c * Dk den k).
    { destruct (Z_le_gt_dec 0 (E + k)) as [Hs|Hs].
      - exists (M * 2 ^ (E + k)). unfold Nk, Dk. apply Z.mul_reg_r with (Mk E); [lia|].
        replace (num * Pk k * Mk E) with ((num * Mk E) * Pk k) by ring. rewrite Hdy.
        replace (M * Pk E * den * Pk k) with (M * den * (Pk E * Pk k)) by ring. rewrite (PP_nonneg E k Hs). ring.
      - exfalso. assert (Hk : k <> 1074) by lia.
        pose proof (q_range_rk num den Hn Hd) as Hq. cbv zeta in Hq. fold k in Hq. destruct Hq as [Hq|[Hq _]]; [|contradiction].
        assert (Hlo : two52 * Dk den k <= Nk num k) by (apply mul_le_of_div; [exact HD|lia]).
        assert (Hsc : Nk num k * 2 ^ (- E - k) = M * Dk den k).
        { unfold Nk, Dk. apply Z.mul_reg_r with (Mk E); [lia|].
          replace (num * Pk k * 2 ^ (- E - k) * Mk E) with ((num * Mk E) * Pk k * 2 ^ (- E - k)) by ring. rewrite Hdy.
          replace (M * Pk E * den * Pk k * 2 ^ (- E - k)) with (M * den * (Pk E * Pk k * 2 ^ (- E - k))) by ring.
          rewrite (PP_neg E k ltac:(lia)). ring. }
        assert (Hp : 2 <= 2 ^ (- E - k)) by (change 2 with (2 ^ 1) at 1; apply Z.pow_le_mono_r; lia).
        assert (H1 : two52 * Dk den k * 2 <= Nk num k * 2 ^ (- E - k)).
        { apply Z.mul_le_mono_nonneg; try lia. unfold two52. lia. }
        rewrite Hsc in H1. assert (H2 : M * Dk den k < two53 * Dk den k) by (apply Z.mul_lt_mono_pos_r; lia).
        rewrite two53_two52 in H2. lia. }
    destruct Hdiv as [c Hc].
    destruct (nearest_even_spec (Nk num k) (Dk den k) HD ltac:(lia)) as (_ & _ & _ & H4).
    unfold q'. rewrite H4 by (rewrite Hc; apply Z.mod_mul; lia). rewrite Hc, Z.div_mul by lia. reflexivity. }
  (* in the overflow cases k < 0 and the quotient is normalised *)
  assert (Hkneg : k <= -971).
  { apply orb_prop in Eov. destruct Eov as [Eov|Eov]; [apply Z.ltb_lt in Eov; lia|].
    apply andb_prop in Eov. destruct Eov as [Eov _]. apply Z.eqb_eq in Eov. lia. }
  pose proof (q_range_rk num den Hn Hd) as Hq. cbv zeta in Hq. fold k in Hq. destruct Hq as [Hq|[Hq _]]; [|lia].
  pose proof (Dk_pos num den Hn Hd k) as HD. pose proof (Mk_pos E) as HME. pose proof (Pk_pos E) as HPE.
  assert (Hq52 : two52 <= q').
  { destruct (nearest_even_spec (Nk num k) (Dk den k) HD ltac:(pose proof (Nk_pos num Hn k); lia)) as (_ & _ & H3 & _). unfold q'. lia. }
  (* q' * 2^(-k) * Mk E = M * Pk E *)
  assert (Hval : q' * 2 ^ (- k) * Mk E = M * Pk E).
  { unfold Nk, Dk, Pk, Mk in Hex. destruct (0 <=? k) eqn:Ek; [apply Z.leb_le in Ek; lia|]. rewrite Z.mul_1_r in Hex.
    apply Z.mul_reg_r with den; [lia|]. replace (q' * 2 ^ (- k) * Mk E * den) with (q' * (den * 2 ^ (- k)) * Mk E) by ring.
    rewrite Hex. unfold is_dyadic in Hdy. rewrite Hdy. ring. }
  assert (Hlt : q' * 2 ^ (- k) < 2 ^ 1024).
  { apply Z.mul_lt_mono_pos_r with (Mk E); [exact HME|]. rewrite Hval. exact Hfin. }
  apply orb_prop in Eov. destruct Eov as [Eov|Eov].
  - apply Z.ltb_lt in Eov. assert (2 ^ 972 <= 2 ^ (- k)) by (apply Z.pow_le_mono_r; lia).
    assert (two52 * 2 ^ 972 <= q' * 2 ^ (- k)) by (apply Z.mul_le_mono_nonneg; [unfold two52; lia|exact Hq52|apply Z.pow_nonneg; lia|exact H]).
    change (two52 * 2 ^ 972) with (2 ^ 1024) in H0. lia.
  - apply andb_prop in Eov. destruct Eov as [Ek Eq]. apply Z.eqb_eq in Ek. apply Z.leb_le in Eq. rewrite Ek in Hlt.
    assert (two53 * 2 ^ 971 <= q' * 2 ^ 971) by (apply Z.mul_le_mono_nonneg_r; [apply Z.pow_nonneg|]; lia).
    change (two53 * 2 ^ 971) with (2 ^ 1024) in H. lia.
Qed.
