"""scale.py — families that vary SIZE and SHAPE beyond what random small rules reach: long chains,
deep paths, many undecided comparisons, long lists, wide objects, long names, long texts, many
optional blanks/newlines, literals with escapes.  Thresholds of fast paths, fixed-size buffers,
bit masks and caches sit at powers of two: every family walks across 8, 16, 32, 64 (and 256 in
the thorough tier).  Each function returns a list of (rule text, object, family name)."""
from .core import *
from .gen import *

def _sizes(ctx, quick, thorough_extra):
    return quick + ([] if ctx.quick else thorough_extra)

def long_chains(ctx):
    """chains of n presence tests on distinct attributes: all-or, all-and, mixed; a group in the middle"""
    out = []
    rng = ctx.rng
    for n in _sizes(ctx, [33, 64, 65, 66, 67, 100, 129], [130, 257, 300]):
        names = ['k%d' % i for i in range(n)]
        def chain(ops, wrap=None):
            """the text and the left-associated tree it denotes"""
            parts, q = [], None
            for i, nm in enumerate(names):
                leaf, lq = '%s pr' % nm, ('pr', [nm])
                if wrap and i in wrap:
                    leaf, lq = wrap[i] % leaf, ('paren', wrap[i].startswith('not'), lq)
                parts.append(leaf)
                q = lq if q is None else ('logic', ops[i - 1], q, lq)
                if i < n - 1:
                    parts.append(ops[i])
            return ' '.join(parts), q
        add = lambda tq, o: out.append((tq[0], o, 'long-chain', tq[1]))
        all_or, all_and = ['or'] * (n - 1), ['and'] * (n - 1)
        for pos in (0, 1, n // 2, n - 2, n - 1):
            add(chain(all_or), obj({names[pos]: I(1)}))
            add(chain(all_and), obj({nm: I(1) for i, nm in enumerate(names) if i != pos}))
        add(chain(all_or), obj({}))
        add(chain(all_and), obj({nm: I(1) for nm in names}))
        for _ in range(3 if ctx.quick else 8):
            ops = [rng.choice(['and', 'or']) for _ in range(n - 1)]
            wrap = {rng.randrange(n): 'not (%s)', rng.randrange(n): '(%s)'} if rng.random() < 0.5 else None
            for _ in range(3):
                p = rng.choice([0.1, 0.5, 0.9])
                add(chain(ops, wrap), obj({nm: I(1) for nm in names if rng.random() < p}))
        # a head of `or`s followed by `and`s and vice versa (which connective applies where)
        for cut in (1, 2, n - 65 if n > 66 else 3, n // 2):
            if 0 < cut < n - 1:
                ops = ['or'] * cut + ['and'] * (n - 1 - cut)
                add(chain(ops), obj({names[0]: I(1)}))
                add(chain(ops), obj({nm: I(1) for nm in names[cut:]}))
                ops = ['and'] * cut + ['or'] * (n - 1 - cut)
                add(chain(ops), obj({names[-1]: I(1)}))
                add(chain(ops), obj({nm: I(1) for nm in names[:cut + 1]}))
    return out

def long_fail_chains(ctx):
    """an unsupported comparison somewhere in a long chain, followed by comparisons that would replace the error"""
    out = []
    heads = ['a gt null', 'a co 1', 'a in 1.0.0']
    tails = ['b eq 99999999999999999999', 'b le "bc" or k in [1]', 'd in [99999999999999999999]', 'e pr']
    for n in _sizes(ctx, [10, 40, 64, 65, 66, 100], [257]):
        for pos in (0, 1, n // 2, n - 3):
            for h in heads[:2 if ctx.quick else 3]:
                for t in tails:
                    parts = ['k%d eq %d' % (i, i) for i in range(n)]
                    parts[pos] = h
                    parts.insert(pos + 1, t)
                    for o in (obj({}), obj({'a': I(1), 'b': S('x'), 'k': I(1)})):
                        out.append((' or '.join(parts), o, 'long-fail-chain'))
        # the failing comparison reached only deep inside parentheses
        for depth in (9, 17):
            inner = 'a gt null'
            for _ in range(depth):
                inner = '(%s or z pr)' % inner
            out.append(('%s or b eq 99999999999999999999' % inner, obj({}), 'long-fail-chain'))
            out.append(('k eq 1 and %s' % inner, obj({'k': I(1)}), 'long-fail-chain'))
    return out

def _nest(path, leaf):
    o = leaf
    for k in reversed(path):
        o = {k: o}
    return o

def deep_paths(ctx):
    """paths of 2..33 steps: siblings under a long common prefix, absent / nil leaves, prefixes cut at every depth"""
    out = []
    leaf = {'x': I(1), 'y': I(2), 't': ('b', True), 'f': ('b', False), 'n': ('nil',), 's': S('v'), 'w': {'x': I(9)}}
    for d in _sizes(ctx, [2, 3, 4, 5, 7, 8, 9, 10, 13, 16, 17, 33], [65]):
        steps = [chr(97 + i % 26) + (str(i // 26) if i >= 26 else '') for i in range(d - 1)]
        P = '.'.join(steps)
        full = obj(_nest(steps, leaf))
        AND, OR = (lambda a, b: a and b), (lambda a, b: a or b)
        # (format over the comparisons, the comparisons, the Boolean combination)
        compound = [('{0} and {1}', ['%(P)s.x eq 1', '%(P)s.y eq 2'], AND), ('{1} and {0}', ['%(P)s.x eq 1', '%(P)s.y eq 2'], AND),
                    ('{0} or {1}', ['%(P)s.x eq 2', '%(P)s.y eq 2'], OR), ('{0} and {1}', ['%(P)s.x eq 1', '%(P)s.z pr'], AND),
                    ('{1} or {0}', ['%(P)s.x eq 1', '%(P)s.z pr'], OR), ('{0} and {1}', ['%(P)s.x eq 1', '%(P)s.w.x eq 9'], AND),
                    ('{0} or {1}', ['%(P)s.w.x eq 1', '%(P)s.x eq 1'], OR), ('{0} and {1}', ['%(P)s.x in [1, 2]', '%(P)s.y in [1]'], AND),
                    ('not ({0}) and {1}', ['%(P)s.z pr', '%(P)s.y eq 2'], lambda a, b: (not a) and b),
                    ('{0} and {1} and {2}', ['%(P)s.x eq 1', '%(P)s.y eq 2', '%(P)s.s eq "V"'], lambda a, b, c: a and b and c)]
        single = ['%(P)s.x pr', '%(P)s.z pr', '%(P)s.n pr', '%(P)s.n eq null', '%(P)s.z eq null', '%(P)s.x ne null', '%(P)s.x eq null', '%(P)s.t eq true',
                  '%(P)s.t ne false', '%(P)s.f eq true', '%(P)s.x eq true', '%(P)s.s eq "V"', '%(P)s.w.x eq 9', '%(P)s pr', '%(P)s eq null']
        objs = [full, obj({})]
        for j in sorted(set([0, 1, d // 2, d - 2])):
            if 0 <= j < len(steps):
                objs.append(obj(_nest(steps[:j], {steps[j]: ('nil',)})))       # nil at depth j
                objs.append(obj(_nest(steps[:j], {'other': I(1)})))             # missing at depth j
        # a sibling subtree that differs in the last-but-one step
        if d >= 3:
            sib = steps[:-1] + ['zz']
            both = obj(_nest(steps[:-1], {steps[-1]: leaf, 'zz': {'x': I(5), 'y': I(2)}}))
            Q = '.'.join(sib)
            for fmt, comps, fn in [('{0} and {1}', [P + '.x eq 1', Q + '.x eq 5'], AND), ('{1} and {0}', [P + '.x eq 1', Q + '.x eq 5'], AND),
                                   ('{0} and {1}', [P + '.x eq 1', Q + '.x eq 1'], AND), ('{0} and {1}', [P + '.y eq 2', Q + '.y eq 2'], AND),
                                   ('{0} or {1}', [Q + '.x eq 1', P + '.x eq 1'], OR)]:
                out.append((fmt.format(*comps), both, 'deep-path', (comps, fn)))
        for fmt, comps, fn in compound:
            comps = [c % {'P': P} for c in comps]
            for o in objs:
                out.append((fmt.format(*comps), o, 'deep-path', (comps, fn)))
        for f in single:
            for o in objs:
                out.append((f % {'P': P}, o, 'deep-path', None))
    return out

def many_undecided(ctx):
    """1..130 comparisons that cannot be decided (absent / wrong type), alone and between decided ones"""
    out = []
    ns = [1, 2, 3, 7, 8, 9, 15, 16, 17, 31, 32, 33, 63, 64, 65, 96, 128] if ctx.quick else list(range(1, 131)) + [256, 257]
    for n in ns:
        cmps = ['k%d eq 1' % i for i in range(n)]
        out.append((' or '.join(cmps), obj({}), 'many-undecided'))
        out.append((' or '.join(cmps), obj({'k%d' % i: S('s') for i in range(n)}), 'many-undecided'))
        out.append((' and '.join('not (%s)' % c for c in cmps), obj({}), 'many-undecided'))
        inter = []
        for i, c in enumerate(cmps):
            inter.append(c)
            inter.append('d%d pr' % i)
        out.append((' or '.join(inter), obj({}), 'many-undecided'))
        out.append((' or '.join(cmps + ['z eq 1']), obj({'z': I(1)}), 'many-undecided'))       # last one decided
        out.append((' or '.join(['z eq 2'] + cmps), obj({'z': I(1)}), 'many-undecided'))      # first one decided
    return out

def long_lists(ctx):
    """lists of 15..257 (1025) elements against attributes at, next to and between the elements"""
    out = []
    rng = ctx.rng
    for n in _sizes(ctx, [15, 16, 17, 18, 31, 32, 33, 64, 65, 100, 257], [1025]):
        ints = list(range(1, n + 1))
        rng.shuffle(ints)
        t_int = 'x in [%s]' % ', '.join(str(i) for i in ints)
        attrs = [F(1.5), F(n - 0.5), F(0.5), F(float(n)), F(float(n + 1)), F(1.0), I(n), I(n + 1), I(0), ('i64', 1), ('i32', n), S('1'), ABSENT,
                 F(float('nan')), F(n + 0.25), F(-1.5), ('b', True)]
        for a in attrs:
            out.append((t_int, obj({'x': a}) if a is not ABSENT else obj({}), 'long-list'))
        strs = ['v%d' % i for i in range(n)]
        rng.shuffle(strs)
        t_str = 'x in [%s]' % ', '.join('"%s"' % s for s in strs)
        for a in [S('V%d' % (n - 1)), S('v0'), S('v'), S('V0x'), S('v%d' % n), ('str', b'V1'), I(1), ABSENT, S('')]:
            out.append((t_str, obj({'x': a}) if a is not ABSENT else obj({}), 'long-list'))
        dbl = [i + 0.5 for i in range(n)]
        rng.shuffle(dbl)
        t_dbl = 'x in [%s]' % ', '.join(repr(v) for v in dbl)
        for a in [F(n - 0.5), F(0.5), F(1.0), I(1), F(float(n)), F(n + 0.5), S('0.5'), ABSENT]:
            out.append((t_dbl, obj({'x': a}) if a is not ABSENT else obj({}), 'long-list'))
        # two long lists in one rule, and the same list twice
        out.append(('%s or %s' % (t_int.replace('x ', 'y ', 1), t_int), obj({'x': F(1.5), 'y': I(n)}), 'long-list'))
        out.append(('%s and %s' % (t_int, t_int), obj({'x': F(2.5)}), 'long-list'))
    return out

def wide_objects(ctx):
    """objects with 9, 65, 300 keys, some nil; long attribute names with every allowed character"""
    out = []
    for n in _sizes(ctx, [9, 65, 300], [2000]):
        d = {'k%d' % i: (('nil',) if i % 7 == 3 else I(i)) for i in range(n)}
        d['m'] = {'k%d' % i: I(i) for i in range(n)}
        o = obj(d)
        for t in ['k%d eq %d' % (n - 1, n - 1), 'k%d pr' % (n - 1), 'k%d pr' % n, 'k3 pr', 'k3 eq null', 'k4 eq null', 'k10 eq null', 'm.k%d eq %d' % (n - 1, n - 1),
                  'm.k%d pr' % n, 'k1 eq 1 and k%d eq %d and m.k2 eq 2' % (n - 2, n - 2), 'k3 ne null or k%d ne null' % (n - 1)]:
            out.append((t, o, 'wide-object'))
    for ln in _sizes(ctx, [15, 16, 17, 32, 33, 64, 65, 300], [5000]):
        name = ('a-b_c:d9' * (ln // 8 + 1))[:ln]
        name2 = 'Z' + name[1:]
        o = obj({name: I(1), name2: {name: I(2), 'x': ('nil',)}})
        for t in ['%s eq 1' % name, '%s pr' % name, '%s.%s eq 2' % (name2, name), '%s.%s pr' % (name2, name2), '%s.x eq null' % name2, '%sx pr' % name,
                  '%s eq 1 and %s.%s eq 2' % (name, name2, name), '%s gt null or %s eq 1' % (name, name)]:
            out.append((t, o, 'long-name'))
    return out

def spellings_at_scale(ctx):
    """(base text, variants): optional blanks / newlines / parentheses in quantity, literals with escapes"""
    groups = []
    for k in _sizes(ctx, [2, 3, 5, 10, 40], [300]):
        nl = ' ' + '\n' * k
        groups.append(('x eq 1 and y eq 2', ['x%seq%s1%sand%sy%seq%s2' % ((nl,) * 6), 'x eq 1%sand y eq 2' % nl, '(%sx eq 1 and y eq 2%s)' % (nl, nl)]))
        bl = ',' + ' ' * k
        groups.append(('x in [1,2,3] or y in ["a","b"]', ['x in [1%s2%s3] or y in ["a"%s"b"]' % (bl, bl, bl), 'x in [1%s2,3] or y in ["a","b"]' % bl]))
    for depth in _sizes(ctx, [2, 8, 9, 16, 17, 33, 65], [200]):
        L, R = '(' * depth, ')' * depth
        Ls, Rs = '( ' * depth, ' )' * depth
        base = 'x eq 1 and y eq 2 or z eq 3'
        groups.append((base, ['%s%s%s' % (L, base, R), '%sx eq 1%s and y eq 2 or z eq 3' % (L, R), 'x eq 1 and y eq 2 or %sz eq 3%s' % (L, R),
                              '%s%s%s' % (Ls, base, Rs), '%sx eq 1 and y eq 2%s or z eq 3' % (L, R)]))
        base = 'not (x eq 1) and y eq 2'
        groups.append((base, ['not %s(x eq 1)%s and y eq 2' % (L[1:], R[1:]), 'NOT (%sx eq 1%s) and y eq 2' % (L, R), '%snot (x eq 1)%s and y eq 2' % (L, R)]))
    # an upper-case / symbolic spelling far into a chain
    for n in (20, 40, 70):
        parts = ['k%d eq %d' % (i, i) for i in range(n)]
        base = ' or '.join(parts)
        for sp in ('EQ', '=='):
            v = list(parts)
            v[n - 1] = 'k%d %s %d' % (n - 1, sp, n - 1)
            v2 = list(parts)
            v2[n // 2] = 'k%d %s %d' % (n // 2, sp, n // 2)
            groups.append((base, [' or '.join(v), ' or '.join(v2)]))
    # literals containing operators, parentheses, quotes and backslashes: parentheses / spelling around them
    lits = ['"a EQ b"', '"a and b"', '"(x"', '"x)"', '")("', '"\\\\"', '"C:\\\\"', '"a\\"b"', '"\\\\\\""', '"not (a)"', '"[1, 2]"', '"a  ,  b"', '" "', '"a\\nb"', '"== !="']
    for l1 in lits:
        for l2 in (lits if not ctx.quick else lits[:8]):
            base = 'x eq %s or y eq %s' % (l1, l2)
            groups.append((base, ['(x eq %s) or (y eq %s)' % (l1, l2), '((x eq %s) or (y eq %s))' % (l1, l2), '(x eq %s or y eq %s)' % (l1, l2),
                                  'x EQ %s or y == %s' % (l1, l2), '( x eq %s ) or ( y eq %s )' % (l1, l2), '(x eq %s) or y eq %s' % (l1, l2),
                                  'x eq %s or (y eq %s)' % (l1, l2), 'x in [%s] or y in [%s,  %s]' % (l1, l2, l1)]))
    return groups

def long_texts(ctx):
    """long sentences and long non-sentences whose defect lies far from the start"""
    out = []
    o = obj({'x': I(1)})
    for n in _sizes(ctx, [50, 130], [600]):
        good = ' or '.join('k%d eq %d' % (i, i) for i in range(n)) + ' or x eq 1'
        for bad in (good + ' garbage', good + ' AND x eq 1', good + ')', '(' + good, good + ' or', good + ' or x eq 01', good.replace('k7 eq 7', 'k7 eq eq 7'),
                    good + ' ~', good + '\x00', good + ' or x eq 1e5', good.replace(' or x eq 1', '  or x eq 1'), good + ' \u00e9'):
            out.append((bad, o, 'long-text'))
        for pad in (' ' * 300, '\n' * 300, ' \n\t\r ' * 100, '\u00a0' * 10, '\u2003' * 10, '\u0085'):
            out.append((pad + good + pad, o, 'long-text'))
            out.append((pad + good + ' garbage' + pad, o, 'long-text'))
        out.append((good, o, 'long-text'))
    for k in (255, 256, 257, 1023, 1024, 4095, 4096):
        s = 'a' * k
        out.append(('x eq "%s" or x eq 1' % s, o, 'long-text'))
        out.append(('x eq "%s\u00e9" or x eq 1 trailing' % s[:-1], o, 'long-text'))
        out.append(('x eq "%s" or x eq 1 \x00' % s, o, 'long-text'))
    return out

def long_strings(ctx):
    """string attributes / literals of 15..1025 bytes differing at the first, a middle (32nd, 64th ...) or the last position, in case only, or not at all"""
    out = []
    ops = ['eq', 'ne', 'lt', 'gt', 'le', 'ge', 'co', 'sw', 'ew']
    for n in _sizes(ctx, [15, 16, 17, 31, 32, 33, 63, 64, 65, 127, 129, 255, 257], [1025, 4097]):
        base = ''.join('abcdefghij'[i % 10] for i in range(n))
        variants = {'same': base, 'upper': base.upper(), 'last': base[:-1] + 'z', 'first': 'z' + base[1:], 'mid': base[:n // 2] + 'Z' + base[n // 2 + 1:],
                    'p32': base[:31] + 'Q' + base[32:] if n > 32 else base, 'p64': base[:63] + 'Q' + base[64:] if n > 64 else base,
                    'shorter': base[:-1], 'longer': base + 'a', 'casemid': base[:n // 2] + base[n // 2].upper() + base[n // 2 + 1:],
                    'kelvin': base[:n // 2] + 'K' + base[n // 2 + 1:], 'k': base[:n // 2] + 'k' + base[n // 2 + 1:],
                    'inner': 'xx' + base + 'yy', 'tail': base[n // 2:], 'head': base[:n // 2]}
        for name, a in variants.items():
            for op in (ops if name in ('same', 'upper', 'last', 'mid', 'kelvin', 'inner', 'tail', 'head') or not ctx.quick else ['eq', 'lt', 'co']):
                out.append(('x %s "%s"' % (op, base), obj({'x': S(a)}), 'long-string'))
                if name in ('tail', 'head', 'inner', 'kelvin', 'upper'):
                    out.append(('x %s "%s"' % (op, a), obj({'x': S(base)}), 'long-string'))
        # multi-byte characters at and around the n-th byte: same lead byte, different continuation byte (e-acute / e-grave,
        # hiragana a / small i / i), also against their capitals
        for pos in (n - 2, n - 1, n):
            for c1, c2 in (('\u00e9', '\u00e8'), ('\u00c9', '\u00e8'), ('\u3042', '\u3043'), ('\u3042', '\u3044'), ('\U0001f600', '\U0001f601'), ('\u00e9', '\u00c9')):
                s1, s2 = 'a' * pos + c1 + 'tail', 'a' * pos + c2 + 'tail'
                for op in (ops if not ctx.quick else ['eq', 'ne', 'lt', 'gt', 'le', 'ge', 'ew']):
                    out.append(('x %s "%s"' % (op, s1), obj({'x': S(s2)}), 'long-string'))
                out.append(('x %s "%s"' % ('gt', s2 + 'a'), obj({'x': S(s1 + 'z')}), 'long-string'))
        out.append(('x in ["%s", "%s"]' % (variants['last'], base.upper()), obj({'x': S(base)}), 'long-string'))
        out.append(('x eq "%s"' % base, obj({'x': ('str', base.upper().encode())}), 'long-string'))
    return out

def big_versions(ctx):
    """versions with many-digit components, long pre-release chains and long build metadata"""
    out = []
    ops = ['eq', 'ne', 'lt', 'gt', 'le', 'ge']
    nums = ['0', '9', '10', '4294967295', '4294967296', '9223372036854775807', '9223372036854775808', '18446744073709551615']
    for a in nums:
        for b in nums:
            for op in (ops if not ctx.quick else ['eq', 'lt', 'ge']):
                out.append(('x %s 1.%s.0' % (op, b), obj({'x': S('1.%s.0' % a)}), 'big-version'))
                out.append(('x %s %s.0.0' % (op, b), obj({'x': S('%s.0.0-rc.1' % a)}), 'big-version'))
    for k in _sizes(ctx, [1, 2, 7, 8, 9, 16, 17, 33], [200]):
        pre = '.'.join(str(i) for i in range(k))
        pre2 = '.'.join(str(i) for i in range(k - 1)) + ('.' if k > 1 else '') + str(k)          # differs in the last identifier
        pre3 = '.'.join(str(i) for i in range(k)) + '.0'                                         # one identifier more
        alpha = '.'.join('a%d' % i for i in range(k))
        for attr in ['1.0.0-' + pre, '1.0.0-' + pre2, '1.0.0-' + pre3, '1.0.0-' + alpha, '1.0.0', '1.0.0-' + pre + '+' + 'b' * (k * 8), '1.0.0+' + '.'.join('m%d' % i for i in range(k)),
                     '1.0.0-' + '9' * (k + 1), '1.0.0-' + 'a' * (k * 8)]:
            for op in ops:
                out.append(('x %s 1.0.0' % op, obj({'x': S(attr)}), 'big-version'))
            out.append(('x eq 1.0.1 or x gt 1.0.0 or x lt 1.0.0', obj({'x': S(attr)}), 'big-version'))
    return out

def long_tokens(ctx):
    """texts whose single tokens are long: names, integers, decimals, versions, strings, blanks"""
    out = []
    for n in _sizes(ctx, [15, 16, 17, 31, 32, 33, 63, 64, 65, 255, 256, 257, 1023, 1025], [4097, 70000]):
        name = ('a-b_c:d9' * (n // 8 + 1))[:n]
        # numbers are evaluated exactly by the model (bignum decimal conversion is quadratic): number tokens stay <= 1100 digits
        digits = ('1234567890' * (n // 10 + 1))[:min(n, 1100)]
        out += ['%s eq 1' % name, '%s.%s pr' % (name, name), 'x eq %s' % digits, 'x eq -%s' % digits, 'x eq %s.5' % digits, 'x eq 0.%s' % digits, 'x eq 1.%se+5' % digits,
                'x eq %s.1.2' % digits, 'x eq 1.2.%s' % digits, 'x eq "%s"' % name, 'x eq "%s' % name, 'x in [%s]' % ', '.join(['1'] * n), 'x in [%s]' % ','.join(['"a"'] * n),
                'x eq 1 %sand y eq 2' % ('\n' * n), 'x in [1,%s2]' % (' ' * n), 'x eq 0%s' % digits, 'x eq %s.' % digits, '%s' % name, '%s.' % name, '.%s pr' % name,
                'x eq 1.0e%s' % digits[:min(n, 400)], 'x%seq 1' % (' ' * min(n, 40)), '%s x eq 1' % ('(' * min(n, 2000)), 'x eq 1 %s' % (')' * min(n, 2000))]   # ANTLR's error recovery is quadratic in the number of unclosed parentheses
    return out

def string_pairs(ctx):
    """(literal, attribute) pairs of long strings for six-operator vectors: equal, differing far inside, differing in a
    continuation byte of a multi-byte character at and around the 16th ... 256th byte"""
    out = []
    for n in _sizes(ctx, [16, 32, 64, 65, 128, 256], [1024]):
        base = ''.join('abcdefghij'[i % 10] for i in range(n))
        out += [(base, base), (base, base.upper()), (base, base[:-1] + 'z'), (base[:-1] + 'z', base), (base, base[:n // 2] + 'Z' + base[n // 2 + 1:]),
                (base, base + 'a'), (base + 'a', base), (base, 'z' + base[1:])]
        for pos in (n - 2, n - 1, n):
            for c1, c2 in (('é', 'è'), ('É', 'è'), ('あ', 'ぃ'), ('あ', 'い'), ('é', 'É'), ('éz', 'êa')):
                out.append(('a' * pos + c1 + 'tail', 'a' * pos + c2 + 'tail'))
                out.append(('a' * pos + c2 + 'tail', 'a' * pos + c1 + 'tail'))
    return out

def aligned_lines(ctx):
    """multi-line rules (a blank may be followed by newlines) whose literals / names start in the same column of different lines"""
    out = []
    lits = [('10', I(10)), ('20', I(20)), ('1.5', F(1.5)), ('2.5', F(2.5)), ('"s"', S('s')), ('"t"', S('t')), ('[1, 2]', I(1)), ('[3, 4]', I(3)), ('["a"]', S('a')),
            ('["b"]', S('b')), ('[1.5]', F(1.5)), ('1.0.0', S('1.0.0')), ('2.0.0', S('2.0.0')), ('true', ('b', True)), ('null', ('nil',))]
    for (l1, v1) in lits:
        for (l2, v2) in lits:
            if l1 == l2:
                continue
            op1 = 'in' if l1.startswith('[') else 'eq'
            op2 = 'in' if l2.startswith('[') else 'eq'
            pad1 = 'alpha' if op1 == op2 else ('alphaa' if op1 == 'eq' and False else 'alpha')
            # line 2 is "and b <op2> " : its literal starts in column 4 + 2 + len(op2) + 1; line 1 is "<name> <op1> "
            col = 4 + 2 + len(op2) + 1
            name1 = ('alphabetical' * 2)[:col - len(op1) - 2]
            for conn, n2 in (('and', 'b'), ('or', 'bb')):
                text = '%s %s %s \n%s %s %s %s' % (name1, op1, l1, conn, n2, op2, l2)
                comps = ['%s %s %s' % (name1, op1, l1), '%s %s %s' % (n2, op2, l2)]
                fn = (lambda a, b: a and b) if conn == 'and' else (lambda a, b: a or b)
                for o in (obj({name1: v1, n2: v2}), obj({name1: v1, n2: v1}), obj({name1: v2, n2: v2}), obj({})):
                    out.append((text, o, 'aligned-lines', (comps, fn)))
    # three and more lines, same column for names too
    out.append(('a eq 1 \nor b eq 2 \nor c eq 3', obj({'c': I(3)}), 'aligned-lines', None))
    out.append(('a eq 1 \n\nor b eq 2 \n\n\nor c eq 3', obj({'b': I(2)}), 'aligned-lines', None))
    out.append(('aa eq 1 \nor b eq 1 \nor c eq 1', obj({'aa': I(2), 'b': I(2), 'c': I(1)}), 'aligned-lines', None))
    return out

def shared_suffixes(ctx):
    """paths that end in the same steps under different roots, and a root key named like an inner step"""
    out = []
    o1 = obj({'old': {'user': {'admin': ('b', True), 'quota': I(1), 'name': S('a')}}, 'new': {'user': {'admin': ('b', False), 'name': S('b')}}})
    o2 = obj({'admin': ('b', True), 'quota': I(1), 'b': I(1), 'x': {'b': I(2)}, 'a': I(3), 'user': ('nil',)})
    o3 = obj({'old': {'user': {'admin': ('b', True)}}, 'user': {'admin': ('b', False)}, 'admin': ('b', True)})
    forms = [('{0} and {1}', ['old.user.admin eq true', 'new.user.admin eq false']), ('{0} and {1}', ['old.user.quota pr', 'new.user.quota pr']),
             ('{0} and {1}', ['old.user.admin pr', 'user.admin pr']), ('{0} or {1}', ['new.user.quota pr', 'old.user.quota pr']),
             ('{0} and {1}', ['old.user.name eq "a"', 'new.user.name eq "a"']), ('{1} and {0}', ['old.user.name eq "a"', 'new.user.name eq "b"']),
             ('{0} and {1} and {2}', ['old.user.admin eq true', 'user.admin eq false', 'admin eq true']),
             ('{0}', ['user.admin pr']), ('{0}', ['user.admin eq null']), ('{0}', ['user.admin eq true']), ('{0}', ['missing.admin pr']), ('{0}', ['missing.quota eq 1']),
             ('{0}', ['x.a eq 3']), ('{0}', ['x.a pr']), ('{0}', ['x.zz.b eq 2']), ('{0}', ['x.zz.b pr']), ('{0}', ['zz.b eq 1']), ('{0}', ['zz.x.b eq 2']), ('{0}', ['user.b eq 1']),
             ('{0} or {1}', ['missing.admin eq true', 'x.zz.b eq 2'])]
    AND = lambda *a: all(a)
    for fmt, comps in forms:
        fn = (lambda *a: any(a)) if ' or ' in fmt else AND
        for o in (o1, o2, o3):
            out.append((fmt.format(*comps), o, 'shared-suffix', (comps, fn) if len(comps) > 1 else None))
    return out

def odd_keys(ctx):
    """keys that look like paths, differ in case only, or carry blanks; objects where only case-variants of the asked key exist"""
    out = []
    odd = obj({'a.b': I(1), 'a': {'b': I(2), 'B': I(3), 'b.c': I(4), 'b ': I(5), '': I(6)}, 'A': {'b': I(7)}, 'a.b.c': I(8), 'a b': I(9), '': {'': I(10)}, 'x': {'y.z': I(11), 'y': {'z': I(12)}},
               'a-b': I(13), 'a_b': I(14), 'a:b': I(15), 'a-b.c': I(16), 'n1': {'2': I(17)}, 'Ab': I(18), 'aB': I(19), 'AB': {'c': I(20)}, 'abc ': I(21)})
    for t in ['a.b eq 1', 'a.b eq 2', 'A.b eq 7', 'a.B eq 3', 'A.B eq 3', 'a.b.c eq 8', 'a.b.c eq 4', 'a.b.c pr', 'x.y.z eq 11', 'x.y.z eq 12', 'a-b eq 13', 'a_b eq 14', 'a:b eq 15',
              'a-b.c eq 16', 'a-b.c pr', 'a.b pr and A.b pr', 'a.b eq 2 and x.y.z eq 12', 'a.b eq 1 or a.b.c eq 8', 'n1.2 pr', 'a.b ne 1', 'A.b ne 2', 'a.b in [1]', 'a.b in [2]',
              'ab eq 18', 'ab eq 19', 'ab pr', 'ab.c eq 20', 'AB.c eq 20', 'abc eq 21', 'A.B eq 7', 'a.B eq 2', 'A.b eq 2']:
        out.append((t, odd, 'odd-keys'))
    # only case-variants of the key exist, with different values: whatever is picked, it is not what the rule names
    cv = obj({'Level': I(3), 'LEVEL': I(8), 'Name': S('alice'), 'NAME': S('bob'), 'user': {'ID': I(1), 'Id': I(2)}, 'Flag': ('b', True), 'FLAG': ('b', False), 'V': S('1.0.0'), 'v ': S('2.0.0')})
    for t in ['level lt 5', 'level gt 5', 'level eq 3', 'level eq 8', 'level pr', 'level eq null', 'name eq "alice"', 'name eq "bob"', 'name co "o"', 'user.id in [1, 3]', 'user.id eq 2',
              'user.iD pr', 'flag eq true', 'flag eq false', 'flag ne true', 'v eq 1.0.0', 'v gt 1.0.0', 'level lt 5 or level gt 5', 'not (level pr)', 'name in ["alice", "bob"]']:
        for _ in range(6):          # repeated: a choice that follows map iteration order shows as a changing outcome
            out.append((t, cv, 'case-variant-keys'))
    return out

def nonascii_prefix(ctx):
    """a non-ASCII character early in the rule (inside a string literal), then comparisons whose names / texts matter;
    4th element: (the comparisons, the Boolean combination the rule text denotes)"""
    out = []
    o = obj({'name': S('Ann'), 'tier': I(2), 'age': I(30), 'x': I(1), 'y': I(2), 'region': S('eu')})
    o2 = obj({'name': S('Zoë'), 'tier': I(1), 'age': I(30), 'x': I(1), 'y': I(2), 'region': S('us')})
    T = [('{0} or {1} or {2}', ['name eq "%s"', 'tier eq 1', 'tier eq 2'], lambda a, b, c: a or b or c),
         ('{0} or {1} or {2}', ['name eq "%s"', 'tier eq 2', 'tier eq 1'], lambda a, b, c: a or b or c),
         ('{0} and {1}', ['name eq "%s"', 'age gt 18'], lambda a, b: a and b), ('{1} and {0}', ['name eq "%s"', 'age gt 18'], lambda a, b: a and b),
         ('{0} and {1} and {2}', ['name ne "%s"', 'x eq 1', 'y eq 2'], lambda a, b, c: a and b and c),
         ('{0} or {1} or {2}', ['name eq "%s"', 'x eq 2', 'y eq 2'], lambda a, b, c: a or b or c),
         ('({0}) and ({1})', ['name eq "%s"', 'age gt 18'], lambda a, b: a and b), ('{0} or not ({1})', ['name eq "%s"', 'age lt 18'], lambda a, b: a or not b),
         ('{0} or {1} or {2}', ['name co "%s"', 'region eq "eu"', 'region eq "us"'], lambda a, b, c: a or b or c),
         ('{0} and {1}', ['name in ["%s", "Ann"]', 'tier in [2, 3]'], lambda a, b: a and b), ('{0} or {1}', ['name eq "%s"', 'age pr'], lambda a, b: a or b),
         ('{0} or {1} or {2}', ['name eq "%s"', 'zz pr', 'age pr'], lambda a, b, c: a or b or c), ('not ({0}) and {1}', ['name eq "%s"', 'tier eq 2'], lambda a, b: (not a) and b),
         ('{0} or {1} or {2}', ['name eq "%s"', 'tier.sub eq 1', 'tier eq 2'], None)]
    for lit in ['Zoë', 'é', '日本', '\U0001f600', 'aébécédé', 'Kİẞ', 'zoe']:
        for fmt, comps, fn in T:
            comps = [c % lit if '%s' in c else c for c in comps]
            for ob in (o, o2):
                out.append((fmt.format(*comps), ob, 'nonascii-prefix', (comps, fn) if fn else None))
    return out

def nil_object(ctx):
    """the object itself is a nil map / an empty map"""
    out = []
    T = [('{0}', ['x eq 1'], lambda a: a), ('not ({0})', ['x eq 1'], lambda a: not a), ('NOT ({0})', ['v pr'], lambda a: not a),
         ('{0} or not ({1} and {2})', ['a pr', 'b pr', 'c pr'], lambda a, b, c: a or not (b and c)), ('{0}', ['x eq null'], lambda a: a), ('{0}', ['x ne null'], lambda a: a), ('{0}', ['x pr'], lambda a: a),
         ('not ({0}) and not ({1})', ['x pr', 'y.z pr'], lambda a, b: (not a) and (not b)), ('{0}', ['x.y eq 1'], lambda a: a), ('not ({0})', ['x.y eq 1'], lambda a: not a),
         ('{0}', ['x gt null'], None), ('not ({0})', ['x gt null'], None), ('{0}', ['x in [1]'], lambda a: a), ('not ({0})', ['x in [1]'], lambda a: not a),
         ('{0} or not ({1})', ['x eq true', 'x eq false'], lambda a, b: a or not b)]
    for ob in (('nilmap',), obj({})):
        for fmt, comps, fn in T:
            out.append((fmt.format(*comps), ob, 'nil-object', (comps, fn) if fn else None))
    return out

def sequences(ctx):
    """rule / object sequences meant to run in ONE process in this order: cross-rule caches (texts that differ in case only),
    state left behind by a failing literal, many calls in a row"""
    seqs = []
    ob = obj({'name': S('bob'), 'Name': S('al'), 'x': I(1), 'y': I(2), 'X': I(5), 'tier': I(1), 'region': S('us'), 'Tier': I(9), 'Region': S('eu')})
    twins = [['name eq "bob"', 'Name eq "bob"', 'NAME eq "bob"', 'name eq "bob"', 'Name eq "al"'], ['x eq 1 and y eq 2', 'x eq 1 AND y eq 2', 'X eq 1 and y eq 2', 'x eq 1 and y eq 2', 'X eq 5 and y eq 2'],
             ['x eq true', 'x eq TRUE', 'x eq True'], ['x pr', 'x PR', 'X pr', 'x Pr'], ['tier eq 1 or region eq "eu"', 'Tier eq 1 or Region eq "eu"', 'TIER eq 1 or REGION eq "eu"'],
             ['x eq null', 'x eq NULL', 'X eq null'], ['not (x eq 2)', 'NOT (x eq 2)', 'Not (x eq 2)', 'NOT (X eq 2)'], ['x in [1]', 'x IN [1]', 'X in [1]', 'x In [1]']]
    twins += [['tier eq 1 or plan gt null', 'Tier eq 1 or plan gt null', 'TIER eq 1 or plan gt null', 'tier eq 1 or plan gt null'], ['Tier eq 1 or plan gt null', 'tier eq 1 or plan gt null'],
              ['x co 1 or y eq 2', 'X co 1 or y eq 2', 'x CO 1 or y eq 2'], ['name eq "bob" and region gt true', 'Name eq "bob" and region gt true', 'name eq "bob" and Region gt true']]
    for tw in twins:
        seqs.append([(t, ob) for t in tw])
        seqs.append([(t, ob) for t in reversed(tw)])
    o1, o5 = obj({'x': I(1), 's': S('a'), 'k': I(1)}), obj({'x': I(5), 's': S('c'), 'y': I(5)})
    stale = ['x in [1, 99999999999999999999]', 'x in [2, 3]', 'y in [5, 99999999999999999999]', 'not (x in [2, 3])', 'x in [1.5, 1.0e999]', 'x in [2.5]', 'x in [1, 99999999999999999999]',
             's in ["a", "b"]', 'k eq 99999999999999999999', 'x in [2]', 'x in [5, 99999999999999999999] or x in [2, 3]', 'x in [2, 3]', 's in ["c", "d"]', 'y in [5, 99999999999999999999]', 'x in [2, 3] or s in ["q"]',
             'x gt null', 'x in [2, 3]', 'x co 1', 'not (x in [2, 3])']
    for ob_ in (o1, o5):
        seqs.append([(t, ob_) for t in stale])
    seqs.append([(t, o5 if i % 2 else o1) for i, t in enumerate(stale + list(reversed(stale)))])
    seqs.append(many_rules_sequence(ctx))
    # rules that differ only inside a literal by something a normalising cache key might fold
    lit_pairs = [('name eq "John \nSmith"', 'name eq "John Smith"'), ('name eq "a  b"', 'name eq "a b"'), ('name eq "A"', 'name eq "a"'), ('name eq "a\tb"', 'name eq "a b"'),
                 ('name in ["x", "y \n"]', 'name in ["x", "y "]'), ('name eq " a"', 'name eq "a"'), ('name co "(a)"', 'name co "a"'), ('name eq "a and b"', 'name eq "a AND b"')]
    for val in ('John Smith', 'John \nSmith', 'a b', 'a  b', 'a', 'A', ' a', 'a\tb', 'y ', 'y \n', '(a)', 'a and b', 'a AND b'):
        ob_ = obj({'name': S(val)})
        fw, bw = [], []
        for (r1, r2) in lit_pairs:
            fw += [(r1, ob_), (r2, ob_), (r1, ob_)]
            bw += [(r2, ob_), (r1, ob_), (r2, ob_)]
        seqs.append(fw)
        seqs.append(bw)
    return seqs


def many_rules_sequence(ctx):
    """more distinct rule texts than any plausible cache holds, then the early ones again (first seen with blanks around them)"""
    n = 1300 if ctx.quick else 6000
    o = obj({'x': I(7), 'k5': I(5), 'k6': I(0), 'a': {'b': {'c': I(1)}}})
    first = [(' x gt 5 ', o), ('x gt 5\n', o), ('  x.a.b eq 1', o), ('a.b.c eq 1 ', o), ('\tk5 eq 5', o), ('k6 eq 6', o), ('x lt 5', o), ('(x gt 5)', o)]
    mid = [('k%d eq %d or x eq %d' % (i, i, i), o) for i in range(n)]
    again = [('x gt 5', o), (' x gt 5 ', o), ('x gt 5 ', o), ('x.a.b eq 1', o), ('a.b.c eq 1', o), ('k5 eq 5', o), ('k6 eq 6', o), ('x lt 5', o), ('k5 eq 5 or x eq 5', o), ('k7 eq 7 or x eq 7', o), ('(x gt 5)', o)]
    return first + mid + again

def separator_strings(ctx):
    """attribute = two list elements glued by something a join-based implementation might use"""
    out = []
    for sep in ['\x00', ',', '|', ' ', '\n', '","', '\x1f', ';', '\t', ', ']:
        for (e1, e2) in [('abc', 'cde'), ('a', 'b'), ('', 'x'), ('red', 'green')]:
            for a in [e1 + sep + e2, sep + e1, e1 + sep, e2 + sep + e1, e1[-1:] + sep + e2[:1] if e1 and e2 else sep]:
                if '"' in a or '\\' in a:
                    continue
                out.append(('x in ["%s", "%s", "fgh"]' % (e1, e2), obj({'x': S(a)}), 'separator-injection'))
                if '"' not in sep and sep != '\n':
                    out.append(('x in ["%s", "zz"]' % (e1 + sep + e2), obj({'x': S(e1)}), 'separator-injection'))
    return out

def escaped_list_elements(ctx):
    """backslash escapes in list elements and in scalar literals must mean the same thing"""
    out = []
    raw = ['say \\"hi\\"', 'a\\\\b', 'a\\nb', '\\u00e9', 'tab\\t', 'C:\\\\', '\\"', 'x\\/y']
    for r in raw:
        lit = '"%s"' % r
        for a in [r, r.replace('\\"', '"').replace('\\\\', '\\'), r.replace('\\n', '\n').replace('\\t', '\t').replace('\\u00e9', '\u00e9'), 'other']:
            o = obj({'x': S(a)})
            out.append(('x in [%s]' % lit, o, 'escaped-elements'))
            out.append(('x eq %s' % lit, o, 'escaped-elements'))
            out.append(('x in [%s, "zz"] or x eq %s' % (lit, lit), o, 'escaped-elements'))
            out.append(('x in ["zz", %s]' % lit, o, 'escaped-elements'))
    return out

def guard_patterns(ctx):
    """a presence / null / type guard in front of a comparison on the same path: short circuit decides what is reached"""
    out = []
    guards = ['x pr', 'x ne null', 'not (x eq null)', 'x eq null', 'not (x pr)', 'x eq 1', 'x eq "s"']
    cmps = ['x gt true', 'x co 1', 'x in 1.0.0', 'x sw 1.5', 'x gt null', 'x eq 1', 'x lt 5', 'x co "s"', 'x in [1]', 'x ew 1']
    objs = [obj({}), obj({'x': I(1)}), obj({'x': S('s')}), obj({'x': ('nil',)}), obj({'x': ('b', True)}), obj({'x': I(9), 'other': I(1)})]
    for g in guards:
        for c in cmps:
            for fmt in ['%s and %s', '%s or %s', '(%s and %s) or other eq 1', 'not (%s) or %s', '%s and (%s)', 'other eq 1 or (%s and %s)']:
                for o in objs:
                    out.append((fmt % (g, c), o, 'guard-pattern'))
    return out

def printing_alike(ctx):
    """lists / literals that print alike in one rule: a memo keyed by a printed form confuses them"""
    out = []
    pairs = [('["red green"]', '["red", "green"]'), ('[1, 2]', '["1", "2"]'), ('[1, 2]', '[1.0, 2.0]'), ('["1 2"]', '[1, 2]'), ('["a", "b c"]', '["a b", "c"]'), ('[1]', '["1"]'), ('[12]', '[1, 2]'),
             ('["[1 2]"]', '[1, 2]'), ('[""]', '[" "]'), ('["a,b"]', '["a", "b"]')]
    for (l1, l2) in pairs:
        for a in [S('red'), S('green'), S('red green'), I(1), I(2), F(1.0), S('1'), S('1 2'), S('a'), S('b c'), S(''), S(' '), I(12), S('a,b')]:
            o = obj({'tag': a})
            for fmt in ['tag in %s or tag in %s', 'tag in %s or tag in %s or tag in %s', 'tag in %s and tag in %s', 'not (tag in %s) and tag in %s']:
                args = (l1, l2) if fmt.count('%s') == 2 else (l1, l2, l1)
                out.append((fmt % args, o, 'printing-alike'))
                out.append((fmt % tuple(reversed(args)), o, 'printing-alike'))
    return out

# ----------------------------------------------------------------------------
# batch 12: what is remembered between neighbouring comparisons, what is scanned outside the lexer
# ----------------------------------------------------------------------------
def _obj_from_paths(pv):
    root = {}
    for p, v in pv.items():
        d = root
        segs = p.split('.')
        for s_ in segs[:-1]:
            d = d.setdefault(s_, {})
        d[segs[-1]] = v
    return obj(root)

REUSE_PATHS = ['a.b', 'a.c', 'ab.b', 'ab.y', 'a.x', 'user.addr.city', 'user.address.zip', 'user.addr.zip', 'k1.v', 'k10.v', 'c', 'x', 'n.b', 'n.a.b', 'a.bb', 'user.addr.c.d']

def _reuse_leaves(ctx):
    """leaves over REUSE_PATHS on an object that gives every path its own integer: (text, path, truth on the full object)"""
    leaves = []
    for i, p in enumerate(REUSE_PATHS):
        v = 3 + i
        leaves += [('%s eq %d' % (p, v), p), ('%s gt %d' % (p, v), p), ('%s pr' % p, p), ('%s lt 1000' % p, p), ('%s in [%d]' % (p, v), p), ('%s ne %d' % (p, v + 1), p), ('not (%s pr)' % p, p)]
    return leaves

def path_reuse(ctx):
    """comparisons on the same path with another leaf in between, paths whose text (not segments) is a prefix of the next:
    a remembered operand / parent object must not leak from one leaf to the next.  (text, obj, fam, (component texts, fn))"""
    out = []
    full = {p: I(3 + i) for i, p in enumerate(REUSE_PATHS)}
    objs = [_obj_from_paths(full),
            _obj_from_paths({p: v for p, v in full.items() if not p.startswith('ab.') and not p.startswith('user.address')}),
            _obj_from_paths({p: (I(100) if p in ('c', 'n.b', 'ab.b') else v) for p, v in full.items()})]
    leaves = _reuse_leaves(ctx)
    AND, OR = (lambda a, b: a and b), (lambda a, b: a or b)
    conn = {'and': AND, 'or': OR}
    rng = ctx.rng
    # every ordered pair of leaves
    pairs = [(l1, l2) for l1 in leaves for l2 in leaves if l1[1] != l2[1]]
    for (l1, l2) in (pairs if not ctx.quick else rng.sample(pairs, 2500)):
        c1 = rng.choice(['and', 'or'])
        o = rng.choice(objs)
        out.append(('%s %s %s' % (l1[0], c1, l2[0]), o, 'path-reuse', ([l1[0], l2[0]], conn[c1])))
    # A, B, A' : the same path again after another leaf
    for _ in range(ctx.n(2500, 40000)):
        l1 = rng.choice(leaves)
        l3 = rng.choice([l for l in leaves if l[1] == l1[1]])
        l2 = rng.choice([l for l in leaves if l[1] != l1[1]])
        c1, c2 = rng.choice(['and', 'or']), rng.choice(['and', 'or'])
        o = rng.choice(objs)
        form = rng.randrange(4)
        if form == 0:
            t, fn = '%s %s %s %s %s' % (l1[0], c1, l2[0], c2, l3[0]), (lambda a, b, c, c1=c1, c2=c2: conn[c2](conn[c1](a, b), c))
        elif form == 1:
            t, fn = '%s %s (%s %s %s)' % (l1[0], c1, l2[0], c2, l3[0]), (lambda a, b, c, c1=c1, c2=c2: conn[c1](a, conn[c2](b, c)))
        elif form == 2:
            t, fn = '(%s) %s not (%s) %s (%s)' % (l1[0], c1, l2[0], c2, l3[0]), (lambda a, b, c, c1=c1, c2=c2: conn[c2](conn[c1](a, not b), c))
        else:
            t, fn = 'not (%s %s %s) %s %s' % (l1[0], c1, l2[0], c2, l3[0]), (lambda a, b, c, c1=c1, c2=c2: conn[c2](not conn[c1](a, b), c))
        out.append((t, o, 'path-reuse', ([l1[0], l2[0], l3[0]], fn)))
    # the documented range idiom with a presence test in the middle, on every nested path
    for p in REUSE_PATHS:
        v = full[p][1]
        for q in REUSE_PATHS + ['zz', 'zz.y']:
            if q == p:
                continue
            for o in objs:
                out.append(('%s gt %d and %s pr and %s lt %d' % (p, v - 1, q, p, v + 1), o, 'path-reuse',
                            (['%s gt %d' % (p, v - 1), '%s pr' % q, '%s lt %d' % (p, v + 1)], lambda a, b, c: a and b and c)))
    return out

ESC_LITS = ['"C:\\\\"', '"a\\""', '"\\\\\\\\"', '"x\\\\\\""', '"\\\\"', '"(\\\\"', '")"', '"(("', '"a) and (b"', '"\\\\" ', '"c:\\\\dir\\\\"', '"\\")"', '"[\\\\]"']
ESC_VALUES = ['C:\\', 'C:\\\\', 'a"', 'a\\"', '\\\\', '\\', 'x\\"', '(\\', ')', '((', 'a) and (b', 'c:\\dir\\', 'c:\\\\dir\\\\', '")', '\\")', '[\\]', 'bob']

def escape_tails(ctx):
    """literals that end in an escaped backslash / quote, or hold parentheses, next to real parentheses: only the lexer knows where a
    literal ends.  (text, obj, fam, (component texts, fn))"""
    out = []
    forms = [('(dir eq %s) and (user eq "bob")', 2, lambda a, b: a and b), ('n eq 2 or (dir sw %s)', 2, lambda a, b: a or b), ('not (dir eq %s) or (n eq 2)', 2, lambda a, b: (not a) or b),
             ('(dir eq %s and n eq 2)', 2, lambda a, b: a and b), ('dir eq %s and (n eq 2)', 2, lambda a, b: a and b), ('dir in [%s, "z"] and (n eq 2)', 2, lambda a, b: a and b),
             ('(dir eq %s)', 1, lambda a: a), ('((dir ew %s) or (user eq "bob")) and (n eq 2)', 3, lambda a, b, c: (a or b) and c), ('(dir eq %s or dir eq "q") and not (n eq 3)', 3, lambda a, b, c: (a or b) and not c)]
    comps_of = {0: lambda L: ['dir eq %s' % L, 'user eq "bob"'], 1: lambda L: ['n eq 2', 'dir sw %s' % L], 2: lambda L: ['dir eq %s' % L, 'n eq 2'], 3: lambda L: ['dir eq %s' % L, 'n eq 2'],
                4: lambda L: ['dir eq %s' % L, 'n eq 2'], 5: lambda L: ['dir in [%s, "z"]' % L, 'n eq 2'], 6: lambda L: ['dir eq %s' % L], 7: lambda L: ['dir ew %s' % L, 'user eq "bob"', 'n eq 2'],
                8: lambda L: ['dir eq %s' % L, 'dir eq "q"', 'n eq 3']}
    fns = {1: lambda a, b: b or a}
    for L in ESC_LITS:
        L = L.strip()
        for fi, (fmt, k, fn) in enumerate(forms):
            comps = comps_of[fi](L)
            if fi == 1:
                fn = lambda a, b: a or b
            for v in (ESC_VALUES if not ctx.quick else ctx.rng.sample(ESC_VALUES, 6)):
                for n in (2, 3):
                    o = obj({'dir': S(v), 'user': S('bob' if n == 2 else 'eve'), 'n': I(n)})
                    out.append((fmt % L, o, 'escape-tail', (comps, fn)))
    # two such literals in one rule
    for L1 in ESC_LITS[:6]:
        for L2 in ESC_LITS[:8]:
            for v in ESC_VALUES[:8]:
                o = obj({'dir': S(v), 'user': S(v), 'n': I(2)})
                out.append(('(dir eq %s) or (user eq %s)' % (L1.strip(), L2.strip()), o, 'escape-tail', (['dir eq %s' % L1.strip(), 'user eq %s' % L2.strip()], lambda a, b: a or b)))
    return out

def keyword_keys(ctx):
    """rules whose attribute name is spelled like a reserved word, on objects that HAVE that key: every entry point must agree"""
    from .gen import KEYWORDS
    out = []
    for k in KEYWORDS:
        objs = [obj({k: I(1), 'a': {k: I(1)}}), obj({k: {'a': I(1)}, 'a': I(1)}), obj({k: S('s'), k + 'x': I(1)}), obj({k: I(21)}), obj({k: I(0)}), obj({k: ('b', True), 'flags': {k: ('b', True)}}),
                obj({k.lower(): I(7), k.upper(): ('b', False)})]
        for t in ['%s eq 1' % k, '%s ge 18' % k, '%s pr' % k, '%s eq "s"' % k, '%s.a eq 1' % k, 'a.%s eq 1' % k, '%s == 1' % k, '%s in [1]' % k, '%s ne 2' % k, '%s lt 100' % k,
                  ' %s eq 1' % k, '%s eq 1 ' % k, '%s  eq 1' % k, '%sx eq 1' % k, '%s EQ 1' % k, '%s gt 0' % k, '%s le 21' % k, 'a eq 1 and %s eq 1' % k, '(%s eq 1)' % k, 'not (%s eq 1)' % k,
                  '%s eq null' % k, '%s ne null' % k, '%s eq true' % k, '%s ne false' % k, 'flags.%s eq true' % k, 'flags.%s pr' % k]:
            for o in objs:
                out.append((t, o, 'keyword-keys'))
    return out

OPERATOR_LITS = [' && ', ' || ', ' = ', ' <> ', 'a && b', 'a || b', 'PATH = /bin', 'x <> y', ' == ', ' != ', ' and ', ' or ', 'not (', ' pr', 'x eq 1', '//', '/*', '--', '#', ';', ' AND ', '\' or 1=1 --', '${x} = 1',
                 'a = b', 'if (a && b) { }', 'a||b', 'a&&b', '<>', ' <= ', ' >= ', ' < ', ' > ', ' in [1]', ' eq ', '" eq "']

def operator_literals(ctx):
    """operators of this and of other languages INSIDE string literals: nothing may scan the raw text for them"""
    out = []
    for lit in OPERATOR_LITS:
        L = '"%s"' % lit.replace('\\', '\\\\').replace('"', '\\"')
        for v in [lit, 'a' + lit + 'b', 'zz', lit.strip()]:
            o = obj({'x': S(v), 'y': I(1), 'q': S(lit)})
            for t in ['x co %s' % L, 'x eq %s' % L, 'x sw %s' % L, 'q in [%s, "zz"]' % L, 'q in ["x <> y",%s]' % L, 'x eq %s and y eq 1' % L, 'y eq 2 or x co %s' % L, '(x ew %s)' % L, 'not (x eq %s)' % L]:
                out.append((t, o, 'operator-in-literal'))
    return out

WS_PAIRS = [('a b', 'a  b'), ('a b', 'a\tb'), ('a b', 'a\u00a0b'), ('a b', 'a\nb'), (' a', 'a'), ('a ', 'a'), ('', ' '), ('a  b', 'a   b'), ('a\r\nb', 'a\nb'), ('a b c', 'a b  c'), ('\t', ' ')]

def law_operands(ctx):
    """(A, B, C, object) for the algebraic laws: sibling operands that differ only inside a literal, paths whose text is a prefix of
    the neighbour's, the same path on both sides of another leaf"""
    out = []
    for (l1, l2) in WS_PAIRS:
        q = lambda s_: '"%s"' % s_.replace('\\', '\\\\').replace('"', '\\"')
        for op in ('eq', 'co', 'sw', 'ne'):
            A, B = 'x %s %s' % (op, q(l1)), 'x %s %s' % (op, q(l2))
            for v in (l1, l2, 'zz'):
                o = obj({'x': S(v), 'k': I(1), 't': I(1)})
                for C in (A, B, 'k eq 1', 'zz pr'):
                    out.append((A, B, C, o, 'law-literal-siblings'))
                    out.append((B, A, C, o, 'law-literal-siblings'))
                    out.append((C, A, B, o, 'law-literal-siblings'))
        A, B = 'x in [%s]' % q(l1), 'x in [%s]' % q(l2)
        for v in (l1, l2):
            out.append((A, B, 'k eq 1', obj({'x': S(v), 'k': I(1)}), 'law-literal-siblings'))
    full = {p: I(3 + i) for i, p in enumerate(REUSE_PATHS)}
    o_full = _obj_from_paths(full)
    leaves = [l for l in _reuse_leaves(ctx) if ' gt ' not in l[0] or True]
    rng = ctx.rng
    for _ in range(ctx.n(700, 8000)):
        A, B, C = rng.choice(leaves)[0], rng.choice(leaves)[0], rng.choice(leaves)[0]
        out.append((A, B, C, o_full, 'law-path-neighbours'))
    for (p, q_) in [('user.addr.city', 'user.address.zip'), ('a.x', 'ab.y'), ('k1.v', 'k10.v'), ('a.b', 'a.bb'), ('a.b', 'ab.b'), ('n.b', 'n.a.b'), ('user.addr.zip', 'user.addr.c.d')]:
        for (f1, f2) in [('%s eq %d', '%s eq %d'), ('%s pr', '%s eq %d'), ('%s eq %d', '%s pr'), ('%s lt %d', '%s ne %d')]:
            mk = lambda f, pp, d=0: (f % (pp, full[pp][1] + d)) if '%d' in f else (f % pp)
            A, B = mk(f1, p, 1 if ' lt ' in f1 else 0), mk(f2, q_, 1 if ' ne ' in f2 else 0)
            for C in ('c eq 5000', 'x pr', A):
                out.append((A, B, C, o_full, 'law-path-neighbours'))
                out.append((B, A, C, o_full, 'law-path-neighbours'))
                out.append((C, A, B, o_full, 'law-path-neighbours'))
    return out

# ----------------------------------------------------------------------------
# batch 13
# ----------------------------------------------------------------------------
def error_counts(ctx):
    """a complete rule surrounded by exactly k unexpected characters, k over every residue of small moduli (error collectors that
    count, cap or wrap), with the recovered tree intact"""
    out = []
    ks = list(range(1, 70)) + [96, 127, 128, 129, 255, 256, 257, 512, 1024] + ([] if ctx.quick else [2048, 4096, 65536])
    for k in ks:
        for ch in '~?$':
            out.append('x eq 1' + ch * k)
            out.append('x eq 1 ' + ch * k + 'and y eq 2')
            out.append('(' + ch * k + 'x eq 1)')
        out.append('x eq 1 ' + ') ' * k)
        out.append('x eq 1' + ' y' * k)
        out.append('x eq 1 and ' * k)
    return out

MAGIC_NAMES = ['length', 'len', 'size', 'count', 'keys', 'values', 'type', 'class', 'first', 'last', '0', '1', '-1', '_', '__proto__', 'constructor', 'toString', 'self', 'this', 'parent', 'root',
               'id', 'name', 'value', 'key', 'index', 'empty', 'exists', 'present', 'isNull', 'not_null', 'any', 'all', 'some', 'none', 'Length', 'LENGTH', 'cap', 'String', 'Error', 'error', 'nil', 'NaN', 'Vals', 'Msg', 'Err']

def magic_names(ctx):
    """path steps that other systems treat as built-ins (length, size, keys, first, ...): here they are ordinary keys"""
    out = []
    for nm in MAGIC_NAMES:
        objs = [obj({'body': {'a': I(1), 'b': I(2)}, 'k': I(1)}), obj({'body': S('text')}), obj({'body': ('o', 1)}), obj({'body': ('o', 33)}), obj({'body': {nm: I(2)}}), obj({}), obj({'body': ('nil',)}),
                obj({'body': ('o', 44)}), obj({nm: I(2), 'body': {'x': {}}})]
        for t in ['body.%s pr', 'body.%s eq null', 'body.%s ne null', 'body.%s eq 2', 'body.%s gt 1', '%s pr', '%s.x pr', 'body.%s.x pr', 'body.x.%s eq 0', 'not (body.%s pr)', 'body.%s eq true', 'body.%s in [2, 4]',
                  'k eq 1 and body.%s eq null']:
            for o in objs:
                out.append((t % nm, o, 'magic-names'))
    return out

def list_parents(ctx):
    """a path that continues below a list (of objects, of maps, of strings): never a lookup inside the elements"""
    out = []
    for tag in (44, 45, 1, 34, 33, 47, 49):
        for o in (obj({'emails': ('o', tag), 'k': I(1)}), obj({'n': {'emails': ('o', tag)}, 'k': I(1)})):
            for p in ('emails', 'n.emails'):
                for t in ['%s.primary pr', '%s.primary eq true', '%s.primary ne false', '%s.primary ne null', '%s.old eq null', '%s.y eq 1', '%s.name eq "bob"', '%s.a.b eq 1', '%s pr', '%s eq null', '%s.0 pr',
                          '%s.0.y eq 1', 'k eq 1 or %s.primary pr', 'k eq 2 or %s.y eq 1', 'not (%s.primary pr)', '%s.length gt 0', '%s in ["admin"]', '%s in [7, 9]', '%s co "a"']:
                    out.append((t % p, o, 'list-parents'))
    return out

def version_pairs(ctx):
    """two (three) version comparisons in one rule on attributes holding the same text, valid or not: (text, obj, fam, (components, fn))"""
    out = []
    texts = ['1.2', '1.2.0', 'abc', '', '1.2.0-rc1', '01.2.0', '1.2.0.0', 'v1.2.0', '18446744073709551616.0.0', '1.2.x']
    for a in texts:
        for b in texts[:5] + [a]:
            o = obj({'app': S(a), 'os': {'rel': S(b)}, 'lib': S(a)})
            for (c1, c2) in [('app eq 1.2.0', 'os.rel lt 9.9.9'), ('app ne 1.2.0', 'lib ne 1.2.0'), ('app lt 9.9.9', 'lib lt 9.9.9'), ('os.rel ge 0.0.1', 'app ge 0.0.1'), ('app gt 1.0.0', 'app gt 1.0.0')]:
                for conn, fn in (('or', lambda x, y: x or y), ('and', lambda x, y: x and y)):
                    out.append(('%s %s %s' % (c1, conn, c2), o, 'version-pairs', ([c1, c2], fn)))
                out.append(('not (%s) and %s' % (c1, c2), o, 'version-pairs', ([c1, c2], lambda x, y: (not x) and y)))
    return out

def failing_groups(ctx):
    """two operands that fail / panic / are undecided in DIFFERENT ways, with and without redundant parentheses around each:
    (base text, [variants], object)"""
    out = []
    fails = ['active gt true', 'tier eq 99999999999999999999', 'tier in [1, 99999999999999999999]', 'name eq "ann"', 'n.b eq 1', 'score lt 1.0e999', 'active co "x"', 'v in 1.0.0', 'tier eq 2', 'zz pr', 'name.first eq "a"']
    objs = [obj({'active': ('b', True), 'tier': I(1), 'name': ('strpanic',), 'n': I(5), 'score': F(1.0), 'v': S('1.0.0')}),
            obj({'active': ('b', True), 'tier': I(2), 'name': S('ann'), 'n': {'b': I(1)}, 'score': F(1.0), 'v': S('1.0.0')}),
            obj({'name': ('strpanicinvop',), 'tier': I(2), 'n': S('s')}), obj({'name': ('strselfpanic',), 'tier': I(1), 'n': ('o', 1), 'active': I(0)})]
    for a in fails:
        for b in fails:
            if a == b:
                continue
            for conn in ('or', 'and'):
                base = '%s %s %s' % (a, conn, b)
                variants = ['(%s) %s %s' % (a, conn, b), '%s %s (%s)' % (a, conn, b), '(%s) %s (%s)' % (a, conn, b), '((%s)) %s %s' % (a, conn, b), '( %s ) %s %s' % (a, conn, b), '(%s %s %s)' % (a, conn, b)]
                for o in (objs if not ctx.quick else ctx.rng.sample(objs, 2)):
                    out.append((base, variants, o))
    return out

def inf_lists(ctx):
    """lists of decimals with elements beyond the float64 range next to attributes that are infinite: (in text, expanded text, obj)"""
    out = []
    for lst in (['1.5', '1.0e999'], ['1.0e999'], ['-1.0e999', '2.5'], ['1.0e999', '-1.0e999', '0.5'], ['1.5', '1.0e400', '2.5'], ['0.5', '1.5']):
        for a in (F(float('inf')), F(float('-inf')), F(1.5), F(0.5), F(float('nan')), F(1e308), I(1), ABSENT_):
            o = obj({} if a is ABSENT_ else {'x': a})
            out.append(('x in [%s]' % ', '.join(lst), ' or '.join('x eq %s' % e for e in lst), o))
    return out
ABSENT_ = ('absent',)

def straddling_strings(ctx):
    """strings whose LAST character is multi-byte and straddles a round byte limit (64 ... 65536, decimal and binary): a text that is cut
    at a fixed length lands inside that character with nothing after it.  In comparisons that stay undecided, so that the diagnostic
    carries the string (as attribute value and as rule literal)"""
    out = []
    limits = [64, 100, 128, 255, 256, 500, 512, 1000, 1024, 2000, 2048, 4000, 4096, 8192, 10000, 16384] + ([] if ctx.quick else [32768, 50000, 65536, 100000])
    for L in limits:
        for ch in ('é', '€', '\U0001f600'):
            nb = len(ch.encode('utf-8'))
            for k in range(1, nb):
                s_ = 'a' * (L - k) + ch
                for t in ('x eq 1', 'x lt 1.5', 'x eq 1.0.0', 'x in [1, 2]', 'k eq 1 and x gt 2'):
                    out.append((t, obj({'x': S(s_), 'k': I(1)}), 'straddling-string'))
                if L <= 16384:
                    out.append(('y eq "%s"' % s_, obj({'y': I(1)}), 'straddling-string'))
                    out.append(('y co "%s" or zz eq "%s"' % (s_, s_), obj({'y': ('b', True)}), 'straddling-string'))
    return out

# ----------------------------------------------------------------------------
# batch 14
# ----------------------------------------------------------------------------
def repeated_groups(ctx):
    """the same compound group more than once in a rule, negated here and plain there; neighbours that differ only in the case of an
    attribute name: (text, obj, fam, (component texts, fn))"""
    out = []
    G = ['a eq 1 or b eq 2', 'a eq 1 and b eq 2', 'a pr or zz pr', 'not (a eq 1) or b eq 2']
    objs = [obj({'a': I(1), 'b': I(2), 'c': I(3)}), obj({'a': I(0), 'b': I(0), 'c': I(3)}), obj({'a': I(1), 'b': I(0), 'c': I(0)}), obj({'a': I(0), 'b': I(2), 'c': I(3)}), obj({})]
    ev = {'a eq 1 or b eq 2': lambda a, b: a or b, 'a eq 1 and b eq 2': lambda a, b: a and b}
    for g in G:
        forms = ['not (%(g)s) and c eq 3 or (%(g)s)', '(%(g)s) and c eq 3 or not (%(g)s)', 'not (%(g)s) or (%(g)s)', '(%(g)s) and not (%(g)s)', 'not (%(g)s) and (%(g)s)', '(%(g)s) or c eq 3 and not (%(g)s)',
                 'not (%(g)s) and not (%(g)s) or (%(g)s)', '(not (%(g)s)) or c eq 4 or (%(g)s)', 'c eq 3 and not (%(g)s) or c eq 3 and (%(g)s)', 'not ((%(g)s)) or ((%(g)s)) and c eq 3']
        for f in forms:
            for o in objs:
                out.append((f % {'g': g}, o, 'repeated-groups', None))
    # case twins as neighbours
    for (p1, p2) in [('Name', 'name'), ('a.B', 'a.b'), ('A.b', 'a.b'), ('user.ID', 'user.id'), ('x', 'X')]:
        def mk(p1v, p2v):
            return _obj_from_paths({p1: p1v, p2: p2v}) if p1.split('.')[0] != p2.split('.')[0] or True else None
        for (v1, v2) in [(S('x'), S('y')), (S('y'), S('x')), (I(1), I(2)), (S('x'), S('x'))]:
            try:
                o = _obj_from_paths({p1: v1, p2: v2})
            except Exception:
                continue
            lit = '"x"' if v1[0] == 's' else '1'
            for conn, fn in (('or', lambda a, b: a or b), ('and', lambda a, b: a and b)):
                out.append(('%s eq %s %s %s eq %s' % (p1, lit, conn, p2, lit), o, 'case-twin-neighbours', (['%s eq %s' % (p1, lit), '%s eq %s' % (p2, lit)], fn)))
                out.append(('%s eq %s %s %s eq %s' % (p2, lit, conn, p1, lit), o, 'case-twin-neighbours', (['%s eq %s' % (p2, lit), '%s eq %s' % (p1, lit)], fn)))
                out.append(('(%s pr) %s (%s pr)' % (p1, conn, p2), o, 'case-twin-neighbours', (['%s pr' % p1, '%s pr' % p2], fn)))
                out.append(('%s EQ %s %s %s eq %s' % (p1, lit, conn, p1, lit.upper()), o, 'case-twin-neighbours', (['%s EQ %s' % (p1, lit), '%s eq %s' % (p1, lit.upper())], fn)))
    return out

def self_reference_literals(ctx):
    """literals that look like references to other attributes of the object: a literal denotes its characters"""
    out = []
    refs = ['$.x', '$.name', '$.n.x', '$x', '@name', '{{name}}', '${name}', '#name', '$[0]', '$.path', '$', '$.', '@', 'this.name', '.name', 'name', '$.Name', '%name%', '<name>', '&name']
    for r in refs:
        o = obj({'x': S('alice'), 'name': S('alice'), 'path': S(r), 'n': {'x': S('alice')}})
        for op in ('eq', 'ne', 'co', 'sw', 'ew', 'lt', 'ge'):
            for attr in ('x', 'name', 'path', 'n.x'):
                out.append(('%s %s "%s"' % (attr, op, r), o, 'self-reference-literals'))
        out.append(('name in ["%s", "zz"]' % r, o, 'self-reference-literals'))
        out.append(('path in ["%s", "zz"]' % r, o, 'self-reference-literals'))
    return out

def version_boundaries(ctx):
    """version components at powers of two and their neighbours, against the version one carry further: (attr text, literal text)"""
    out = []
    bs = []
    for k in (8, 10, 16, 20, 21, 22, 24, 31, 32, 40, 42, 48, 53, 63):
        bs += [2 ** k - 1, 2 ** k, 2 ** k + 1]
    for b in bs:
        pairs = [('1.0.%d' % b, '1.1.0'), ('1.%d.7' % b, '2.0.7'), ('%d.0.0' % b, '%d.0.0' % (b + 1)), ('1.0.%d' % b, '1.0.5'), ('1.0.%d' % b, '1.0.%d' % b), ('2.%d.7' % b, '3.0.7'), ('1.%d.0' % b, '1.%d.0' % (b - 1)),
                 ('0.0.%d' % b, '0.1.0'), ('1.1.0', '1.0.%d' % b)]
        out += pairs
    return out

def sentence_prefixes(ctx):
    """every proper prefix of sentences whose left operand already decides the rule: a text that stops inside a sentence is no sentence"""
    out = []
    sents = ['y eq 1 or (x eq 2 and z in [1, 2])', 'y eq 1 or x in [1, 2, 3]', 'y eq 1 or not (x pr)', 'y ne 1 and (x eq "a b" or z eq 1.0.0)', 'y eq 1 or x.a.b co "s"', 'y eq 1 or NOT ( x eq 1.5e3 )',
             'not (y eq 2) or (x eq 1) and z eq true', 'y eq 1 or x eq null', 'y in [1] or ((x eq 2))']
    for s_ in sents:
        for i in range(1, len(s_)):
            out.append(s_[:i])
            if s_[i - 1] != ' ':
                out.append(s_[:i] + ' ')
    return out

def literal_spellings(ctx):
    """the same attribute compared twice with literals that are equal but spelled differently (and with ones that are not equal): (A, B, object)"""
    out = []
    for (l1, l2, vals) in [('"abc"', '"ABC"', [S('abc'), S('ABC'), S('x')]), ('2', '2.0', [I(2), F(2.0), I(3)]), ('1.2.3', '"1.2.3"', [S('1.2.3'), S('1.2.4')]), ('"a"', '"b"', [S('a'), S('b')]), ('1', '01.0', [I(1), F(1.0)]),
                           ('2.50', '2.5', [F(2.5), I(2)]), ('1.0.0', '1.0.0', [S('1.0.0'), S('1.0.0+b')]), ('true', 'true', [('b', True), ('b', False)]), ('"(", ")"'.split(', ')[0], '")"', [S('('), S(')')])]:
        for v in vals:
            o = obj({'x': v, 'y': v, 'k': I(1)})
            out.append(('x eq %s' % l1, 'x eq %s' % l2, o))
            out.append(('x eq %s' % l1, 'y eq %s' % l2, o))
            out.append(('x ne %s' % l1, 'x eq %s' % l2, o))
            out.append(('x in [%s]' % l1, 'x eq %s' % l2, o) if not l1.startswith('t') and '.' not in l1[1:-1].replace('.', '', 1) or True else ('x eq %s' % l1, 'x eq %s' % l2, o))
    return out


def key_twins(ctx):
    """the rule spells a name one way, the object only has a look-alike key (hyphen / underscore / colon / dot / case / blank):
    a missing step stays missing.  Also keys that spell a whole dotted path.  (text, obj, fam)"""
    out = []
    pairs = [('user-agent', 'user_agent'), ('user_agent', 'user-agent'), ('x-id', 'x_id'), ('a:b', 'a_b'), ('a-b', 'a:b'), ('hdr-s', 'hdr_s'), ('UserAgent', 'useragent'), ('user-agent', 'userAgent'), ('a-b', 'ab'), ('a_b', 'a b')]
    for (r, k) in pairs:
        for o in (obj({k: S('curl'), 'z': I(1)}), obj({'req': {k: I(7), k + 'x': I(1)}, 'z': I(1)}), obj({'req': {k: {'n': I(1)}}}), obj({r: ('nil',), k: I(1)})):
            for t in ['%s pr' % r, '%s eq null' % r, '%s ne null' % r, '%s eq "curl"' % r, 'req.%s pr' % r, 'req.%s eq 7' % r, 'req.%s.n pr' % r, 'req.%s.n eq 1 or z eq 1' % r, 'not (%s pr)' % r, 'req.%s eq null' % r]:
                out.append((t, o, 'key-twins'))
    # keys that contain dots: a path is walked step by step, never looked up as one key
    dotted = [obj({'a': {'c': I(1)}, 'a.b': ('b', True)}), obj({'a.b': I(1)}), obj({'geo': {'city.name': S('Oslo'), 'x': I(1)}}), obj({'geo': {'city': {'x': I(1)}, 'city.name': S('Oslo')}}), obj({'a': {'b.c': I(1), 'b': {'d': I(2)}}}),
              obj({'a.b.c': I(1), 'a': {'b': ('nil',)}}), obj({'geo.city.name': S('Oslo'), 'geo': {}})]
    for o in dotted:
        for t in ['a.b pr', 'a.b ne null', 'a.b eq true', 'a.b eq null', 'a.b eq 1', 'geo.city.name pr', 'geo.city.name eq "Oslo"', 'geo.city.name eq null', 'a.b.c pr', 'a.b.c eq 1', 'a.b.c eq null', 'a.b.d eq 2', 'not (geo.city.name pr)',
                  'geo.x eq 1 or geo.city.name pr']:
            out.append((t, o, 'dotted-keys'))
    return out

# ----------------------------------------------------------------------------
# batch 16: sibling comparisons on one path that a rewriting step might fold
# ----------------------------------------------------------------------------
def sibling_folds(ctx):
    """`or` chains of 2..16 equality tests on one path, pairs of bounds that cover the number line, pairs of different constants:
    a float with a fraction, NaN, an absent / non-numeric attribute make the folded answer wrong.  (text, obj, fam)"""
    out = []
    attrs = [F(2.5), F(2.0), I(2), F(float('nan')), ABSENT_, S('2'), ('i64', 2), F(4.999999999), F(-0.0), ('nil',), ('b', True), I(40), F(1e300), ('m', []), F(0.5)]
    texts = []
    for n in (2, 3, 4, 5, 8, 16):
        texts.append(' or '.join('a eq %d' % i for i in range(1, n + 1)))
        texts.append(' or '.join('a eq %d.0' % i for i in range(1, n + 1)))
        texts.append(' and '.join('a ne %d' % i for i in range(1, n + 1)))
        texts.append('(' + ' or '.join('a eq %d' % i for i in range(1, n + 1)) + ') and k eq 1')
        texts.append(' or '.join('a eq "%d"' % i for i in range(1, n + 1)))
    for (lo, hi) in [(18, 65), (0, 0), (5, 4), (1, 100)]:
        for (g, l) in [('gt', 'lt'), ('ge', 'le'), ('gt', 'le'), ('ge', 'lt')]:
            texts += ['a %s %d or a %s %d' % (g, lo, l, hi), 'a %s %d or a %s %d' % (l, hi, g, lo), '(a %s %d or a %s %d) and k eq 1' % (g, lo, l, hi), 'not (a %s %d or a %s %d)' % (g, lo, l, hi),
                      'a %s %d and a %s %d' % (l, lo, g, hi), 'a %s %d.5 or a %s %d.5' % (g, lo, l, hi)]
    texts += ['a eq 0 and a eq -0', 'a eq 2 and a eq 2.0', 'a eq 2.50 and a eq 2.5', 'a eq "x" and a eq "X"', 'a ne 2 or a ne 3', 'a eq 2 or a ne 2', 'a lt 2 or a eq 2 or a gt 2', 'a eq null or a ne null', 'a pr or not (a pr)',
              'a eq true or a eq false', 'a eq true or a ne true']
    for t in texts:
        for a in attrs:
            out.append((t, obj({'k': I(1)}) if a is ABSENT_ else obj({'a': a, 'k': I(1)}), 'sibling-folds'))
    return out

def absorption_operands(ctx):
    """(L, group, object): L repeated inside a group next to an operand that fails / is undecided"""
    out = []
    for L in ('p eq 1', 'p pr', 'p gt 5'):
        for B in ('q co 5', 'q gt null', 'q eq 99999999999999999999', 'zz eq 1', 'q eq 5'):
            for grp in ('%s and %s' % (B, L), '%s and %s' % (L, B), '%s or %s' % (B, L), '%s or %s' % (L, B)):
                for o in (obj({'p': I(2), 'q': I(5)}), obj({'p': I(1), 'q': I(5)}), obj({'q': I(5)}), obj({'p': I(9), 'q': S('s')})):
                    out.append((L, grp, o))
    return out
