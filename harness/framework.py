"""framework.py — what a check does around the property-specific part:
build, proof obligations, decision, known findings, evidence, replay files."""
import os, re, json, subprocess, time, sys, hashlib
from .core import *

KNOWN = os.path.join(VERIF, 'known_findings.json')

class Ctx:
    def __init__(self, pid, tier, seed):
        self.pid, self.tier, self.seed = pid, tier, seed
        self.rng = random.Random(seed * 1000003 + int(pid[1:]))
        self.quick = tier == 'quick'
        self.work = newest_workdir(pid)
        self.evaluations = 0
        self.fam = {}
        self.mismatches = []     # correspondence: (case, field, impl, model)
        self.violations = []     # failing inputs of the property itself: dict
        self.samples = []
        self.nontrivial = set()
        self.notes = []
        self.exhaustive = None
        self.crashes = []
        self.extra = {}
    def n(self, a, b):
        return a if self.quick else b

    # --- running -------------------------------------------------------------
    def run(self, cs, label='cases', **kw):
        cases = cs.cases if hasattr(cs, 'cases') else cs
        own_crash_handling = kw.pop('own_crash_handling', False)
        res = run_cases(cases, self.work, label=label, **kw)
        self._raw_model = getattr(self, '_raw_model', {})
        self._raw_model.update(res.model_raw)
        self.evaluations += len(cases)
        for c in cases:
            self.fam[c.fam] = self.fam.get(c.fam, 0) + 1
        for cr in res.crashes:
            self.crashes.append(cr)
            # a driver process that died (fatal runtime error, os.Exit by the watchdog after 120 s without an answer) gave no verdict at all
            if cr[0] == 'impl' and not own_crash_handling:
                byid = {c.id: c for c in cases}
                c = byid.get(cr[4])
                self.violation('the process running the library died or never answered (rc %s) on this case: %s' % (cr[2], (cr[3] or '')[-400:]), [c] if c else [])
        # every eval case is run twice by the driver (two fresh evaluators): an outcome that changes is a violation of any property
        for c in cases:
            io = res.impl.get(c.id)
            if io and io.get('kept') not in (None, 'ok'):
                self.violation('an error handed to the caller (Process / LastDebugErr) %s after later calls on the same evaluator' % ('panics in Error()' if io.get('kept') == 'panic' else 'changed its text'), [c], impl=io)
            if io and io.get('h3') == '0' and self.pid in ('C14', 'C11'):
                self.violation('in a history, rules.Evaluate / parser.Evaluate on the very object of a call (the same map value, changed in place by the caller between calls) answer differently from Process', [c], impl=io)
            if io and io.get('det') == '0':
                self.violation('the same rule and object gave two different outcomes in one process (map iteration order, left-over state or chance)', [c], impl=io)
        if 'model' in kw.get('sides', ('impl', 'model')) and not getattr(self, '_kc_done', False):
            self._kc_done = True
            self.kernel_crosscheck(cases, res, 60 if self.quick else 1500)
        return res

    def kernel_crosscheck(self, cases, res, k):
        """a seeded sample of the cases is re-evaluated inside Coq (vm_compute of Runner.run_line)
        and compared with what the extracted OCaml runner printed: extraction and the OCaml glue
        are thereby validated against the kernel's evaluator"""
        pool = [c for c in cases if c.id in res.model and len(c.line) < 1200 and len(self._raw_model.get(c.id, '')) < 1200]
        if not pool:
            return
        rng = random.Random(self.seed + 17)
        sample = pool if len(pool) <= k else rng.sample(pool, k)
        def lst(b):
            return '[' + ';'.join(str(x) for x in b) + ']'
        rows = []
        budget = 150000
        for c in sample:
            out = self._raw_model.get(c.id)
            if out is None:
                continue
            budget -= len(c.line) + len(out)
            if budget < 0:
                break
            rows.append('(%s, %s)' % (lst(c.line.encode('utf-8')), lst(out.encode('utf-8'))))
        if not rows:
            return
        vf = os.path.join(self.work, 'KernelCheck.v')
        with open(vf, 'w') as f:
            f.write('From Rules Require Import Base Runner.\nOpen Scope N_scope.\n')
            f.write('Definition cases : list (bytes * bytes) := [\n' + ';\n'.join(rows) + '].\n')
            f.write('Definition bad := Eval vm_compute in length (filter (fun io => negb (bytes_eqb (run_line (fst io)) (snd io))) cases).\nPrint bad.\n')
        p = subprocess.run(['bash', '-c', 'ulimit -s unlimited 2>/dev/null; cd %s && timeout 1200 coqc -Q %s/coq Rules KernelCheck.v' % (self.work, VERIF)],
                           stdout=subprocess.PIPE, stderr=subprocess.PIPE)
        out = p.stdout.decode('utf-8', 'replace')
        ok = p.returncode == 0 and re.search(r'bad\s*=\s*0\b', out) is not None
        self.extra['kernel_crosschecked'] = self.extra.get('kernel_crosschecked', 0) + len(rows)
        if not ok:
            self.extra['kernel_crosscheck_failed'] = (out + p.stderr.decode('utf-8', 'replace'))[-600:]
            self.mismatches.append((Case('kernel', 'kernel', '(kernel-crosscheck)', 'kernel'), 'extracted runner vs vm_compute', out[-200:], 'bad = 0'))

    def compare(self, cases, res, fields, scope=None, nontrivial=None):
        """correspondence on the projection `fields` for the cases in scope"""
        for c in cases:
            mo = res.model.get(c.id)
            io = res.impl.get(c.id)
            if mo is None or 'BADCASE' in mo or 'BADLINE' in mo:
                self.notes.append('harness: model produced no observation for %s: %s' % (c.id, c.line[:200]))
                self.mismatches.append((c, 'model-observation', str(io), str(mo)))
                continue
            if io is None:
                self.mismatches.append((c, 'impl-observation', None, str(mo)))
                continue
            if scope is not None and not scope(c, mo, io):
                continue
            if nontrivial is None or nontrivial(c, mo):
                self.nontrivial.add(c.line.split(' ', 2)[2])
            for f in fields:
                if io.get(f) != mo.get(f):
                    self.mismatches.append((c, f, io.get(f), mo.get(f)))
                    break

    def violation(self, what, cases, **detail):
        d = {'what': what, 'cases': [case_desc(c) for c in cases], 'lines': [c.line for c in cases]}
        d.update(detail)
        self.violations.append(d)

    def sample(self, c, res=None):
        if len(self.samples) < 8:
            d = case_desc(c)
            if res is not None:
                d['impl'] = res.impl.get(c.id)
                d['model'] = res.model.get(c.id)
            self.samples.append(d)

# ----------------------------------------------------------------------------
def build():
    t0 = time.time()
    p = subprocess.run([os.path.join(VERIF, 'build.sh')], stdout=subprocess.PIPE, stderr=subprocess.STDOUT, timeout=3600)
    out = p.stdout.decode('utf-8', 'replace')
    return p.returncode, out, time.time() - t0

FORBIDDEN = re.compile(r'\b(Admitted|admit|Axiom|Axioms|Parameter|Parameters|Conjecture|Hypothesis|Variable)\b|Unset\s+Guard|bypass_check|type-in-type|impredicative-set|Admit\s+Obligations')

def scan_sources():
    """source scan for anything that would declare an axiom or switch a check off.
    Variable/Hypothesis are allowed inside Sections only (checked by Coq closing them:
    Print Assumptions would list a leaked one); here we only reject the global forms."""
    bad = []
    coqdir = os.path.join(VERIF, 'coq')
    for root, _, files in os.walk(coqdir):
        for fn in files:
            if not fn.endswith('.v'):
                continue
            path = os.path.join(root, fn)
            depth = 0
            for ln, line in enumerate(open(path, encoding='utf-8', errors='replace'), 1):
                code = re.sub(r'\(\*.*?\*\)', '', line)
                if re.match(r'\s*Section\b', code): depth += 1
                if re.match(r'\s*End\b', code) and depth > 0: depth -= 1
                m = FORBIDDEN.search(code)
                if m:
                    w = m.group(0)
                    if w in ('Variable', 'Hypothesis') and depth > 0:
                        continue
                    if w in ('Variable', 'Hypothesis', 'Parameter', 'Parameters') and not re.match(r'\s*(Variable|Hypothesis|Parameter|Parameters)\b', code):
                        continue
                    bad.append('%s:%d: %s' % (os.path.relpath(path, VERIF), ln, line.strip()[:120]))
    return bad

def obligations(pid):
    """compile Props/<pid>.v (only `exact` + Print Assumptions) and collect, per theorem,
    whether it checked and what it assumes"""
    src = os.path.join(VERIF, 'coq', 'Props', pid + '.v')
    obs = []
    if not os.path.exists(src):
        return [], [], 'no Props file', ''
    text = open(src, encoding='utf-8').read()
    names = re.findall(r'^\s*(?:Theorem|Lemma|Example)\s+([A-Za-z0-9_\']+)', text, re.M)
    cmd = 'cd %s/coq && timeout 600 coqc -Q . Rules Props/%s.v' % (VERIF, pid)
    p = subprocess.run(['bash', '-c', cmd], stdout=subprocess.PIPE, stderr=subprocess.PIPE)
    out = p.stdout.decode('utf-8', 'replace')
    err = p.stderr.decode('utf-8', 'replace')
    assumptions = {}
    # Print Assumptions output follows each theorem in order
    blocks = re.split(r'(?=Closed under the global context|Axioms:)', out)
    pa = [b for b in blocks if b.startswith('Closed under') or b.startswith('Axioms:')]
    discharged = []
    if p.returncode == 0:
        discharged = list(names)
    else:
        # which theorem failed: everything before the error line checked
        m = re.search(r'line (\d+)', err)
        if m:
            ln = int(m.group(1))
            pos = 0
            for nm in names:
                mm = re.search(r'(?:Theorem|Lemma|Example)\s+' + re.escape(nm) + r'\b', text)
                if mm and text.count('\n', 0, mm.start()) + 1 < ln:
                    # ends before failing line?  a theorem is discharged if its Qed precedes the error
                    q = text.find('Qed.', mm.start())
                    if q >= 0 and text.count('\n', 0, q) + 1 < ln:
                        discharged.append(nm)
    axioms = sorted(set(re.findall(r'^\s*([A-Za-z0-9_.\']+)\s*:', ''.join(b for b in pa if b.startswith('Axioms:')), re.M)))
    return names, discharged, (err.strip()[-1500:] if p.returncode != 0 else ''), ('; '.join(axioms) if axioms else 'Closed under the global context')

def load_known():
    try:
        return json.load(open(KNOWN))
    except OSError:
        return {'findings': [], 'fixed': []}

def finding_key(v):
    """identity of a failing input: the rule text(s) and object(s) as printed"""
    return hashlib.sha1(json.dumps(v.get('lines'), sort_keys=True).encode()).hexdigest()[:16]

TRUSTED = [
    'Coq 8.16.1 kernel (coqc; vm_compute used by finite-data lemmas and the kernel cross-check; no native_compute)',
    'extraction (ExtrOcamlBasic only, no Extract Constant/Inductive of ours) + OCaml 4.13.1 + runner/main.ml (byte shuffling only)',
    'tools/g4tocoq.py (JsonQuery.g4 -> GrammarGen.v) and tools/gofacts (Go AST -> SourceFacts.v)',
    'correspondence harness: harness/*.py generators and comparison, driver/main.go (exported API of /repo only)',
    'modelled, not verified: Go map/interface/type-assertion/recover semantics as written in Visitor.v; strconv.ParseInt/ParseFloat and float64(int) (Gallina re-implementations, validated on every run); unicode.ToLower table generated from the Go toolchain; blang/semver (ported); ANTLR runtime and generated lexer/parser (black box)',
]

def finish(ctx, names, discharged, coq_err, axioms, build_rc, build_out, t0, checker_cmd):
    pid = ctx.pid
    known = load_known()
    known_keys = {f['key']: f for f in known.get('findings', []) if f.get('property') == pid}
    os.makedirs(os.path.join(VERIF, 'evidence'), exist_ok=True)
    os.makedirs(os.path.join(VERIF, 'replays'), exist_ok=True)
    broken = []
    # a failing proof file elsewhere in the development is not this property's business: its own
    # theorems are re-checked below; only a broken model/runner/driver/translator is
    hard = [l for l in build_out.splitlines() if l.startswith('BUILD:') and 'coq make reported errors' not in l]
    if hard:
        broken.append('build: ' + ' | '.join(hard)[-800:])
    missing = [n for n in names if n not in discharged]
    if missing or not names:
        broken.append('theorems not checked: %s %s' % (', '.join(missing) or '(no Props file)', coq_err))
    if axioms != 'Closed under the global context':
        broken.append('unexpected assumptions: ' + axioms)
    scan = scan_sources()
    if scan:
        broken.append('forbidden constructs: ' + '; '.join(scan[:5]))
    if ctx.mismatches:
        broken.append('correspondence: %d disagreement(s) between model and implementation' % len(ctx.mismatches))
    for cr in ctx.crashes:
        if cr[0] == 'model':
            broken.append('model runner failed on shard %d (rc %s): %s' % (cr[1], cr[2], cr[3][-300:]))
    # classify failing inputs
    lines = []
    new_viol = []
    for v in ctx.violations:
        k = finding_key(v)
        if k in known_keys:
            lines.append('KNOWN-FINDING: property=%s %s' % (pid, known_keys[k].get('what', v['what'])))
        else:
            new_viol.append(v)
    rc = 0
    replay_path = None
    if new_viol:
        # smallest failing inputs first (shrinking by selection over the generated families)
        new_viol.sort(key=lambda v: sum(len(l) for l in v.get('lines', [])))
        replay_path = os.path.join(VERIF, 'replays', '%s-%s-%d.json' % (pid, ctx.tier, ctx.seed))
        json.dump({'property': pid, 'seed': ctx.seed, 'tier': ctx.tier, 'failing_inputs': new_viol[:20],
                   'total_failing_inputs': len(new_viol), 'broken_obligations': broken}, open(replay_path, 'w'), indent=1, default=str)
        lines.append('VIOLATION property=%s replay=%s' % (pid, replay_path))
        rc = 1
    elif broken:
        replay_path = os.path.join(VERIF, 'replays', '%s-%s-%d.json' % (pid, ctx.tier, ctx.seed))
        mm = [{'case': case_desc(c), 'line': c.line, 'field': f, 'impl': i, 'model': m} for (c, f, i, m) in ctx.mismatches[:20]]
        json.dump({'property': pid, 'seed': ctx.seed, 'tier': ctx.tier, 'failing_inputs': [],
                   'no_longer_checks': broken, 'disagreements': mm}, open(replay_path, 'w'), indent=1, default=str)
        lines.append('VIOLATION property=%s replay=%s no-failing-input-found' % (pid, replay_path))
        rc = 1
    wall = time.time() - t0
    cov = {
        'obligations': max(1, len(names)) + 1,
        'discharged': len(discharged) + (0 if ctx.mismatches or hard else 1),
        'obligation_names': names + ['correspondence(%s)' % pid],
        'checker_cmd': checker_cmd,
        'trusted_base': TRUSTED,
        'print_assumptions': axioms,
        'evaluations': ctx.evaluations,
        'distinct_nontrivial': len(ctx.nontrivial),
        'rule': ctx.extra.get('rule', 'cases generated from VERIF_SEED by the families listed in family_histogram; a case is non-trivial when the model classifies it inside the property\'s scope (see DESIGN.md section 7); distinct = distinct (rule text, object) lines'),
        'traces_validated_against_impl': ctx.evaluations,
        'family_histogram': ctx.fam,
        'samples': ctx.samples or [{'note': 'no case generated'}],
        'disagreements': len(ctx.mismatches),
        'failing_inputs_found': len(ctx.violations),
        'notes': ctx.notes[:20],
    }
    if ctx.exhaustive is not None:
        cov['exhaustive'] = bool(ctx.exhaustive)
    for k, v in ctx.extra.items():
        if k != 'rule':
            cov[k] = v
    ev = {'property_id': pid, 'tier': ctx.tier, 'seed': ctx.seed, 'level': 'proof', 'coverage': cov,
          'assumptions': ctx.extra.get('assumptions', []) + ['see coverage.trusted_base'], 'wall_s': round(wall, 2),
          'violations': len(new_viol) + (1 if (broken and not new_viol) else 0)}
    json.dump(ev, open(os.path.join(VERIF, 'evidence', pid + '.json'), 'w'), indent=1, default=str)
    for l in lines:
        print(l)
    print('%s %s: %d cases, %d disagreements, %d failing inputs, theorems %d/%d, %.1fs -> %s' % (
        pid, ctx.tier, ctx.evaluations, len(ctx.mismatches), len(ctx.violations), len(discharged), len(names), wall, 'FAIL' if rc else 'ok'))
    try:
        shutil.rmtree(ctx.work)
    except OSError:
        pass
    return rc
