"""props.py — per-property case generation and decision logic.
Each check_Cxx(ctx) generates cases, runs both sides, records
  * correspondence disagreements on the property's own projection (ctx.compare)
  * failing inputs of the property itself (ctx.violation): for relational properties
    the implementation is compared with itself, for outcome-fixing properties with
    the proved model on in-scope inputs."""
from .core import *
from . import scale
from .gen import *
from .framework import Ctx
import hashlib

def accepted(c, mo, io=None):
    return mo.get('accept') == '1'

def outcome(o):
    """(verdict, failed?)"""
    return (o.get('verdict'), o.get('err') != 'none')

SMALL_OBJS = [obj({}), obj({'x': I(1)}), obj({'x': I(1), 'y': I(2)}), obj({'x': S('abc')}), obj({'x': ('nil',)}),
              obj({'x': {'y': I(1)}}), obj({'x': ('strpanic',)}), obj({'x': ('o', 1)})]

# ----------------------------------------------------------------------------
def eval_texts(ctx, cs, n_sent, n_mut, n_soup, n_bytes, objs_per=1):
    def add(text, fam, **meta):
        info = meta.get('info') or []
        for _ in range(objs_per):
            o = object_for(ctx.rng, info) if info and ctx.rng.random() < 0.8 else ctx.rng.choice(SMALL_OBJS)
            cs.eval(text, o, fam, **meta)
    fam_text(add, ctx.rng, n_sent, n_mut, n_soup, n_bytes)
    for t in FIXED_TEXTS:
        for o in SMALL_OBJS[:3]:
            cs.eval(t, o, 'text-fixed')
    for (t, o) in CORPUS:
        cs.eval(t, o, 'corpus')
    # a sentence with something at its very ends: white space (ignored) or anything else (an error)
    EDGE = ['\x00', '\x07', '\x1b', '\x7f', '\u200b', '\ufeff', '\u00ad', '\ue000', '\u2060', '\U000e0001', '\u200e', '\u061c',
            '\t', '\r', '\n', '\x0b', '\x0c', ' ', '\u0085', '\u00a0', '\u1680', '\u2003', '\u2028', '\u2029', '\u202f', '\u205f', '\u3000',
            '\u180e', '\u200a', '\u2007', ';', '#', '$', '~', '\\', '"', "'", '`', b'\xff', b'\xc2', b'\xe2\x80', b'\xef\xbb\xbf']
    base = ['x eq 1', 'x pr', '(x eq 1)', 'x eq "a"', 'x in [1]']
    for b in base:
        for e in EDGE:
            eb = e if isinstance(e, bytes) else e.encode('utf-8')
            bb = b.encode()
            for t in (bb + eb, eb + bb, eb + bb + eb, bb + b' ' + eb, eb + b' ' + bb, bb + eb + eb):
                cs.eval(t, obj({'x': I(1)}), 'text-edge')

def check_C14(ctx):
    cs = CaseSet()
    eval_texts(ctx, cs, ctx.n(300, 6000), 4, ctx.n(300, 6000), ctx.n(150, 3000))
    fam_leaf_exh(cs, ctx.rng, stride=ctx.n(17, 2))
    fam_other_typed(cs, ctx.rng)
    # objects holding values of every other Go type (YAML-style maps, map[string]string, named maps,
    # slices, Stringers, ...) at the top level and nested, with paths that stop at them and paths that go through them
    for hv in HOSTILE:
        for o in (obj({'x': hv, 'k': I(1)}), obj({'n': {'x': hv}, 'k': I(1)})):
            for t in ['x.name eq "bob"', 'x.n eq 1', 'x.a.b eq 1', 'x eq 1', 'x eq "bob"', 'x pr', 'x.name pr', 'n.x.name eq "bob"', 'n.x pr', 'n.x.n eq 1',
                      'not (x.name eq "bob")', 'x.name eq "bob" or k eq 1', 'k eq 1 or x.name eq "bob"', 'k eq 2 or n.x.name eq "bob"', 'x.name in ["bob"]']:
                cs.eval(t, o, 'hostile-object')
    # size and shape beyond small random rules (harness/scale.py)
    for (t_, o_, fam_, *_m) in scale.long_texts(ctx):
        cs.eval(t_, o_, fam_)
    for (t_, o_, fam_, *_m) in scale.long_fail_chains(ctx):
        cs.eval(t_, o_, fam_)
    for (t_, o_, fam_, *_m) in scale.odd_keys(ctx):
        cs.eval(t_, o_, fam_)
    for (t_, o_, fam_, *_m) in scale.nil_object(ctx):
        cs.eval(t_, o_, fam_)
    for (t_, o_, fam_, *_m) in scale.nonascii_prefix(ctx):
        cs.eval(t_, o_, fam_)
    # reserved words as attribute names on objects that have such keys; operators of other languages inside literals; literals ending in
    # an escaped backslash next to parentheses; a Stringer that evaluates rules itself (a lock around caller code would never return)
    for (t_, o_, fam_, *_m) in scale.keyword_keys(ctx) + scale.operator_literals(ctx) + scale.escape_tails(ctx)[::3]:
        cs.eval(t_, o_, fam_)
    for t_ in ['x eq "abc"', 'x co "b" and k eq 1', 'k eq 1 and n.x sw "a"', 'x in ["abc", "q"]', 'x eq 1.0.0', 'x gt 1']:
        for a_ in (('strreent', b'abc'), ('strreent', b'1.0.0')):
            cs.eval(t_, obj({'x': a_, 'k': I(1), 'n': {'x': a_}}), 're-entrant-stringer')
    # a value whose String() takes 2.2 s: every entry point waits for it and gives the same answer
    cs.eval('x eq "abc" and k eq 1', obj({'x': ('strslow', b'abc'), 'k': I(1)}), 'slow-value')
    # histories in which the caller changes ONE map value in place between the calls: after every call the driver also asks both Evaluate
    # functions about that very map value (`h3`)
    for text_ in ['x eq 1', 'x gt 1 or y eq 2', 'a.b eq 1', 's co "a" and x pr', 'x in [1, 2]']:
        seqs_ = [[obj({'x': I(1), 'a': {'b': I(1)}, 's': S('a')}), obj({'x': I(2), 'a': {'b': I(2)}, 's': S('b')}), obj({'x': I(1), 'a': {'b': I(1)}, 's': S('xa')})],
                 [obj({'x': I(2), 'y': I(2)}), obj({'x': I(0), 'y': I(3)}), obj({'x': I(5), 'y': I(3)})]]
        for seq_ in seqs_:
            cs.hist(text_, [('p', seq_[0]), ('q', seq_[1]), ('q', seq_[2]), ('q', seq_[0]), ('d',)], 'inplace-entry-points')
    # every prefix of sentences whose left operand decides the rule (a parse that gives up quietly would evaluate the partial tree)
    for t_ in scale.sentence_prefixes(ctx):
        for o_ in (obj({'y': I(1), 'x': I(2), 'z': I(1)}), obj({'y': I(2)})):
            cs.eval(t_, o_, 'sentence-prefixes')
    for t_ in ['x eq "abc"', 'x co "b" and k eq 1', 'x eq "abc" or zz pr', 'n.x sw "a" and x ew "c"', 'x in ["abc", "abcd"] and y in ["q"]', 'y in ["q"] and x in ["abc", "abcd"]',
               'x in ["abc", "abcd"] and y in ["zz"] or x in ["abcd", "abc"]', 'x in ["abc"] and k in [1, 2] and y in ["q", "r"]', 'not (x in ["zz"]) and y in ["q"] and x in ["abcd", "abc"]']:
        for a_ in (('strsame', b'abc'), ('strsame', b'abcd')):
            cs.eval(t_, obj({'x': a_, 'k': I(1), 'n': {'x': a_}, 'y': S('q')}), 're-entrant-same-rule')
    for t_ in [b'x eq "caf\xe9"', b'x eq "\xff"', b'x co "\xc3"', b'x eq "a\xe9b" or y eq 1', b'x in ["\xe9", "b"]', b'x eq "\xed\xa0\x80"', b'x eq "\xc3\xa9"', b'x\xe9 eq 1', b'x eq 1 \xe9']:
        for o_ in (obj({'x': S(b'caf\xe9'), 'y': I(1)}), obj({'x': S(b'\xff')}), obj({'x': S('caf\ufffd')}), obj({'x': S('é')})):
            cs.eval(t_, o_, 'invalid-utf8-literal')
    res = ctx.run(cs)
    ctx.compare([c for c in cs.cases if c.kind != 'hist'], res, ['verdict', 'err', 'ev3'], nontrivial=lambda c, mo: True)
    ctx.compare([c for c in cs.cases if c.kind == 'hist'], res, ['out'])
    run_sequences(ctx, fields=('verdict', 'err', 'ev3'))
    # a value of the caller that adds a key to the caller's own map while it is printed, the key read by a later comparison: no model
    # counterpart (the object changes during the call), the three entry points are compared with each other only; every entry point
    # starts from the same object
    cs_mut = CaseSet()
    for t_ in ['x eq "abc" and added pr', 'x co "b" and added eq 1', 'added pr or x eq "abc"', 'x eq "abc" or added pr', 'not (x eq "zzz") and added pr', 'n.k eq 1 and x sw "a" and added pr', 'x in ["abc"] and added ne null',
               'added pr and x eq "abc" and added pr']:
        for a_ in (('strmut', b'abc'), ('strmut', b'zzz')):
            cs_mut.eval(t_, obj({'x': a_, 'k': I(1), 'n': {'k': I(1)}}), 'self-changing-object')
    res_mut = ctx.run(cs_mut, label='mut', sides=('impl',), nshards=1)
    for c in cs_mut.cases:
        res.impl[c.id + 'm'] = res_mut.impl.get(c.id)
    for c in cs.cases + cs_mut.cases:
        io = res.impl.get(c.id + 'm') if c.fam == 'self-changing-object' else res.impl.get(c.id)
        if not io or 'ev3' not in io:
            continue
        v, e = io['verdict'], io['err'] != 'none'
        want = v + ('1' if e else '0') + v
        if io['ev3'] != want:
            ctx.violation('entry points disagree: NewEvaluator+Process gave verdict=%s err=%s, (rules.Evaluate verdict, error?, parser.Evaluate verdict)=%s' % (v, io['err'], io['ev3']), [c], impl=io)
        elif e and v == '1':
            ctx.violation('error returned together with verdict true', [c], impl=io)
        ctx.sample(c, res)

# ----------------------------------------------------------------------------
def leak_contexts(leaf_text):
    """the leaf placed after / before / inside other comparisons on attribute k (k = 1 in the object)"""
    T, Fq = 'k eq 1', 'k eq 2'
    return [leaf_text, '%s and %s' % (T, leaf_text), '%s or %s' % (Fq, leaf_text), '%s and %s' % (leaf_text, T),
            '%s or %s' % (leaf_text, Fq), 'not (%s) and %s' % (Fq, leaf_text), '(%s and %s) or %s' % (T, leaf_text, Fq),
            'k.j.i eq 1 or %s' % leaf_text, 'k in [1,2] and %s' % leaf_text, 'k eq "s" or %s' % leaf_text]

def check_C10(ctx):
    cs = CaseSet()
    for (t, o) in CORPUS:
        cs.eval(t, o, 'corpus')
    lits = [('null',), ('bool', 'true'), ('bool', 'false')]
    fam_leaf_exh(cs, ctx.rng, ops=['EQ', 'NE'], literals=lits, fam='leaf-exh-null-bool')
    fam_pr_exh(cs, ctx.rng)
    leaf_forms = ['%s pr', '%s eq null', '%s ne null', '%s eq true', '%s ne true', '%s eq false', '%s ne false', '%s == null', '%s != false']
    attrs = [ABSENT, ('nil',), ('b', True), ('b', False), I(0), I(1), S(''), S('true'), ('m', []), F(0.0), ('o', 1), ('str', b'true')]
    for path in (['n', 'x'], ['n', 'y', 'z'], ['n', 'y', 'z', 'w']):
        for a in attrs:
            for o in nested_variants(path, a):
                # k = 1 for the neighbouring comparisons
                o = ('m', o[1] + [(b'k', I(1))])
                for form in leaf_forms:
                    leaf = form % '.'.join(path)
                    ctxs = leak_contexts(leaf) if (ctx.tier != 'quick' or ctx.rng.random() < 0.15) else [leaf]
                    for t in ctxs:
                        cs.eval(t, o, 'nested-null-bool-pr', leaf=leaf)
    # size and shape beyond small random rules (harness/scale.py)
    for (t_, o_, fam_, *_m) in scale.deep_paths(ctx):
        cs.eval(t_, o_, fam_)
    for (t_, o_, fam_, *_m) in scale.wide_objects(ctx):
        cs.eval(t_, o_, fam_)
    for (t_, o_, fam_, *_m) in scale.shared_suffixes(ctx):
        cs.eval(t_, o_, fam_)
    for (t_, o_, fam_, *_m) in scale.nil_object(ctx):
        cs.eval(t_, o_, fam_)
    for (t_, o_, fam_, *_m) in scale.odd_keys(ctx):
        cs.eval(t_, o_, fam_)
    for (t_, o_, fam_, *_m) in scale.guard_patterns(ctx):
        cs.eval(t_, o_, fam_)
    # names other systems treat as built-ins, names spelled like keywords (on objects that have them), paths continuing below a list
    for (t_, o_, fam_, *_m) in scale.magic_names(ctx) + scale.keyword_keys(ctx) + scale.list_parents(ctx) + scale.key_twins(ctx):
        cs.eval(t_, o_, fam_)
    # a name that could be split at `:` `-` `_` into a sibling object and a key in it; function values (never called)
    fb = obj({'ext': {'flag': ('b', True), 'n': ('nil',)}, 'a': {'b': I(1)}, 'x': ('o', 35), 'y': ('o', 36), 'z': ('o', 37), 'n': {'x': ('o', 37)}})
    for t_ in ['ext:flag pr', 'ext:flag eq null', 'ext:flag eq true', 'ext:flag ne false', 'ext:n pr', 'ext:zz pr', 'a-b eq 1', 'a-b pr', 'a_b eq 1', 'a:b pr', 'a:b eq null', 'ext-flag eq true',
               'x pr', 'x eq null', 'x eq true', 'y pr', 'y eq true', 'y ne false', 'y eq null', 'z pr', 'z.admin pr', 'z.admin eq true', 'n.x.admin pr', 'n.x pr', 'x ne null', 'z eq null']:
        cs.eval(t_, fb, 'fallback-names')
    res = ctx.run(cs)
    ctx.exhaustive = True
    ctx.compare(cs.cases, res, ['verdict', 'err'], scope=accepted)
    # a value of the caller that adds the key `added` to the caller's map when it is printed (by `x eq "abc"`): a presence / null test
    # evaluated AFTER that comparison sees the key, one evaluated before does not (left to right; no model counterpart: the expected
    # verdicts are written out here)
    cs_mut = CaseSet()
    table_ = [('(added pr or x eq "abc") and added pr', '1'), ('added pr or (x eq "abc" and added pr)', '1'), ('not (added pr) and x eq "abc" and added pr', '1'), ('added eq null and x eq "abc" and added ne null', '1'),
              ('added eq null and x eq "abc" and added eq null', '0'), ('added pr and x eq "abc" and added pr', '0'), ('x eq "abc" and added pr', '1'), ('added pr or x eq "zzz" or added pr', '1'), ('x eq "abc" and not (added eq null)', '1'),
              ('added ne null or (x co "b" and added ne null and added eq 1)', '1')]
    for (t_, want_) in table_:
        cs_mut.eval(t_, obj({'x': ('strmut', b'abc'), 'k': I(1)}), 'self-changing-object', want=want_)
    res_mut = ctx.run(cs_mut, label='mut', sides=('impl',), nshards=1)
    for c in cs_mut.cases:
        io = res_mut.impl.get(c.id)
        if io and (io.get('verdict') != c.meta['want'] or io.get('err') != 'none'):
            ctx.violation('presence / null tests around a comparison that makes a value of the caller add the key `added`: verdict %s/%s, left-to-right evaluation gives %s' % (io.get('verdict'), io.get('err'), c.meta['want']), [c], impl=io)
    # the proved model is the specification here: a disagreement on an in-scope input is a failing input
    for (c, f, i, m) in ctx.mismatches:
        ctx.violation('presence/null/bool test: implementation %s=%s, specification %s' % (f, i, m), [c])
    for c in cs.cases[:: max(1, len(cs.cases) // 8)]:
        ctx.sample(c, res)


def spec_violations(ctx, what):
    """for outcome-fixing properties the proved model is the specification:
    a disagreement on an in-scope input is a failing input of the property"""
    for (c, f, i, m) in ctx.mismatches:
        if f in ('model-observation', 'impl-observation', 'exception') or c.kind in ('kernel', 'src', 'harness'):
            continue
        ctx.violation('%s: implementation %s=%s, specification (proved model) %s=%s' % (what, f, i, f, m), [c])

def run_sequences(ctx, fields=('verdict', 'err'), what='outcome'):
    """scale.sequences in one process each (nshards=1): every case is compared with the proved model, which has no memory"""
    for si, seq in enumerate(scale.sequences(ctx)):
        cs_ = CaseSet()
        for (t_, o_) in seq:
            cs_.eval(t_, o_, 'sequence')
        res_ = ctx.run(cs_, label='seq%d' % si, nshards=1)
        before = len(ctx.mismatches)
        ctx.compare(cs_.cases, res_, list(fields), scope=accepted)
        for (c, f, i_, m_) in ctx.mismatches[before:]:
            if c.kind == 'eval':
                ctx.violation('in a sequence of rules evaluated one after the other in one process: implementation %s=%s, specification (proved model) %s=%s' % (f, i_, f, m_), [c])

def spread_samples(ctx, cs, res, k=8):
    for c in cs.cases[:: max(1, len(cs.cases) // k)]:
        ctx.sample(c, res)

# ----------------------------------------------------------------------------
NONNUM = [ABSENT, ('nil',), ('b', True), S('1'), S('abc'), ('m', []), ('m', [(b'a', I(1))]), ('o', 1), ('o', 9), ('o', 6), ('o', 7), ('str', b'1'), ('o', 11)]

def rand_int_text(rng):
    k = rng.choice([0, 1, 2, 3, 10, 16, 18, 19, 20, 40])
    if k == 0:
        return rng.choice(['0', '-0', '1', '-1'])
    s = str(rng.randrange(1, 10)) + ''.join(str(rng.randrange(10)) for _ in range(k - 1))
    return ('-' if rng.random() < 0.4 else '') + s

def rand_double_text(rng):
    ip = rng.choice(['0', str(rng.randrange(1, 10)) + ''.join(str(rng.randrange(10)) for _ in range(rng.choice([0, 0, 1, 3, 15, 17, 25])))])
    fp = ''.join(str(rng.randrange(10)) for _ in range(rng.choice([1, 1, 2, 5, 17, 30])))
    ex = ''
    if rng.random() < 0.4:
        ex = rng.choice('eE') + rng.choice(['', '+', '-']) + str(rng.choice([0, 1, 2, 5, 10, 22, 23, 100, 300, 308, 309, 310, 323, 324, 325, 400]))
    return ('-' if rng.random() < 0.3 else '') + ip + '.' + fp + ex

def rand_num_attr(rng, near=None):
    k = rng.randrange(8)
    if near is not None and k < 5:
        try:
            x = float(near)
        except (ValueError, OverflowError):
            x = 1.0
        if k == 0 and abs(x) < 2**62: return I(int(x))
        if k == 1 and abs(x) < 2**62: return I(int(x) + rng.choice([-1, 1]))
        if k == 2: return F(x)
        if k == 3 and x == x and abs(x) != float('inf'):
            import math
            return F(math.nextafter(x, rng.choice([-math.inf, math.inf])))
        if abs(x) < 2**62: return ('i64', int(x))
    if k == 5: return I(rng.randrange(-2**63, 2**63))
    if k == 6: return F(struct.unpack('>d', struct.pack('>Q', rng.randrange(2**64)))[0])
    return F(rng.uniform(-10, 10))

def near_tie_literals(rng, n):
    """(literal text, v, next float64 above v): decimal texts exactly at, just above and just below the midpoint of v and its successor"""
    import decimal, math
    from fractions import Fraction
    decimal.getcontext().prec = 1400
    vals = [1.0, 0.1, 0.3, 1.5, 2.0 ** 52, 123456.789, 1e-5, 5e-324 * 2 ** 60, 0.5, 3.0, 1e15, 7.0e-10, 2.0 ** -30, 9007199254740991.0]
    while len(vals) < n:
        vals.append(rng.choice([1, 10, 1000, 1e-3, 1e6]) * (1 + rng.random()))
    out = []
    for v in vals[:n]:
        hi = math.nextafter(v, math.inf)
        mid = (Fraction(v) + Fraction(hi)) / 2
        d = decimal.Decimal(mid.numerator) / decimal.Decimal(mid.denominator)
        t = format(d, 'f')
        if '.' not in t:
            t += '.0'
        if len(t) > 700:
            continue
        out.append((t, v, hi))
        out.append((t + '0001', v, hi))
        out.append((t + '0000000000000000000000000000000000000001', v, hi))
        # just below: the last digit decreased, a run of nines appended
        i = len(t) - 1
        while i >= 0 and t[i] in '0.':
            i -= 1
        if i >= 0:
            out.append((t[:i] + str(int(t[i]) - 1) + t[i + 1:].replace('0', '9') + '9999', v, hi))
    return out

def check_C03(ctx):
    cs = CaseSet()
    for (t, o) in CORPUS:
        cs.eval(t, o, 'corpus')
    lits = [('long', l) for l in LONG_LITS] + [('double', d) for d in DOUBLE_LITS]
    fam_leaf_exh(cs, ctx.rng, ops=REL, literals=lits, attrs=INT_ATTRS + FLOAT_ATTRS + NONNUM, fam='num-pool')
    # random literals with attributes near them, inside compounds too
    for _ in range(ctx.n(1500, 60000)):
        if ctx.rng.random() < 0.5:
            lit = ('long', rand_int_text(ctx.rng))
        else:
            lit = ('double', rand_double_text(ctx.rng))
        a = rand_num_attr(ctx.rng, lit[1])
        op = ctx.rng.choice(REL)
        text = 'x ' + ctx.rng.choice(OP_SPELL[op]) + ' ' + lit[1]
        if ctx.rng.random() < 0.2:
            text = ctx.rng.choice(['k eq 1 and %s', '%s or k eq 2', 'not (not (%s))', '(%s)']) % text
        cs.eval(text, ('m', [(b'x', a), (b'k', I(1))]), 'num-random', attr=a, lit=lit, op=op)
    # decimal literals of 40 ... 110 digits at and next to the half-way point between two neighbouring float64 values (a literal that is cut
    # off or rounded twice lands on the wrong side), and whole-valued positional decimals beyond the int64 range
    ties = near_tie_literals(ctx.rng, ctx.n(12, 120))
    for (lit_, lo_, hi_) in ties:
        for a in (F(lo_), F(hi_)):
            for op in REL:
                cs.eval('x %s %s' % (OP_SPELL[op][0], lit_), obj({'x': a}), 'num-near-tie', attr=a, lit=('double', lit_), op=op)
        cs.simple('pfloat', hx(lit_), 'pfloat-near-tie')
    for lit_ in ['100000000000000000000.0', '18446744073709551616.00', '9223372036854775808.0', '-9223372036854775809.0', '9223372036854775807.0', '-9223372036854775808.0',
                 '99999999999999999999999.000', '36893488147419103232.0', '10000000000000000000.0', '-100000000000000000000.00']:
        for a in (F(1e19), F(float(2**63)), F(1e20), F(-1e20), F(-float(2**63)), F(float(2**64)), F(9.223372036854775e18), F(1e23), I(5), I(-5)):
            for op in REL:
                cs.eval('x %s %s' % (OP_SPELL[op][0], lit_), obj({'x': a}), 'num-whole-decimal', attr=a, lit=('double', lit_), op=op)
        cs.simple('pfloat', hx(lit_), 'pfloat-whole-decimal')
    # the literal parsers of the model against strconv directly
    for d in DOUBLE_LITS:
        cs.simple('pfloat', hx(d), 'pfloat-pool')
    for _ in range(ctx.n(1500, 60000)):
        cs.simple('pfloat', hx(rand_double_text(ctx.rng)), 'pfloat-random')
    for l in LONG_LITS:
        cs.simple('pint', hx(l), 'pint-pool')
    for _ in range(ctx.n(300, 5000)):
        cs.simple('pint', hx(rand_int_text(ctx.rng)), 'pint-random')
    for a in INT_ATTRS:
        cs.simple('i2f', str(a[1]), 'i2f-pool')
    for _ in range(ctx.n(500, 20000)):
        z = ctx.rng.randrange(-2**63, 2**63) >> ctx.rng.choice([0, 0, 5, 9, 10, 11, 12, 30])
        cs.simple('i2f', str(z), 'i2f-random')
    # one evaluator, consecutive calls with values that fall together when they are pushed through a float64 (or through 32 bits)
    hist_ = []
    for lit_ in ['9007199254740993', '9007199254740992', '9223372036854775807', '-9223372036854775808', '4294967296', '1', '9007199254740993.0']:
        for vals_ in ([I(2**53), I(2**53 + 1), I(2**53 + 2), I(2**53)], [I(2**53 + 1), I(2**53)], [('i64', 2**53 + 1), ('i64', 2**53), I(2**53 + 1)], [I(2**63 - 1), I(2**63 - 2), I(2**63 - 1)],
                      [I(-2**63), I(-2**63 + 1)], [I(2**32), I(0), ('i32', 0), I(2**32 + 1)], [I(1), F(1.0), F(1.0000000000000002), I(1)], [F(float(2**53)), I(2**53 + 1), F(float(2**53))]):
            for op_ in ('eq', 'lt', 'ge', 'ne'):
                hist_.append(cs.hist('x %s %s' % (op_, lit_), [('p', obj({'x': v_})) for v_ in vals_] + [('d',)], 'num-consecutive'))
    res = ctx.run(cs)
    ctx.compare(hist_, res, ['out'])
    ev = [c for c in cs.cases if c.kind == 'eval']
    def in_c03(c, mo, io=None):
        """the statement restricts integers compared across the int / float64 divide to |n| <= 2^53"""
        if mo.get('accept') != '1':
            return False
        a, lit = c.meta.get('attr'), c.meta.get('lit')
        if not a or not lit or a == ABSENT:
            return True
        try:
            if a[0] == 'f' and lit[0] == 'long':
                return abs(int(lit[1])) <= 2**53
            if a[0] in ('i', 'i32', 'i64') and lit[0] == 'double':
                return abs(a[1]) <= 2**53
        except (ValueError, TypeError):
            pass
        return True
    ctx.compare(ev, res, ['verdict', 'err'], scope=in_c03)
    spec_violations(ctx, 'numeric comparison')
    n0 = len(ctx.mismatches)
    ctx.compare([c for c in cs.cases if c.kind in ('pfloat', 'i2f')], res, ['f'])
    ctx.compare([c for c in cs.cases if c.kind == 'pint'], res, ['i'])
    if len(ctx.mismatches) > n0:
        ctx.notes.append('literal conversion of the model (parse_float / parse_int / f64_of_Z) differs from strconv / Go conversion')
    ctx.extra['exhaustive_part'] = 'num-pool: 6 operators x %d literals x %d attribute values' % (len(lits), len(INT_ATTRS + FLOAT_ATTRS + NONNUM))
    spread_samples(ctx, cs, res)

# ----------------------------------------------------------------------------
STR_OPS = ['EQ', 'NE', 'GT', 'LT', 'GE', 'LE', 'CO', 'SW', 'EW']
ALPHA = ['a', 'b', 'A', 'B', 'c', ' ', 'É', 'é', 'ß', 'Σ', 'σ', 'ς', 'İ', 'ı', 'K', 'k', 'K', 'Ǆ', 'ǅ', 'ǆ', '日', '1', '.', '-', '_']

def rand_str(rng, maxlen=6):
    return ''.join(rng.choice(ALPHA) for _ in range(rng.randrange(maxlen + 1)))

def go_lower_table():
    """cp -> unicode.ToLower(cp) of the toolchain in use (coq/LowerGen.v, regenerated by build.sh), and its inverse"""
    low, up = {}, {}
    for line in open(os.path.join(VERIF, 'coq', 'LowerGen.v'), encoding='utf-8'):
        line = line.strip().rstrip(';').rstrip('].')
        if line.startswith('('):
            try:
                a, b = line.strip('()').split(',')
                low[int(a)] = int(b)
                up.setdefault(int(b), []).append(int(a))
            except ValueError:
                pass
    return low, up

def case_variant(rng, text, up):
    """a text that lower-cases to the same text as [text] does: every character replaced, or not, by one of its capitals"""
    out = []
    for ch in text:
        cands = [ord(ch)] + up.get(ord(ch), [])
        out.append(chr(rng.choice(cands)) if rng.random() < 0.6 else ch)
    return ''.join(out)

def check_C04(ctx):
    cs = CaseSet()
    for (t_, o_, fam_) in scale.self_reference_literals(ctx):
        cs.eval(t_, o_, fam_)
    lits = [('string', s) for s in STR_LITS]
    nonstr = [ABSENT, ('nil',), ('b', True), I(1), F(1.5), ('m', []), ('o', 1), ('o', 8), ('o', 13), ('o', 17)]
    fam_leaf_exh(cs, ctx.rng, ops=STR_OPS, literals=lits, attrs=STR_ATTRS + STRINGER_ATTRS + nonstr, fam='str-pool')
    # every other Go type the driver can build (values whose String is on the pointer type, parsed versions, typed nils, ...): never a string
    fam_leaf_exh(cs, ctx.rng, ops=STR_OPS, literals=[('string', x) for x in ('abc', '1.0.0', '', '{abc}', '[a b]', 'map[]', '<nil>')], attrs=OTHER_TYPED, fam='str-other-typed')
    for _ in range(ctx.n(2500, 90000)):
        lit = rand_str(ctx.rng, 4)
        r = ctx.rng.random()
        if r < 0.3:
            a = rand_str(ctx.rng, 2) + ctx.rng.choice([lit, lit.upper(), lit.lower(), lit.swapcase()]) + rand_str(ctx.rng, 2)
        elif r < 0.4:
            a = lit.swapcase()
        else:
            a = rand_str(ctx.rng)
        av = S(a) if ctx.rng.random() < 0.85 else ('str', a.encode())
        if ctx.rng.random() < 0.05:
            av = S(a.encode() + bytes([ctx.rng.randrange(128, 256)]))
        op = ctx.rng.choice(STR_OPS)
        cs.eval('x %s "%s"' % (ctx.rng.choice(OP_SPELL[op]), lit), ('m', [(b'x', av)]), 'str-random', attr=av, lit=('string', lit), op=op)
    # case-insensitivity over the whole case-mapping table: lower-case texts drawn from the letters that have capitals whose
    # UTF-8 length differs, that have several capitals, or that fold to other letters; attribute / literal = capitalised variants
    low, up = go_lower_table()
    special = sorted(l for l, us in up.items() if len(us) > 1 or any(len(chr(u).encode('utf-8', 'surrogatepass')) != len(chr(l).encode('utf-8', 'surrogatepass')) for u in us))
    special += [0x17f, 0x3c2, 0x3d1, 0x3d0, 0x3f0, 0x3f1, 0x3f5, 0x1e9b, 0xb5, 0x131, 0xdf]      # fold-orbit letters that are already lower case
    letters = [chr(c) for c in special if chr(c) not in '"\\'] + list('abkis')
    for _ in range(ctx.n(1500, 40000)):
        base = ''.join(ctx.rng.choice(letters) for _ in range(ctx.rng.randint(1, 4)))
        lit = case_variant(ctx.rng, base, up)
        r = ctx.rng.random()
        if r < 0.5:
            a = case_variant(ctx.rng, base, up)
        elif r < 0.8:
            a = case_variant(ctx.rng, ctx.rng.choice(['', 'a', 'ab']) + base + ctx.rng.choice(['', 'b', 'ab']), up)
        else:
            a = case_variant(ctx.rng, ''.join(ctx.rng.choice(letters) for _ in range(ctx.rng.randint(0, 4))), up)
        op = ctx.rng.choice(STR_OPS)
        av = S(a)
        cs.eval('x %s "%s"' % (ctx.rng.choice(OP_SPELL[op]), lit), ('m', [(b'x', av)]), 'str-casemap', attr=av, lit=('string', lit), op=op)
    # strings.ToLower of the model (generated table + Map model) against the real one: every mapped code point
    import importlib
    pairs = []
    for line in open(os.path.join(VERIF, 'coq', 'LowerGen.v'), encoding='utf-8'):
        line = line.strip().rstrip(';').rstrip('].')
        if line.startswith('('):
            try:
                a, b = line.strip('()').split(',')
                pairs.append(int(a))
            except ValueError:
                pass
    chunk = []
    for cp in pairs + [0x41, 0x5a, 0x130, 0x3a3, 0xfffd, 0x10ffff, 0xd7ff, 0xe000]:
        chunk.append(cp)
        if len(chunk) == 16:
            cs.simple('lower', hx(''.join(chr(c) for c in chunk).encode('utf-8', 'surrogatepass')), 'lower-table')
            chunk = []
    if chunk:
        cs.simple('lower', hx(''.join(chr(c) for c in chunk).encode('utf-8')), 'lower-table')
    for _ in range(ctx.n(200, 5000)):
        b = bytes(ctx.rng.choice([97, 90, 0xc3, 0x89, 0xe2, 0x84, 0xaa, 0xff, 0xed, 0xa0, 0x80, 0xf0, 0x90, 0x90, 0x80, 32]) for _ in range(ctx.rng.randrange(12)))
        cs.simple('lower', hx(b), 'lower-bytes')
    # size and shape beyond small random rules (harness/scale.py)
    for (t_, o_, fam_, *_m) in scale.long_strings(ctx):
        cs.eval(t_, o_, fam_)
    res = ctx.run(cs)
    ev = [c for c in cs.cases if c.kind == 'eval']
    ctx.compare(ev, res, ['verdict', 'err'], scope=accepted)
    spec_violations(ctx, 'string comparison')
    # the same comparisons in processes whose environment names a locale with special casing rules (Turkish, Azeri, Lithuanian): Unicode
    # lower-casing does not depend on the environment
    loc_cases = [c for c in ev if c.fam in ('str-pool', 'leaf-exh', 'casemap', 'case-variants')][:: ctx.n(5, 1)] + [c for c in ev if c.fam not in ('str-pool', 'leaf-exh')][:: ctx.n(9, 2)]
    for loc in ('tr_TR.UTF-8', 'az_AZ.UTF-8', 'lt_LT.UTF-8'):
        r2 = run_cases(loc_cases, ctx.work, label='locale-' + loc[:2], sides=('impl',), impl_env={'LANG': loc, 'LC_ALL': loc, 'LC_CTYPE': loc, 'LANGUAGE': loc[:2]})
        ctx.evaluations += len(loc_cases)
        for c in loc_cases:
            a, b = res.impl.get(c.id), r2.impl.get(c.id)
            if a and b and (a.get('verdict'), a.get('err')) != (b.get('verdict'), b.get('err')):
                ctx.violation('the outcome depends on the locale named in the environment of the process (%s): %s/%s there, %s/%s otherwise' % (loc, b.get('verdict'), b.get('err'), a.get('verdict'), a.get('err')), [c], impl=b)
    ctx.compare([c for c in cs.cases if c.kind == 'lower'], res, ['lower'])
    ctx.extra['oracle_misses'] = 0
    spread_samples(ctx, cs, res)

# ----------------------------------------------------------------------------
def rand_version(rng, valid=True):
    comp = lambda: str(rng.choice([0, 1, 2, 9, 10, 11, 99, 100, rng.randrange(2**64)]))
    s = '.'.join(comp() for _ in range(3))
    if rng.random() < 0.5:
        ids = []
        for _ in range(rng.randint(1, 3)):
            ids.append(rng.choice(['alpha', 'beta', 'rc', '1', '2', '10', '0', 'x-y', 'a1', '1a', 'A', 'b']))
        s += '-' + '.'.join(ids)
    if rng.random() < 0.3:
        s += '+' + '.'.join(rng.choice(['build', '5', 'sha', '001', 'a-b']) for _ in range(rng.randint(1, 2)))
    if not valid:
        k = rng.randrange(8)
        if k == 0: s = 'v' + s
        elif k == 1: s = s.rsplit('.', 1)[0] if s.count('.') >= 2 else s
        elif k == 2: s = s + '.'
        elif k == 3: s = '0' + s
        elif k == 4: s = s + '-'
        elif k == 5: s = s.replace('.', '..', 1)
        elif k == 6: s = s + '+'
        else: s = s + rng.choice(['_', ' ', 'É', '-01', '+b_c'])
    return s

def check_C09(ctx):
    cs = CaseSet()
    lits = [('version', v) for v in VER_LITS]
    other = [ABSENT, ('nil',), ('b', True), I(1), F(1.0), ('m', []), ('o', 17), ('str', b'1.0.0'), ('strptr', b'1.0.0'), ('strpanic',), ('o', 8)]
    fam_leaf_exh(cs, ctx.rng, ops=REL, literals=lits, attrs=VER_ATTRS + other, fam='ver-pool')
    for (a_, l_) in scale.version_boundaries(ctx):
        for op in REL:
            cs.eval('x %s %s' % (OP_SPELL[op][0], l_), obj({'x': S(a_)}), 'ver-boundaries', attr=S(a_), lit=('version', l_), op=op)
    fam_leaf_exh(cs, ctx.rng, ops=REL, literals=[('version', x) for x in ('1.0.0', '1.0.1', '0.9.0')], attrs=OTHER_TYPED + [('strver', b'1.0.0'), ('strverptr', b'1.0.0'), ('strver', b'1.0.1'), ('strver', b'0.9.0')], fam='ver-other-typed')
    for _ in range(ctx.n(2500, 80000)):
        lit = '.'.join(str(ctx.rng.choice([0, 1, 2, 9, 10, 11, 99, 100, 2**64 - 1, 2**64])) for _ in range(3))
        r = ctx.rng.random()
        if r < 0.3:
            a = lit + ctx.rng.choice(['', '-beta', '-1', '+b', '-rc.1', '-alpha.beta', '-0'])
        else:
            a = rand_version(ctx.rng, valid=ctx.rng.random() < 0.75)
        op = ctx.rng.choice(REL)
        cs.eval('x %s %s' % (ctx.rng.choice(OP_SPELL[op]), lit), ('m', [(b'x', S(a))]), 'ver-random', attr=S(a), lit=('version', lit), op=op)
    for v in [a[1] for a in VER_ATTRS]:
        cs.simple('semver', hx(v), 'semver-pool')
    for _ in range(ctx.n(1000, 30000)):
        cs.simple('semver', hx(rand_version(ctx.rng, valid=ctx.rng.random() < 0.5)), 'semver-random')
    # size and shape beyond small random rules (harness/scale.py)
    for (t_, o_, fam_, *_m) in scale.big_versions(ctx):
        cs.eval(t_, o_, fam_)
    # two and more version comparisons in one rule, over the same or over equal texts
    for a_ in VER_ATTRS + [ABSENT, I(1)]:
        o_ = mk_obj(['x'], a_, extra={'y': a_} if a_ != ABSENT else {})
        for t_ in ['x gt 2.0.0 or x lt 1.0.0', 'x eq 1.0.0 or x ne 1.0.0', 'x lt 1.0.0 or y ge 1.0.0', 'x ne 1.0.0 and y ne 1.0.0', 'x ge 0.0.0 or y ge 0.0.0 or x lt 0.0.0',
                   'not (x eq 1.0.0) and not (x ne 1.0.0)', 'x gt 1.0.0 or y gt 1.0.0-alpha or x eq 1.0.0']:
            cs.eval(t_, o_, 'ver-compound', attr=a_)
    res = ctx.run(cs)
    ev = [c for c in cs.cases if c.kind == 'eval']
    ctx.compare(ev, res, ['verdict', 'err'], scope=accepted)
    spec_violations(ctx, 'version comparison')
    ctx.compare([c for c in cs.cases if c.kind == 'semver'], res, ['ok'])
    # the Gallina port is of this source file
    try:
        import subprocess as sp
        env = dict(os.environ, GOFLAGS='-mod=mod', GOPROXY='off', GOSUMDB='off', GOTOOLCHAIN='local')
        d = sp.run(['go', 'list', '-m', '-f', '{{.Dir}}', 'github.com/blang/semver'], cwd=os.path.join(VERIF, 'driver'), env=env, stdout=sp.PIPE, stderr=sp.PIPE, timeout=120).stdout.decode().strip()
        h = hashlib.sha256(open(os.path.join(d, 'semver.go'), 'rb').read()).hexdigest()
        ctx.extra['semver_go_sha256'] = h
        if h != SEMVER_SHA:
            ctx.mismatches.append((Case('semver-src', 'src', '(semver.go sha256 %s)' % h, 'source'), 'semver.go sha256', h, SEMVER_SHA))
            ctx.notes.append('the semver library resolved by go.mod is not the file Semver.v was ported from')
    except Exception as e:
        ctx.notes.append('could not hash semver.go: %r' % e)
    spread_samples(ctx, cs, res)

SEMVER_SHA = '6c33b913dd6c875e5f526b385f319b9d8b7d881ce25e41ed98da530f482fde61'

CHECKS = {'C14': check_C14, 'C10': check_C10, 'C03': check_C03, 'C04': check_C04, 'C09': check_C09}

# ----------------------------------------------------------------------------
def expand_in(path, lit):
    """p in [v1..vn]  ->  p eq v1 or ... or p eq vn"""
    kind = {'ints': 'long', 'doubles': 'double', 'strings': 'string'}[lit[0]]
    q = None
    for v in lit[1]:
        leaf = ('cmp', path, 'EQ', (kind, v))
        q = leaf if q is None else ('logic', 'or', q, leaf)
    return q

def check_C08(ctx):
    cs = CaseSet()
    groups = []   # (in-case, expanded-case, [variant cases])
    lists = [('ints', l) for l in INTS_LITS if '9223372036854775808' not in l] + \
            [('doubles', l) for l in DOUBLES_LITS if not any('e999' in e for e in l)] + [('strings', l) for l in STRINGS_LITS]
    attrs = INT_ATTRS + FLOAT_ATTRS + STR_ATTRS + STRINGER_ATTRS[:5] + [ABSENT, ('nil',), ('b', True), ('m', []), ('o', 1), ('o', 9)]
    def add_group(lit, a, fam, path=['x'], ctxfmt='%s'):
        o = mk_obj(path, a, extra={'k': I(1)})
        st = Style(ctx.rng)
        c_in = cs.eval(ctxfmt % render(('cmp', path, 'IN', lit), st), o, fam, attr=a, lit=lit)
        c_eq = cs.eval(ctxfmt % ('(' + render(expand_in(path, lit)) + ')'), o, fam + '-expanded', attr=a, lit=lit)
        vs = []
        perm = list(lit[1]); ctx.rng.shuffle(perm)
        dup = perm + [ctx.rng.choice(perm)]
        for l2 in (perm, dup, list(reversed(lit[1]))):
            vs.append(cs.eval(ctxfmt % render(('cmp', path, 'IN', (lit[0], l2)), Style(ctx.rng)), o, fam + '-perm', attr=a, lit=(lit[0], l2)))
        groups.append((c_in, c_eq, vs))
    for lit in lists:
        for a in attrs:
            add_group(lit, a, 'in-pool')
    for _ in range(ctx.n(600, 20000)):
        k = ctx.rng.choice(['ints', 'doubles', 'strings'])
        n = ctx.rng.choice([1, 2, 3, 4, 5, 8, 9, 12, 17])
        if k == 'ints':
            l = [str(ctx.rng.choice([0, 1, 2, 3, 4, 5, 6, 7, 9, 12, 19, 21, 40, 64, 88, 100, 2**53, 2**53 + 1, 2**63 - 1])) for _ in range(n)]
            a = ctx.rng.choice([I(int(ctx.rng.choice(l))), F(float(ctx.rng.choice(l))), ('i32', ctx.rng.choice([0, 1, 2, 5, 7])), ('i64', int(ctx.rng.choice(l))), F(1.5), I(3), S('1')])
        elif k == 'doubles':
            l = [ctx.rng.choice(['0.5', '1.0', '1.5', '2.0', '2.50', '100.25', '1.0e2', '0.1', '3.5', '7.25', '19.0', '40.5', '64.0', '88.0']) for _ in range(n)]
            a = ctx.rng.choice([F(float(ctx.rng.choice(l))), I(1), I(2), I(100), F(0.3), ('i64', 1), S('1.5')])
        else:
            l = [rand_str(ctx.rng, 3) for _ in range(n)]
            pick = ctx.rng.choice(l)
            a = ctx.rng.choice([S(pick), S(pick.swapcase()), S(pick + 'x'), ('str', pick.upper().encode()), I(1), S(rand_str(ctx.rng, 3))])
        fmt = ctx.rng.choice(['%s', '%s', 'k eq 1 and %s', '%s or k eq 2', 'not (%s)', 'k in [3,4] or %s', '%s and k in [1]', 'q in ["z"] or %s'])
        add_group((k, l), a, 'in-random', path=ctx.rng.choice([['x'], ['n', 'x']]), ctxfmt=fmt)
    # string membership over the whole case-mapping table: elements / attribute = capitalised variants of one lower-case text
    low_, up_ = go_lower_table()
    special_ = sorted(l for l, us in up_.items() if len(us) > 1 or any(len(chr(u).encode('utf-8', 'surrogatepass')) != len(chr(l).encode('utf-8', 'surrogatepass')) for u in us))
    letters_ = [chr(c) for c in special_ + [0x17f, 0x3c2, 0x3d1, 0x3d0, 0x3f0, 0x3f1, 0x3f5, 0x1e9b, 0xb5, 0x131, 0xdf] if chr(c) not in '"\\'] + list('abkis')
    for _ in range(ctx.n(300, 8000)):
        n = ctx.rng.choice([1, 2, 3, 5])
        bases = [''.join(ctx.rng.choice(letters_) for _ in range(ctx.rng.randint(1, 4))) for _ in range(n)]
        l = [case_variant(ctx.rng, b, up_) for b in bases]
        a = S(case_variant(ctx.rng, ctx.rng.choice(bases), up_)) if ctx.rng.random() < 0.8 else S(case_variant(ctx.rng, ctx.rng.choice(bases) + 'x', up_))
        add_group(('strings', l), a, 'in-casemap')
    # size and shape beyond small random rules (harness/scale.py)
    for (t_, o_, fam_, *_m) in scale.long_lists(ctx):
        cs.eval(t_, o_, fam_)
    for (t_, o_, fam_, *_m) in scale.separator_strings(ctx):
        cs.eval(t_, o_, fam_)
    for (t_, o_, fam_, *_m) in scale.escaped_list_elements(ctx):
        cs.eval(t_, o_, fam_)
    for (t_, o_, fam_, *_m) in scale.printing_alike(ctx):
        cs.eval(t_, o_, fam_)
    # integer elements beyond int64, also where a hand-written digit loop would wrap back into range
    for el_ in ['9223372036854775808', '18446744073709551615', '18446744073709551616', '18446744073709551617', '18446744073709551621', '27670116110564327423', '27670116110564327424', '36893488147419103232', '99999999999999999999', '184467440737095516160']:
        for a_ in (I(0), I(5), I(1), I(-2**63), I(2**63 - 1), F(0.0), ABSENT):
            o_ = obj({}) if a_ is ABSENT else obj({'a': a_})
            cs.eval('a in [5, %s]' % el_, o_, 'int-overflow-lists')
            cs.eval('a in [%s]' % el_, o_, 'int-overflow-lists')
            cs.eval('a eq 5 or a eq %s' % el_, o_, 'int-overflow-lists')
    hist8 = []
    for text_ in ['x in ["abc", "q"]', 'x in ["ABC"] or x in ["zz"]', 'not (x in ["xyz", "q"])']:
        for seq_ in (['abc', 'xyz', 'abc'], ['xyz', 'abc', 'q'], ['q', 'Abc', 'xyz']):
            hist8.append(cs.hist(text_, [('p', obj({'x': ('strkeep', v_.encode())})) for v_ in seq_] + [('d',)], 'in-kept-pointer'))
            hist8.append(cs.hist(text_.replace('x in ["abc", "q"]', 'x eq "abc" or x eq "q"').replace('x in ["ABC"] or x in ["zz"]', 'x eq "ABC" or x eq "zz"').replace('x in ["xyz", "q"]', 'x eq "xyz" or x eq "q"'),
                                 [('p', obj({'x': ('strkeep', v_.encode())})) for v_ in seq_] + [('d',)], 'in-kept-pointer'))
    # elements beyond the float64 range next to infinite attributes: the list fails like the scalar literal does (both against the model)
    for (tin_, teq_, o_) in scale.inf_lists(ctx):
        cs.eval(tin_, o_, 'inf-lists')
        cs.eval(teq_, o_, 'inf-lists')
    for n_ in ([4097] if ctx.quick else [4097, 10000, 65537]):
        big_ = 'x in [%s]' % ', '.join(str(i_ * 2) for i_ in range(n_))
        for a_ in (I(2 * (n_ - 1)), I(1), F(2.0), F(2.5), I(0), ABSENT):
            cs.eval(big_, obj({'x': a_}) if a_ is not ABSENT else obj({}), 'long-list')
    res = ctx.run(cs)
    ctx.compare([c for c in cs.cases if c.kind != 'hist'], res, ['verdict', 'err'], scope=accepted)
    ctx.compare(hist8, res, ['out'])
    for i_ in range(0, len(hist8), 2):
        a_, b_ = res.impl.get(hist8[i_].id), res.impl.get(hist8[i_ + 1].id)
        if a_ and b_ and a_.get('out') != b_.get('out'):
            ctx.violation('`in` on one pointer-typed Stringer whose text changes between calls differs from its eq-disjunction: %s vs %s' % (a_.get('out'), b_.get('out')), [hist8[i_], hist8[i_ + 1]])
    for c_in, c_eq, vs in groups:
        a, b = res.impl.get(c_in.id), res.impl.get(c_eq.id)
        if not a or not b:
            continue
        if outcome(a) != outcome(b):
            ctx.violation('`in` differs from its eq-disjunction: %s vs %s' % (outcome(a), outcome(b)), [c_in, c_eq])
        for v in vs:
            x = res.impl.get(v.id)
            if x and outcome(x) != outcome(a):
                ctx.violation('`in` depends on order/repetition of the list: %s vs %s' % (outcome(a), outcome(x)), [c_in, v])
    if ctx.mismatches and not ctx.violations:
        spec_violations(ctx, 'list membership')
    spread_samples(ctx, cs, res)

# ----------------------------------------------------------------------------
def fail_compounds(ctx, cs, n, fam='shape-fail'):
    """random compounds whose leaves may be unsupported-operator comparisons; objects decide what is reached"""
    out = []
    for _ in range(n):
        k = ctx.rng.randint(1, 6)
        q, info = random_query(ctx.rng, k, lambda: typed_leaf(ctx.rng, allow_fail=True))
        text = render(q, Style(ctx.rng) if ctx.rng.random() < 0.3 else Style())
        for _ in range(2):
            o = object_for(ctx.rng, info)
            # now and then a hostile Stringer where a string leaf would read it
            if ctx.rng.random() < 0.15 and info:
                leaf = ctx.rng.choice(info)[0]
                if len(leaf[1]) == 1:
                    o = ('m', [(k_, v) for (k_, v) in o[1] if k_ != leaf[1][0].encode()] + [(leaf[1][0].encode(), ('strpanic',))])
            out.append(cs.eval(text, o, fam, q=q))
    return out

def check_C06(ctx):
    cs = CaseSet()
    for (t, o) in CORPUS:
        cs.eval(t, o, 'corpus')
    fam_leaf_exh(cs, ctx.rng, stride=ctx.n(3, 1))
    fail_compounds(ctx, cs, ctx.n(1500, 40000))
    # sticky failure: something after the first failing comparison
    tails = ['b le "bc" or k in [1]', 'b eq 99999999999999999999', 'k in [1.5]', 'k in ["s"]', 'c co 1', 'k eq 1', 'd in [99999999999999999999]', 'e in [1.0e999]']
    heads = ['a gt null', 'a co 1', 'a in true', 'a sw 1.0.0', 'a in 1.0.0', 'a ew 1.5', 'a lt false', 'a co [1,2]']
    for h in heads:
        for t in tails:
            for fmt in ['%s or %s', 'not (%s) and %s', '(%s or %s) or z pr', '%s or (%s and z pr)', 'k eq 2 or %s or %s', 'k eq 1 and %s and %s']:
                for o in (obj({}), obj({'k': I(1), 'a': I(1), 'b': S('x')}), obj({'a': ('nil',), 'k': I(1)})):
                    cs.eval(fmt % (h, t), o, 'sticky')
    # attribute values whose String() panics with the library's own sentinel error (or an error wrapping it): the rule has no unsupported
    # comparison, so whatever Process returns is not ErrInvalidOperation
    fam_other_typed(cs, ctx.rng)
    for a_ in (('strpanicinvop',), ('strpanicinvopw',), ('strpanic',)):
        for t_ in ['plan eq "free" or owner pr', 'plan co "x"', 'k eq 1 and plan sw "f"', 'plan in ["free", "pro"]', 'not (plan eq "free")', 'owner pr and plan ne "x"', 'plan eq "free" or k gt null']:
            cs.eval(t_, obj({'plan': a_, 'owner': I(1), 'k': I(1)}), 'sentinel-panic')
    # size and shape beyond small random rules (harness/scale.py)
    for (t_, o_, fam_, *_m) in scale.long_fail_chains(ctx):
        cs.eval(t_, o_, fam_)
    for (t_, o_, fam_, *_m) in scale.long_chains(ctx):
        cs.eval(t_, o_, fam_)
    for (t_, o_, fam_, *_m) in scale.guard_patterns(ctx):
        cs.eval(t_, o_, fam_)
    hist6 = []
    for text_ in ['kind eq "user" and \nowner gt null', 'kind eq "user" and owner gt null', 'kind eq "user" and \n\nowner co 1 or k eq 1', 'owner gt null or kind eq "user"', 'not (kind eq "group") and \nowner in true']:
        ou_, og_ = obj({'kind': S('user'), 'k': I(1)}), obj({'kind': S('group'), 'k': I(1)})
        for ops in ([('p', ou_), ('p', og_), ('p', ou_), ('d',)], [('p', og_), ('p', ou_), ('p', og_), ('d',)], [('p', ou_), ('r',), ('p', og_), ('d',)]):
            hist6.append(cs.hist(text_, ops, 'fail-then-unreached'))
    res = ctx.run(cs)
    ctx.compare([c for c in cs.cases if c.kind != 'hist'], res, ['verdict', 'err'], scope=accepted)
    ctx.compare(hist6, res, ['out'])
    run_sequences(ctx)
    spec_violations(ctx, 'failure/verdict')
    # the error of the root entry point rules.Evaluate is ErrInvalidOperation exactly when the error of Process is
    for c in cs.cases:
        io = res.impl.get(c.id)
        if c.kind == 'hist':
            continue
        if io and io.get('rerr') not in (None, io.get('err')):
            ctx.violation('rules.Evaluate returns an error of class %s where NewEvaluator+Process return %s (errors.Is(err, ErrInvalidOperation) differs between the entry points)' % (io.get('rerr'), io.get('err')), [c], impl=io)
    ctx.exhaustive = ctx.tier != 'quick'
    spread_samples(ctx, cs, res)

T_RULES = ['x eq 1', 'a eq 1', 'x in [1, 2] or y in [3, 99999999999999999999]', 'x in ["u", "v"] or y in [3, 99999999999999999999]',
           'a eq 1 or b.c eq 2', 'a eq 1 and b.c eq 2', 'a eq "s" or b.c pr', 'x in [1.5, 1.0e999] or y in [2.5]',
           'a gt null or a eq 1', 'not (a co 1) and b eq 2', 'a eq 1.0.0 or b in ["p","q"]', 'a.b.c eq 1 or a.b eq 2 or a eq 3',
           'k eq 99999999999999999999 or x in [1]', 'x in [1] and k eq 99999999999999999999', 's sw "a" or t in ["a"] or u in [1]',
           'x eq 01', 'x eq 1 AND y eq 2']
T_OBJS = [obj({}), obj({'x': I(9)}), obj({'x': I(1)}), obj({'x': I(2)}), obj({'a': S('s')}), obj({'a': I(2)}), obj({'x': I(3), 'y': I(3)}), obj({'x': S('u')}), obj({'a': I(1)}), obj({'b': I(5)}),
          obj({'b': {'c': I(2)}}), obj({'a': ('strpanic',), 'b': S('p')}), obj({'a': {'b': {'c': I(1)}}}), obj({'a': {'b': I(2)}}),
          obj({'y': I(3), 'x': F(1.5)}), obj({'s': ('strpanic',), 't': S('a'), 'u': I(1)}), obj({'a': S('1.0.0'), 'b': S('Q')}),
          obj({'k': I(1), 'x': I(1)}), obj({'a': I(3), 'b': I(2)}), ('nilmap',)]

def check_C16(ctx):
    cs = CaseSet()
    for (t, o) in CORPUS:
        cs.eval(t, o, 'corpus')
    fam_leaf_exh(cs, ctx.rng, stride=ctx.n(2, 1))
    fam_other_typed(cs, ctx.rng)
    fam_pr_exh(cs, ctx.rng)
    fail_compounds(ctx, cs, ctx.n(1500, 40000), fam='shape-reached')
    for path in (['n', 'x'], ['n', 'y', 'z']):
        for a in [ABSENT, ('nil',), I(1), S('a'), ('b', True), F(1.5), S('1.0.0')]:
            for o in nested_variants(path, a):
                for lit in ['1', '1.5', '"a"', 'true', 'null', '1.0.0', '[1]', '["a"]', '[1.5]']:
                    for op in ['eq', 'le', 'in', 'co']:
                        cs.eval('%s %s %s' % ('.'.join(path), op, lit), o, 'nested-dbg')
    # the diagnostic belongs to the LATEST call: reused evaluators, an undecided call followed by a decided one and v.v.
    hs = []
    for text in T_RULES:
        for o1 in T_OBJS:
            for o2 in T_OBJS:
                if ctx.rng.random() < ctx.n(0.3, 1.0):
                    ops = [('p', o1), ('d',), ('p', o2), ('d',)] + ([('p', o1), ('d',)] if ctx.rng.random() < 0.3 else [])
                    h = cs.hist(text, ops, 'reuse-dbg')
                    hs.append((h, ops, [cs.eval(text, o[1], 'reuse-fresh') if o[0] == 'p' else None for o in ops]))
    # size and shape beyond small random rules (harness/scale.py)
    for (t_, o_, fam_, *_m) in scale.many_undecided(ctx):
        cs.eval(t_, o_, fam_)
    for (t_, o_, fam_, *_m) in scale.long_fail_chains(ctx):
        cs.eval(t_, o_, fam_)
    for (t_, o_, fam_, *_m) in scale.deep_paths(ctx):
        cs.eval(t_, o_, fam_)
    for (t_, o_, fam_, *_m) in scale.guard_patterns(ctx):
        cs.eval(t_, o_, fam_)
    # lists of every length around round sizes against attributes that cannot be compared with them (the diagnostic must be there for 16
    # elements as for 15)
    for n_ in ([1, 7, 8, 15, 16, 17, 31, 32, 33, 64, 65, 128, 257] if ctx.quick else [1, 7, 8, 9, 15, 16, 17, 31, 32, 33, 63, 64, 65, 127, 128, 129, 255, 256, 257, 1024, 4097]):
        for lt_ in ['x in [%s]' % ', '.join(str(i) for i in range(1, n_ + 1)), 'x in [%s]' % ', '.join('%d.5' % i for i in range(1, n_ + 1)), 'x in [%s]' % ', '.join('"v%d"' % i for i in range(1, n_ + 1))]:
            for a_ in (ABSENT, S('s'), ('b', True), ('m', []), ('nil',), I(1), F(1.5), S('v1'), ('o', 1), ('str', b'v1'), ('i64', 1)):
                cs.eval(lt_, mk_obj(['x'], a_), 'dbg-long-lists')
                cs.eval('k eq 1 and ' + lt_, mk_obj(['x'], a_, extra={'k': I(1)}), 'dbg-long-lists')
    for (t_, o_, fam_, *_m) in scale.straddling_strings(ctx):
        cs.eval(t_, o_, fam_)
    # an attribute value whose String() calls Process on the very evaluator that is evaluating it: the diagnostic of the outer call is the outer call's
    for t_ in ['x eq "abc" and k eq 1', 'zz eq 1 or x eq "abc"', 'x co "b"', 'x eq "abc" or zz eq 1', 'zz eq 1 or (x sw "a" and k eq 1)', 'x in ["abc", "q"] and k eq 1', 'k gt "s" or x ew "c"', 'x eq "abcd" and k eq 1',
               'zz pr or x eq "abcd"', 'n.x eq "abc" and zz.y eq 1', 'x eq "zzz" or k eq 1',
               # two different list literals in one rule, both reached by the inner calls
               'x in ["abc", "abcd"] and y in ["q"]', 'y in ["q"] and x in ["abc", "abcd"]', 'x in ["abc", "abcd"] and y in ["zz"] or x in ["abcd", "abc"]', 'x in ["abc"] and k in [1, 2] and y in ["q", "r"]',
               'not (x in ["zz"]) and y in ["q"] and x in ["abcd", "abc"]']:
        for a_ in (('strsame', b'abc'), ('strsame', b'abcd')):
            cs.eval(t_, obj({'x': a_, 'k': I(1), 'n': {'x': a_}, 'y': S('q')}), 're-entrant-same-evaluator')
    res = ctx.run(cs)
    ctx.compare([c for c in cs.cases if c.kind != 'hist'], res, ['dbg'], scope=accepted)
    ctx.compare([c for c in cs.cases if c.kind == 'hist'], res, ['out'], nontrivial=lambda c, mo: True)
    for h, ops, fresh in hs:
        io = res.impl.get(h.id)
        if not io or 'out' not in io or io['out'] == 'NEWERR':
            continue
        last = 'nil'
        for k, (op, o, f) in enumerate(zip(ops, io['out'].split(';'), fresh)):
            if op[0] == 'p':
                fo = res.impl.get(f.id)
                if not fo:
                    break
                last = o[1:].split(',')[2]
                if (last != 'nil') != (fo['dbg'] != 'nil'):
                    ctx.violation('call %d on a reused evaluator leaves diagnostic %s, the same call on a fresh evaluator leaves %s' % (k, last, fo['dbg']), [h, f])
                    break
            elif o[1:] != last:
                ctx.violation('LastDebugErr at step %d is %s, the latest Process left %s' % (k, o[1:], last), [h])
                break
    # input objects that contain themselves (no model counterpart): every call returns, the diagnostic's text can be produced, nothing is written
    cyc = CaseSet()
    for k_ in range(9):
        cyc.simple('cyclic', str(k_), 'cyclic-object', scenario=k_)
    cres = ctx.run(cyc, label='cyc', nshards=len(cyc.cases), sides=('impl',), timeout=300, own_crash_handling=True)
    for c in cyc.cases:
        io = cres.impl.get(c.id)
        if io is None:
            ctx.violation('the process was killed while evaluating rules on an object that contains itself (scenario %d of driver/cyclic.go)' % c.meta['scenario'], [c])
            continue
        for i_, o_ in enumerate((io.get('out') or '').split(';')):
            f_ = o_.split(',')
            if len(f_) != 6 or f_[5] != '0' or 'panic' in f_[3] or 'empty' in f_[3] or (f_[1] != 'none' and f_[0] != '0'):
                ctx.violation('on an object that contains itself (scenario %d, rule %d of driver/cyclic.go): %s' % (c.meta['scenario'], i_, o_), [c], impl=io)
                break
        if io.get('frame') != '1':
            ctx.violation('an object that contains itself was modified (scenario %d of driver/cyclic.go)' % c.meta['scenario'], [c], impl=io)
        if io and io.get('repaired') == '0':
            ctx.violation('after the caller took the self-reference out of its object in place, the diagnostic of the next call still describes the old value (scenario %d of driver/cyclic.go)' % c.meta['scenario'], [c], impl=io)
    ctx.crashes = [cr for cr in ctx.crashes if not (cr[0] == 'impl' and cr[4] in cyc.by_id)]
    spec_violations(ctx, 'LastDebugErr')
    for c in cs.cases:
        io = res.impl.get(c.id)
        if io and io.get('dbg') not in (None, 'nil') and io.get('dbgtext') != 'ok':
            ctx.violation('LastDebugErr().Error() %s' % ('panicked' if io.get('dbgtext') == 'panic' else 'returned an empty text'), [c], impl=io)
    ctx.exhaustive = ctx.tier != 'quick'
    spread_samples(ctx, cs, res)

# ----------------------------------------------------------------------------
def lit_sort_key(kind, text):
    if kind == 'long': return int(text)
    if kind == 'double': return float(text)
    if kind == 'string': return text.lower().encode() if text.isascii() else None
    if kind == 'version': return tuple(int(x) for x in text.split('.'))

def right_sx(kind, text):
    if kind == 'long': return '(i %s)' % int(text)
    if kind == 'double': return '(f %d)' % fbits(float(text))
    return '(s %s)' % hx(text)

OPT = {'long': 'int', 'double': 'float', 'string': 'string', 'version': 'version'}

def check_C18(ctx):
    cs = CaseSet()
    pools = {
        'long': (['-9223372036854775808', '-7', '-1', '0', '1', '2', '5', '100', '9007199254740992', '9007199254740993', '9223372036854775807'],
                 INT_ATTRS + FLOAT_ATTRS + [ABSENT, S('1'), ('nil',), ('b', True)]),
        'double': (['-1.0e19', '-1.0', '-0.5', '0.0', '0.1', '0.30000000000000004', '1.0', '1.5', '1.7', '2.0', '2.5', '100.0', '9007199254740993.0', '1.0e19', '1.0e308'],
                   [a for a in INT_ATTRS if a[0] == 'i'] + FLOAT_ATTRS + [('i64', 1), ABSENT, S('1.5'), ('nil',)]),
        'string': (['', ' ', 'A', 'ab', 'ABC', 'abd', 'b', 'B c', 's', 'S', 't', 'k', 'i', '\u03c3', '\u03bc', 'ss', '\u017f', '\u03c2',
                    '1.9.0', '1.10.0', '1.0.0', '1.0.0-rc1', '10', '9', '2024-01-01T00:00:00Z', '2024-01-01T00:00:00.2Z', '2024-01-01T00:00:00.5Z', '2024-01-01T01:00:00+01:00'],
                   [S(x) for x in ['', 'abc', 'ABC', 'aBc', 'ab', 'b', 'a', ' ', 'abd', 'B', '\u017f', 's', '\u03c2', '\u03a3', '\u03c3',
                                   '\u212a', 'K', '\u0130', 'I', '\u00b5', '\u039c', 'stra\u017f\u017fe', '\u00df', '\u1e9e',
                                   '1.9.0', '1.10.0', '1.0.0-rc1', '1.0.0+a', '2024-01-01T00:00:00.2Z', '2024-01-01T00:00:00.7', '2024-01-01T00:00:00Z', '9', '10']] + [('str', b'abc'), ABSENT, I(1), ('nil',), ('o', 8)]),
        'version': (['0.0.0', '1.0.0', '1.0.1', '1.9.0', '1.10.0', '2.0.0', '10.2.33', '18446744073709551615.0.0', '18446744073709551616.0.0', '1.0.18446744073709551616',
                     '1.0.2097151', '1.0.2097152', '1.1.0', '1.2097152.7', '2.0.7', '1.0.65536', '1.0.4294967296', '1.1.1'],
                    VER_ATTRS + [S('1.0.2097152'), S('1.0.2097151'), S('1.2097152.7'), S('1.0.2097153'), S('1.0.65536'), S('1.0.4294967296'), S('1.1.0'), ABSENT, I(1), ('str', b'1.0.0'), ('nil',), S('1.0.18446744073709551616'), ('o', 38), ('strver', b'1.0.0'), ('strverptr', b'1.0.0'), ('strver', b'1.0.1'), ('o', 8)]),
    }
    vectors = []   # (kind, attr, literal, {op: rule-case}, {op: call-case})
    for kind, (lits, attrs) in pools.items():
        extra = []
        for _ in range(ctx.n(10, 300)):
            if kind == 'long': extra.append(rand_int_text(ctx.rng))
            elif kind == 'double':
                t = rand_double_text(ctx.rng)
                try:
                    if abs(float(t)) != float('inf'): extra.append(t)
                except (ValueError, OverflowError): pass
            elif kind == 'string': extra.append(''.join(ctx.rng.choice('abAB c') for _ in range(ctx.rng.randrange(4))))
            else: extra.append('.'.join(str(ctx.rng.choice([0, 1, 2, 9, 10, 11])) for _ in range(3)))
        if kind == 'long':
            extra = [t for t in extra if -2**63 <= int(t) < 2**63]
        for lit in lits + extra:
            pool_attrs = attrs if lit in lits else ctx.rng.sample(attrs, 6)
            for a in pool_attrs:
                rc, cc = {}, {}
                ltext = '"%s"' % lit if kind == 'string' else lit
                for op in REL:
                    rc[op] = cs.eval('x %s %s' % (ctx.rng.choice(OP_SPELL[op]), ltext), mk_obj(['x'], a), 'six-' + kind, attr=a, lit=(kind, lit), op=op)
                    if a != ABSENT:
                        cc[op] = cs.opcall(OPT[kind], op, a, right_sx(kind, lit), 'call-' + kind)
                vectors.append((kind, a, lit, rc, cc))
    # size and shape beyond small random rules (harness/scale.py)
    for (t_, o_, fam_, *_m) in scale.long_strings(ctx) + scale.big_versions(ctx):
        cs.eval(t_, o_, fam_)
    for lit, atext in scale.string_pairs(ctx):
        rc, cc, a = {}, {}, S(atext)
        for op in REL:
            rc[op] = cs.eval('x %s "%s"' % (ctx.rng.choice(OP_SPELL[op]), lit), mk_obj(['x'], a), 'six-long-string', attr=a, lit=('string', lit), op=op)
            cc[op] = cs.opcall(OPT['string'], op, a, right_sx('string', lit), 'call-long-string')
        vectors.append(('string-long', a, lit, rc, cc))
    for (t_, o_, fam_, *_m) in scale.odd_keys(ctx):
        cs.eval(t_, o_, fam_)
    res = ctx.run(cs)
    ctx.compare([c for c in cs.cases if c.kind == 'eval'], res, ['verdict', 'err'], scope=accepted)
    ctx.compare([c for c in cs.cases if c.kind == 'opcall'], res, ['res', 'err'])
    # an Operation value that is kept and used for many comparisons answers like a new one
    for c in cs.cases:
        io = res.impl.get(c.id)
        if c.kind == 'opcall' and io and io.get('shared') == '0':
            ctx.violation('direct call: an operation object that has been used before answers differently from a new one (%s/%s for the new one)' % (io.get('res'), io.get('err')), [c], impl=io)
    def is_nan(a):
        return a[0] == 'f' and fbits(a[1]) == NAN_BITS
    by_attr = {}
    for kind, a, lit, rc, cc in vectors:
        for src, cases, fld in (('rule', rc, 'verdict'), ('direct call', cc, 'res')):
            if not cases:
                continue
            obs = {op: res.impl.get(c.id) for op, c in cases.items()}
            if any(o is None or fld not in o for o in obs.values()):
                continue
            v = {op: obs[op][fld] == '1' for op in REL}
            if is_nan(a):
                continue
            cl = [cases[op] for op in REL]
            # comparability by Go type alone (no parsing needed to judge it): a version literal compares with strings only, a number
            # literal with int / int32 / int64 / float64 only, a string literal never with numbers, booleans, nil, maps or a missing attribute
            tk = a[0]
            by_type_incomparable = (kind == 'version' and tk != 's') or (kind in ('long', 'double') and tk not in ('i', 'i32', 'i64', 'f')) or \
                                   (kind in ('string', 'string-long') and tk in ('i', 'i32', 'i64', 'f', 'b', 'nil', 'absent', 'm', 'nilmap'))
            mobs = {op: res.model.get(c.id) for op, c in cases.items()}
            by_model_incomparable = all(mo is not None and fld in mo for mo in mobs.values()) and not any(mo[fld] == '1' for mo in mobs.values())
            if by_model_incomparable and not by_type_incomparable and any(v.values()) and kind == 'version':
                ctx.violation('%s: the attribute (%s) is not a valid semantic version (ported semver.Make of the proved model rejects it), so it is not comparable with a version literal, yet not all six operators are false: %s' % (src, val_desc(a) if a != ABSENT else 'absent', v), cl)
                continue
            if by_type_incomparable and any(v.values()):
                ctx.violation('%s: the attribute (%s) is not comparable with a %s literal, yet not all six operators are false: %s' % (src, val_desc(a) if a != ABSENT else 'absent', kind, v), cl)
                continue
            if any(v.values()):
                if [v['LT'], v['EQ'], v['GT']].count(True) != 1:
                    ctx.violation('%s: not exactly one of lt/eq/gt holds: %s' % (src, v), cl)
                elif v['NE'] != (not v['EQ']) or v['LE'] != (v['LT'] or v['EQ']) or v['GE'] != (v['GT'] or v['EQ']):
                    ctx.violation('%s: ne/le/ge are not derived from lt/eq/gt: %s' % (src, v), cl)
            by_attr.setdefault((src, kind, val_sx(a) if a != ABSENT else 'absent'), []).append((lit, v, cases))
    for (src, kind, _), rows in by_attr.items():
        rows = [r for r in rows if lit_sort_key(kind, r[0]) is not None]
        rows.sort(key=lambda r: lit_sort_key(kind, r[0]))
        for i in range(len(rows) - 1):
            (l1, v1, c1), (l2, v2, c2) = rows[i], rows[i + 1]
            if lit_sort_key(kind, l1) == lit_sort_key(kind, l2):
                continue
            if not any(v1.values()) or not any(v2.values()):
                continue
            # a lt v -> a lt w for w > v ; a gt w -> a gt v for v < w  (adjacent pairs suffice: induction over the sorted pool)
            if v1['LT'] and not v2['LT']:
                ctx.violation('%s: order not monotone in the literal: a lt %s but not a lt %s' % (src, l1, l2), [c1['LT'], c2['LT']])
            if v2['GT'] and not v1['GT']:
                ctx.violation('%s: order not monotone in the literal: a gt %s but not a gt %s' % (src, l2, l1), [c2['GT'], c1['GT']])
    ctx.exhaustive = True
    spread_samples(ctx, cs, res)

CHECKS.update({'C08': check_C08, 'C06': check_C06, 'C16': check_C16, 'C18': check_C18})

# ----------------------------------------------------------------------------
def bool_eval(q, leafval):
    """plain Boolean reading of a rule tree given the verdict of each leaf (by identity)"""
    k = q[0]
    if k in ('pr', 'cmp'): return leafval(q)
    if k == 'paren':
        v = bool_eval(q[2], leafval)
        return (not v) if q[1] else v
    l, r = bool_eval(q[2], leafval), bool_eval(q[3], leafval)
    return (l or r) if q[1] == 'or' else (l and r)

def tree_sx(q):
    """the canonical tree text both sides print for `syntax` cases"""
    k = q[0]
    px = lambda p: '.'.join(hx(x) for x in p)
    if k == 'pr': return '(pr %s)' % px(q[1])
    if k == 'paren': return '(%s %s)' % ('notparen' if q[1] else 'paren', tree_sx(q[2]))
    if k == 'logic': return '(%s %s %s)' % (q[1], tree_sx(q[2]), tree_sx(q[3]))
    v = q[3]
    vk = v[0]
    if vk == 'null': vs = '(null)'
    elif vk == 'bool': vs = '(boolean %s)' % hx(v[1])
    elif vk == 'string': vs = '(string %s)' % hx('"' + v[1] + '"')
    elif vk in ('version', 'double', 'long'): vs = '(%s %s)' % (vk, hx(v[1]))
    elif vk == 'strings': vs = '(strings %s)' % ','.join(hx('"' + x + '"') for x in v[1])
    else: vs = '(%s %s)' % (vk, ','.join(hx(x) for x in v[1]))
    return '(cmp %s %s %s)' % (px(q[1]), q[2], vs)

def check_C01(ctx):
    cs = CaseSet()
    groups = []    # (compound case, query, {leaf-index: standalone case}, syntax case)
    names = ['a', 'b', 'c', 'd', 'e', 'f']
    # bool-exh: every shape with k leaves (pr tests on distinct attributes) x every assignment
    kmax = ctx.n(3, 4)
    nshape = 0
    for k in range(1, kmax + 1):
        # k <= 2: every stacking of wrappers; k = 3: single wrappers (thorough: stacked, every 4th); k = 4 (thorough): single, every 11th
        wr = STACKED if (k <= 2 or (k == 3 and not ctx.quick)) else ('', 'not', 'paren')
        stride = 1 if (k <= 2 or ctx.quick) else (4 if k == 3 else 11)
        for si, shape in enumerate(all_shapes(k, wr)):
            if si % stride:
                continue
            nshape += 1
            lv = [('pr', [names[i]]) for i in range(k)]
            q = instantiate(shape, lv)
            text = render(q)
            sc = cs.syntax(text, 'bool-exh-tree', q=q)
            for bits in itertools.product([False, True], repeat=k):
                o = obj({names[i]: I(1) for i in range(k) if bits[i]})
                c = cs.eval(text, o, 'bool-exh', q=q, bits=bits)
                groups.append((c, q, None, sc, {id(lv[i]): bits[i] for i in range(k)}))
    # every grouping of 4 and 5 leaves with every choice of connectives (parentheses only where the
    # grouping needs them, plus a negated variant of each right-hand group) x every assignment
    def bare(n):
        if n == 1:
            yield ('W', '', ('L',))
            return
        for i in range(1, n):
            for l in bare(i):
                for r in bare(n - i):
                    for op in ('and', 'or'):
                        yield ('W', '', ('B', op, l, r))
    for k in (4, 5):
        for si, shape in enumerate(bare(k)):
            variants = [shape]
            if shape[2][3][2][0] == 'B' and si % 3 == 0:
                variants.append(('W', '', ('B', shape[2][1], shape[2][2], ('W', 'not', shape[2][3][2]))))
            for sh in variants:
                lv = [('pr', [names[i]]) for i in range(k)]
                q = instantiate(sh, lv)
                text = render(q)
                sc = cs.syntax(text, 'group-exh-tree', q=q)
                for bits in itertools.product([False, True], repeat=k):
                    if k == 5 and ctx.quick and (si + sum(bits)) % 2:
                        continue
                    o = obj({names[i]: I(1) for i in range(k) if bits[i]})
                    c = cs.eval(text, o, 'group-exh', q=q, bits=bits)
                    groups.append((c, q, None, sc, {id(lv[i]): bits[i] for i in range(k)}))
    # chains without parentheses: left associativity at equal precedence
    for n in range(2, ctx.n(6, 9)):
        for _ in range(ctx.n(30, 300)):
            ops = [ctx.rng.choice(['and', 'or']) for _ in range(n - 1)]
            lv = [('pr', [names[i % 6] + str(i // 6 or '')]) for i in range(n)]
            prims = [('paren', True, l) if ctx.rng.random() < 0.3 else l for l in lv]
            q = prims[0]
            for op, p in zip(ops, prims[1:]):
                q = ('logic', op, q, p)
            text = render(q, Style(ctx.rng))
            sc = cs.syntax(text, 'chain-tree', q=q)
            for _ in range(4):
                bits = [ctx.rng.random() < 0.5 for _ in range(n)]
                o = obj({lv[i][1][0]: I(1) for i in range(n) if bits[i]})
                c = cs.eval(text, o, 'chain', q=q)
                groups.append((c, q, None, sc, {id(lv[i]): bits[i] for i in range(n)}))
    # random shapes with typed, error-free leaves; leaf verdicts come from the implementation itself
    for _ in range(ctx.n(700, 25000)):
        k = ctx.rng.randint(2, ctx.n(7, 40))
        q, info = random_query(ctx.rng, k, lambda: typed_leaf(ctx.rng, allow_fail=False))
        text = render(q, Style(ctx.rng) if ctx.rng.random() < 0.5 else Style())
        o = object_for(ctx.rng, info)
        c = cs.eval(text, o, 'shape', q=q)
        alone = {}
        for leaf in leaves(q):
            alone[id(leaf)] = cs.eval(render(leaf), o, 'shape-leaf', q=leaf)
        sc = cs.syntax(text, 'shape-tree', q=q) if ctx.rng.random() < 0.3 else None
        groups.append((c, q, alone, sc, None))
    # deep nesting
    for depth in ([10, 50] if ctx.quick else [10, 50, 200, 600]):
        q = ('pr', ['a'])
        for i in range(depth):
            q = ('paren', i % 3 == 0, q) if i % 2 else ('logic', 'and' if i % 4 else 'or', q, ('pr', ['b']))
        q = normalize(q)
        for o in (obj({}), obj({'a': I(1)}), obj({'b': I(1)}), obj({'a': I(1), 'b': I(1)})):
            bits = {'a': any(k == b'a' for k, _ in o[1]), 'b': any(k == b'b' for k, _ in o[1])}
            c = cs.eval(render(q), o, 'deep', q=q)
            groups.append((c, q, None, None, bits))
    # size and shape beyond small random rules (harness/scale.py)
    for (t_, o_, fam_, q_) in scale.long_chains(ctx):
        c = cs.eval(t_, o_, fam_, q=q_)
        groups.append((c, q_, None, None, {k.decode(): True for k, _ in o_[1]}))
    # non-ASCII text early in the rule, nil / empty object (harness/scale.py): compound vs its comparisons evaluated alone
    struct_groups = []
    for (t_, o_, fam_) in scale.sibling_folds(ctx):
        cs.eval(t_, o_, fam_)
    for (t_, o_, fam_, m_) in scale.nonascii_prefix(ctx) + scale.nil_object(ctx) + scale.path_reuse(ctx) + scale.escape_tails(ctx) + scale.repeated_groups(ctx):
        c_ = cs.eval(t_, o_, fam_)
        if m_ and len(m_[0]) > 0:
            struct_groups.append((c_, m_[1], [cs.eval(ct_, o_, fam_ + '-alone') for ct_ in m_[0]]))
    res = ctx.run(cs)
    ctx.compare([c for c in cs.cases if c.kind == 'eval'], res, ['verdict', 'err'], scope=accepted)
    run_sequences(ctx, fields=('verdict', 'err', 'ev3'))
    # C01_boolean: for error-free evaluations the model's verdict IS the Boolean combination of the comparisons
    for (c, f, i_, m_) in list(ctx.mismatches):
        mo, io = res.model.get(c.id), res.impl.get(c.id)
        if c.kind == 'eval' and f == 'verdict' and mo and io and mo.get('err') == 'none' and io.get('err') == 'none':
            ctx.violation('compound verdict %s differs from the Boolean combination of its comparisons as computed by the proved model (%s)' % (i_, m_), [c], impl=io)
    for c, fn, alone in struct_groups:
        io = res.impl.get(c.id)
        lo = [res.impl.get(x.id) for x in alone]
        if not io or any(x is None or x['err'] != 'none' for x in lo):
            continue
        want = bool(fn(*[x['verdict'] == '1' for x in lo]))
        if io['err'] != 'none' or (io['verdict'] == '1') != want:
            ctx.violation('compound verdict %s/%s is not the Boolean combination (%s) of its comparisons evaluated alone' % (io['verdict'], io['err'], want), [c] + alone)
    ctx.compare([c for c in cs.cases if c.kind == 'syntax'], res, ['lexok', 'accept', 'tree'])
    for c, q, alone, sc, bits in groups:
        io = res.impl.get(c.id)
        if not io:
            continue
        if alone is not None:
            lo = {k: res.impl.get(v.id) for k, v in alone.items()}
            if any(x is None or x.get('err') != 'none' for x in lo.values()):
                continue      # out of C01's scope: some comparison is not individually error-free
            want = bool_eval(q, lambda leaf: lo[id(leaf)]['verdict'] == '1')
            extra = list(alone.values())
        elif isinstance(bits, dict) and (not bits or isinstance(next(iter(bits)), str)):
            want = bool_eval(q, lambda leaf: bits.get(leaf[1][0], False))
            extra = []
        else:
            want = bool_eval(q, lambda leaf: bits[id(leaf)])
            extra = []
        if io.get('err') != 'none' or (io.get('verdict') == '1') != want:
            ctx.violation('compound verdict %s/%s is not the Boolean combination (%s) of its comparisons' % (io.get('verdict'), io.get('err'), want), [c] + extra[:6])
        if sc is not None:
            so = res.impl.get(sc.id)
            if so and so.get('tree') != tree_sx(q):
                ctx.violation('the shipped parser groups the rule differently: %s, expected %s' % (so.get('tree'), tree_sx(q)), [sc])
    # 'nesting of any depth': sentences nested 100 000 and 3 000 000 deep, each in its own child process (stack exhaustion cannot be
    # recovered from in Go; a process that dies gives no verdict at all)
    deep = CaseSet()
    for n in (100000, 3000000):
        deep.simple('deepnest', str(n), 'deep-nesting-child', depth=n, form='(((')
    for n in (100000, 3000000):
        deep.simple('deepnest', '%d not' % n, 'deep-nesting-child', depth=n, form='not (not (not (')
    dres = ctx.run(deep, label='deep', nshards=len(deep.cases), sides=('impl',), timeout=600, own_crash_handling=True)
    for c in deep.cases:
        io = dres.impl.get(c.id)
        if io is None:
            ctx.violation('the process was killed (fatal error: stack overflow, not recoverable) by the sentence %s ... x eq 1 ... ))) nested %d deep' % (c.meta['form'], c.meta['depth']), [c])
        elif io.get('verdict') != '1' or io.get('err') != 'none' or io.get('ev3') != '101' or io.get('escaped') != '0':   # an even number of nots
            ctx.violation('the sentence ((( ... x eq 1 ... ))) nested %d deep on {x: 1} gave %s' % (c.meta['depth'], io), [c], impl=io)
    ctx.crashes = [cr for cr in ctx.crashes if not (cr[0] == 'impl' and cr[4] in deep.by_id)]
    ctx.extra['exhaustive_part'] = 'bool-exh: %d shapes with <= %d leaves x all leaf assignments (all shapes with <= 2 leaves under every stacking of not/parentheses; quick: all 3-leaf shapes with single wrappers)' % (nshape, kmax)
    ctx.exhaustive = ctx.quick
    spread_samples(ctx, cs, res)

# ----------------------------------------------------------------------------
def check_C02(ctx):
    cs = CaseSet()
    groups = []
    # P: comparisons whose path may stop early; L: neighbours of every literal kind
    P_forms = ['%s eq 1', '%s ne 1', '%s pr', '%s eq null', '%s ne null', '%s eq "s"', '%s in [1,2]', '%s eq 1.5', '%s eq 1.0.0', '%s eq true', '%s in ["s"]', '%s lt 2', '%s co "s"']
    L_forms = ['k eq 1', 'k eq 2', 'k in [1,2]', 'k in [3]', 's eq "v"', 's co "zz"', 's in ["V"]', 'k pr', 'zz pr', 'k eq 1.0', 'v eq 1.0.0', 'k ne null', 'q.r.s eq 1', 'k.j eq 1' if False else 'w.j eq 1', 'b eq true']
    base = {'k': I(1), 's': S('v'), 'v': S('1.0.0'), 'b': ('b', True), 'w': {'j': I(1)}}
    combos = ['%(L)s and %(P)s', '%(P)s and %(L)s', '%(L)s or %(P)s', '%(P)s or %(L)s', 'not (%(P)s) and %(L)s', '%(L)s and not (%(P)s)', '(%(L)s or %(P)s) and %(L)s', '%(P)s or %(P)s']
    for path in (['x'], ['x', 'a'], ['x', 'a', 'b'], ['k', 'a'] if False else ['y', 'a', 'b', 'c']):
        for a in [ABSENT, ('nil',), I(1), S('s'), I(2), ('m', [])]:
            for o in nested_variants(path, a):
                o = ('m', o[1] + obj(base)[1])
                for pf in P_forms:
                    P = pf % '.'.join(path)
                    for lf in (L_forms if not ctx.quick else ctx.rng.sample(L_forms, 4)):
                        for cb in (combos if not ctx.quick else ctx.rng.sample(combos, 3)):
                            text = cb % {'L': lf, 'P': P}
                            c = cs.eval(text, o, 'leak')
                            groups.append((c, text, cb, cs.eval(lf, o, 'leak-alone'), cs.eval(P, o, 'leak-alone')))
    # three comparisons over nested paths with shared prefixes / shared last keys at different depths
    # (a cache of resolved parents or of path texts would show here): all triples x connectives x objects
    rnd = []
    NP = [['a', 'b', 'x'], ['a', 'b', 'y'], ['c', 'd', 'x'], ['c', 'd', 'y'], ['c', 'd', 'e', 'x'], ['a', 'x'], ['c', 'x'], ['x'], ['c', 'b', 'x']]
    NOBJ = [obj({'a': {'b': {'x': I(1), 'y': I(2)}, 'x': I(3)}, 'x': I(4)}),
            obj({'a': {'b': {'x': I(1)}}, 'c': ('nil',)}),
            obj({'a': {'b': {'x': I(1)}}, 'c': {'d': ('nil',)}}),
            obj({'c': {'d': {'x': I(1), 'e': {'x': I(5)}}, 'x': I(2), 'b': {'x': I(7)}}, 'a': {'x': I(1)}}),
            obj({'a': {'b': ('nil',), 'x': I(1)}, 'c': {'d': {'y': I(1)}}, 'x': I(1)}),
            obj({})]
    nleaf = lambda p, v: ('cmp', p, ctx.rng.choice(['EQ', 'EQ', 'NE']), ctx.rng.choice([('long', str(v)), ('null',)])) if ctx.rng.random() < 0.8 else ('pr', p)
    triples = [(p1, p2, p3) for p1 in NP for p2 in NP for p3 in NP]
    if ctx.quick:
        triples = ctx.rng.sample(triples, 600)
    for (p1, p2, p3) in triples:
        for o in NOBJ:
            l1, l2, l3 = nleaf(p1, 1), nleaf(p2, ctx.rng.choice([1, 2])), nleaf(p3, 1)
            op1, op2 = ctx.rng.choice(['and', 'or']), ctx.rng.choice(['and', 'or'])
            q = ('logic', op2, ('logic', op1, l1, l2), l3)
            if ctx.rng.random() < 0.3:
                q = ('logic', op2, ('logic', op1, ('paren', True, l1), l2), l3)
            q = normalize(q)
            c = cs.eval(render(q), o, 'nested-triples', q=q)
            alone = {id(l): cs.eval(render(l), o, 'nested-leaf') for l in leaves(q)}
            rnd.append((c, q, alone))
    # random compounds: each leaf alone vs in place (needs the Boolean reading; error-free leaves)
    for _ in range(ctx.n(500, 15000)):
        k = ctx.rng.randint(2, 8)
        q, info = random_query(ctx.rng, k, lambda: typed_leaf(ctx.rng, allow_fail=False))
        o = object_for(ctx.rng, info)
        c = cs.eval(render(q), o, 'shape', q=q)
        alone = {id(l): cs.eval(render(l), o, 'shape-leaf') for l in leaves(q)}
        rnd.append((c, q, alone))
    # keys that look like paths, differ in case only, or carry blanks: a path is successive exact lookups, nothing else
    odd = obj({'a.b': I(1), 'a': {'b': I(2), 'B': I(3), 'b.c': I(4), 'b ': I(5), '': I(6)}, 'A': {'b': I(7)}, 'a.b.c': I(8), 'a b': I(9), '': {'': I(10)}, 'x': {'y.z': I(11), 'y': {'z': I(12)}},
               'a-b': I(13), 'a_b': I(14), 'a:b': I(15), 'a-b.c': I(16), 'n1': {'2': I(17)}, 'Ab': I(18), 'aB': I(19), 'AB': {'c': I(20)}, 'abc ': I(21)})
    for t in ['a.b eq 1', 'a.b eq 2', 'A.b eq 7', 'a.B eq 3', 'A.B eq 3', 'a.b.c eq 8', 'a.b.c eq 4', 'a.b.c pr', 'x.y.z eq 11', 'x.y.z eq 12', 'a-b eq 13', 'a_b eq 14', 'a:b eq 15',
              'a-b.c eq 16', 'a-b.c pr', 'a.b pr and A.b pr', 'a.b eq 2 and x.y.z eq 12', 'a.b eq 1 or a.b.c eq 8', 'n1.2 pr', 'a.b ne 1', 'A.b ne 2', 'a.b in [1]', 'a.b in [2]', 'ab eq 18', 'ab eq 19', 'ab pr', 'ab.c eq 20', 'AB.c eq 20', 'abc eq 21', 'A.B eq 7', 'a.B eq 2', 'A.b eq 2']:
        cs.eval(t, odd, 'odd-keys')
    # size and shape beyond small random rules (harness/scale.py)
    deep_groups = []
    for (t_, o_, fam_, m_) in scale.deep_paths(ctx) + scale.path_reuse(ctx)[::2] + scale.version_pairs(ctx):
        c_ = cs.eval(t_, o_, fam_)
        if m_:
            deep_groups.append((c_, m_[1], [cs.eval(ct_, o_, 'deep-path-alone') for ct_ in m_[0]]))
    for (t_, o_, fam_, *_m) in scale.wide_objects(ctx) + scale.key_twins(ctx):
        cs.eval(t_, o_, fam_)
    for (t_, o_, fam_, m_) in scale.shared_suffixes(ctx) + scale.aligned_lines(ctx):
        c_ = cs.eval(t_, o_, fam_)
        if m_:
            deep_groups.append((c_, m_[1], [cs.eval(ct_, o_, 'deep-path-alone') for ct_ in m_[0]]))
    for (t_, o_, fam_, *_m) in scale.nonascii_prefix(ctx):
        cs.eval(t_, o_, fam_)
    # two and more string comparisons in one rule over string-like values of every kind (a remembered operand must not leak)
    for a1_ in STRINGER_ATTRS + [S('abc'), S('10.0.0.1')]:
        for a2_ in STRINGER_ATTRS[:4] + [('strslice', b'abc'), ('strslice', b'10.0.0.1'), S('ABC')]:
            o_ = obj({'ip': a1_, 'peer': a2_})
            for t_ in ['ip sw "10." and peer ew ".1"', 'ip eq "abc" or peer eq "abc"', 'ip co "b" and peer co "b" and ip ew "c"', 'peer eq "abc" and ip ne "abc"', 'ip in ["abc"] or peer in ["10.0.0.1"]']:
                cs.eval(t_, o_, 'two-string-comparisons')
    res = ctx.run(cs)
    ctx.compare(cs.cases, res, ['verdict', 'err', 'dbg'], scope=accepted)
    # what ONE path denotes is fixed by the statement (successive exact lookups, absent as soon as a step is missing or nil):
    # for rules made of a single comparison a disagreement with the proved model is a failing input
    for (c, f, i_, m_) in ctx.mismatches:
        if c.kind == 'eval' and f in ('verdict', 'err') and ' and ' not in c.line and ' or ' not in c.line:
            txt = bytes.fromhex(c.line.split(' ')[2][1:]).decode('utf-8', 'replace')
            if ' and ' not in txt and ' or ' not in txt and '\n' not in txt:
                ctx.violation('what the path denotes: implementation %s=%s, specification (proved model) %s=%s' % (f, i_, f, m_), [c])
    def comb(cb, L, P):
        return {'%(L)s and %(P)s': L and P, '%(P)s and %(L)s': P and L, '%(L)s or %(P)s': L or P, '%(P)s or %(L)s': P or L,
                'not (%(P)s) and %(L)s': (not P) and L, '%(L)s and not (%(P)s)': L and not P,
                '(%(L)s or %(P)s) and %(L)s': (L or P) and L, '%(P)s or %(P)s': P}[cb]
    for c, text, cb, cl, cp in groups:
        io, lo, po = res.impl.get(c.id), res.impl.get(cl.id), res.impl.get(cp.id)
        if not io or not lo or not po or lo['err'] != 'none' or po['err'] != 'none':
            continue
        want = comb(cb, lo['verdict'] == '1', po['verdict'] == '1')
        if io['err'] != 'none' or (io['verdict'] == '1') != want:
            ctx.violation('a comparison behaves differently inside a compound: `%s` gives %s/%s, its comparisons alone give %s and %s' % (text, io['verdict'], io['err'], lo['verdict'], po['verdict']), [c, cl, cp])
    for c, q, alone in rnd:
        io = res.impl.get(c.id)
        lo = {k: res.impl.get(v.id) for k, v in alone.items()}
        if not io or any(x is None or x['err'] != 'none' for x in lo.values()):
            continue
        want = bool_eval(q, lambda leaf: lo[id(leaf)]['verdict'] == '1')
        if io['err'] != 'none' or (io['verdict'] == '1') != want:
            ctx.violation('a comparison behaves differently inside a compound (verdict %s, from stand-alone comparisons %s)' % (io['verdict'], want), [c] + list(alone.values())[:6])
    for c, fn, alone in deep_groups:
        io = res.impl.get(c.id)
        lo = [res.impl.get(x.id) for x in alone]
        if not io or any(x is None or x['err'] != 'none' for x in lo):
            continue
        want = bool(fn(*[x['verdict'] == '1' for x in lo]))
        if io['err'] != 'none' or (io['verdict'] == '1') != want:
            ctx.violation('a comparison on a long path behaves differently inside a compound (verdict %s/%s, from its comparisons alone %s)' % (io['verdict'], io['err'], want), [c] + alone)
    ctx.exhaustive = not ctx.quick
    spread_samples(ctx, cs, res)

# ----------------------------------------------------------------------------
LAW_LEAVES = ['t pr', 'zz pr', 'k gt null', 'k co 1', 'k eq 1', 'k eq 2', 'zz eq 1', 's eq "v"', 's in ["q"]', 'p eq "a"', 'n.x.y eq 1', 'k in true', 'zz eq 99999999999999999999', 'k lt 2.5']
LAW_OBJ = {'t': I(1), 'k': I(1), 's': S('v'), 'p': ('strpanic',)}

def law_pairs(A, B, C):
    def P(x):
        # an atomic operand needs no parentheses (and the law must hold for the bare form too)
        if ' and ' in x or ' or ' in x or '\n' in x:
            return '(%s)' % x
        return x
    return [
        ('double negation', 'not (not (%s))' % A, A, None),
        ('De Morgan and', 'not (%s and %s)' % (P(A), P(B)), 'not (%s) or not (%s)' % (A, B), None),
        ('De Morgan or', 'not (%s or %s)' % (P(A), P(B)), 'not (%s) and not (%s)' % (A, B), None),
        ('associativity and', '(%s and %s) and %s' % (P(A), P(B), P(C)), '%s and (%s and %s)' % (P(A), P(B), P(C)), None),
        ('associativity or', '(%s or %s) or %s' % (P(A), P(B), P(C)), '%s or (%s or %s)' % (P(A), P(B), P(C)), None),
        ('idempotence and', '%s and %s' % (P(A), P(A)), A, None),
        ('idempotence or', '%s or %s' % (P(A), P(A)), A, None),
        ('commutativity and', '%s and %s' % (P(A), P(B)), '%s and %s' % (P(B), P(A)), 'nofail'),
        ('commutativity or', '%s or %s' % (P(A), P(B)), '%s or %s' % (P(B), P(A)), 'nofail'),
    ]

def check_C17(ctx):
    cs = CaseSet()
    inst = []
    objs = [obj(LAW_OBJ), obj({}), obj({'k': I(2), 'zz': I(1), 's': S('q'), 'n': {'x': {'y': I(1)}}})]
    def add(A, B, C, o, fam):
        a1, b1 = cs.eval(A, o, fam + '-operand'), cs.eval(B, o, fam + '-operand')
        for name, lhs, rhs, cond in law_pairs(A, B, C):
            inst.append((name, cs.eval(lhs, o, fam), cs.eval(rhs, o, fam), cond, a1, b1))
    # atomic A, B, C over the alphabet {T, F, Fail, undecided, panic}: exhaustive
    atoms = LAW_LEAVES if not ctx.quick else LAW_LEAVES[:9]
    for A in atoms:
        for B in atoms:
            for C in (atoms if not ctx.quick else ['t pr', 'zz pr', 'k gt null']):
                add(A, B, C, objs[0], 'law-atomic')
    # compound operands over a small alphabet {T, F, fail, decided-by-value}: every A = (a1 op a2), B, C atomic,
    # and the mirrored placements (compound in B or in C) -- a law may only break when an operand is itself compound
    small = ['t pr', 'zz pr', 'k gt null', 'k eq 1', 'p eq "a"']
    comp = ['(%s %s %s)' % (a1, op, a2) for a1 in small for a2 in small for op in ('and', 'or')] + ['not (%s)' % a for a in small]
    pick = comp if not ctx.quick else ctx.rng.sample(comp, 24)
    for X in pick:
        for Y in small:
            for Z in small:
                add(X, Y, Z, objs[0], 'law-compound')
                add(Y, X, Z, objs[0], 'law-compound')
                add(Y, Z, X, objs[0], 'law-compound')
    # random sub-rules
    for _ in range(ctx.n(400, 12000)):
        subs, infos = [], []
        for _ in range(3):
            q, info = random_query(ctx.rng, ctx.rng.randint(1, 4), lambda: typed_leaf(ctx.rng, allow_fail=True))
            subs.append(render(q, Style(ctx.rng) if ctx.rng.random() < 0.3 else Style())); infos += info
        add(subs[0], subs[1], subs[2], object_for(ctx.rng, infos), 'law-random')
    # size and shape beyond small random rules (harness/scale.py)
    for (t_, o_, fam_, *_m) in scale.long_fail_chains(ctx):
        cs.eval(t_, o_, fam_)
    # the laws with LONG operands: chains of 33 / 66 / 100 comparisons, a failing or undecided one far inside, deep negations
    for n in ([33, 63, 64, 65, 66] if ctx.quick else [31, 32, 33, 63, 64, 65, 66, 100, 127, 128, 129, 257]):
        for far in ('k%d eq %d' % (n - 2, n - 2), 'k gt null', 'zz eq 99999999999999999999', 'p eq "a"'):
            parts = ['k%d eq %d' % (i, i) for i in range(n)]
            parts[n - 2] = far
            for joiner in (' or ', ' and '):
                L = joiner.join(parts)
                for o in (objs[0], obj({'k%d' % i: I(i) for i in range(n)}), obj({'k0': I(0), 'k': I(1)})):
                    add(L, 't pr', 'k eq 1', o, 'law-long')
                    add('zz pr', L, 't pr', o, 'law-long')
                    add('k eq 1', 'k gt null', L, o, 'law-long')
    # operands with non-ASCII literals: a law must not depend on what stands to the left of an operand
    na_objs = [obj({'name': S('Zoë'), 'age': I(30), 'tier': I(2)}), obj({'name': S('Ann'), 'age': I(30), 'tier': I(1)}), obj({'name': S('zoë'), 'age': I(3)})]
    for A_ in ['name eq "Zoë"', 'name co "é"', 'name eq "日本"', 'name ne "\U0001f600"']:
        for o_ in na_objs:
            add(A_, 'age gt 18', 'tier eq 2', o_, 'law-nonascii')
            add('age gt 18', A_, 'tier eq 2', o_, 'law-nonascii')
            add('tier eq 2', 'age gt 18', A_, o_, 'law-nonascii')
    # A nested exactly d deep in plain parentheses, d at round limits: the two sides of a law nest differently
    for d_ in ([127, 128, 255, 256, 999, 1000, 1023, 1024, 4095, 4096] if ctx.quick else [63, 64, 127, 128, 255, 256, 511, 512, 999, 1000, 1023, 1024, 4095, 4096, 9999, 10000, 16383, 16384]):
        for leaf_ in (('t pr', 'zz pr') if d_ < 2000 else ('t pr',)):
            A_ = '(' * d_ + leaf_ + ')' * d_
            laws_ = law_pairs(A_, 'k eq 1', 'k eq 2')[:7]
            for name, lhs, rhs, cond in (laws_ if d_ < 2000 else [laws_[0], laws_[1], laws_[5]]):
                inst.append((name, cs.eval(lhs, objs[0], 'law-nesting'), cs.eval(rhs, objs[0], 'law-nesting'), cond, None, None))
    # sibling operands that differ only inside a literal; neighbouring paths with a shared text prefix (harness/scale.py)
    for (A_, B_, C_, o_, fam_) in scale.law_operands(ctx):
        add(A_, B_, C_, o_, fam_)
    for (A_, B_, o_) in scale.literal_spellings(ctx):
        for C_ in ('k eq 1', 'zz pr', A_):
            add(A_, B_, C_, o_, 'law-literal-spellings')
            add(C_, A_, B_, o_, 'law-literal-spellings')
            add(B_, C_, A_, o_, 'law-literal-spellings')
    for (A_, B_) in [('x eq "("', 'y eq ")"'), ('x eq ")"', 'y eq "("'), ('x eq "(("', 'y eq "a)"'), ('x co "("', 'y co ") and ("'), ('x eq ")("', 'y eq 1'), ('x in ["(", "a"]', 'y in [")"]')]:
        for o_ in (obj({'x': S('('), 'y': S(')')}), obj({'x': S(')'), 'y': S('(')}), obj({'x': S('(('), 'y': S('a)'), 'k': I(1)}), obj({'x': S(')('), 'y': I(1)})):
            add(A_, B_, 'k eq 1', o_, 'law-paren-literals')
            add(B_, A_, 'zz pr', o_, 'law-paren-literals')
            add('(%s)' % A_, '(%s)' % B_, '(k eq 1)', o_, 'law-paren-literals')
            add('(%s)' % B_, '(%s)' % A_, '(zz pr)', o_, 'law-paren-literals')
    # an operand repeated inside a neighbouring group whose other operand fails (absorption must not skip it); a single `in` as the whole rule
    for (L_, grp_, o_) in scale.absorption_operands(ctx):
        add(L_, grp_, 'k eq 1', o_, 'law-absorption')
        add(grp_, L_, 'zz pr', o_, 'law-absorption')
    for A_ in ['x in [1, 2, 3]', 'x in [1.5, 2.5]', 'x in ["a", "b"]', 'x eq 2', 'x pr']:
        for a_ in (F(2.5), F(2.0), I(2), S('a'), S('A'), F(float('nan')), ('i64', 3)):
            add(A_, 'k eq 1', 'zz pr', obj({'x': a_, 'k': I(1)}), 'law-whole-rule')
    # an operand next to its own negation, the operand failing / undecided / panicking
    for A_ in ['x gt true', 'k gt null', 'zz eq 1', 't pr', 'k eq 1', 'p eq "a"', 'x in [99999999999999999999]', 'k co 1']:
        for C_ in ('k eq 1', 'zz pr', 'k gt null'):
            add(A_, 'not (%s)' % A_, C_, objs[0], 'law-complement')
            add('not (%s)' % A_, A_, C_, objs[0], 'law-complement')
            add(C_, A_, 'not (%s)' % A_, objs[0], 'law-complement')
            add('(%s)' % A_, '(not (%s))' % A_, '(%s)' % C_, objs[0], 'law-complement')
    for depth in (9, 17, 33):
        A = 't pr'
        for _ in range(depth):
            A = 'not (%s)' % A
        add(A, 'k gt null', 'zz pr', objs[0], 'law-long')
        add('k gt null', A, A, objs[0], 'law-long')
    for (t_, o_, fam_, *_m) in scale.nonascii_prefix(ctx):
        cs.eval(t_, o_, fam_)
    for (t_, o_, fam_, *_m) in scale.nil_object(ctx):
        cs.eval(t_, o_, fam_)
    res = ctx.run(cs)
    ctx.compare(cs.cases, res, ['verdict', 'err'], scope=accepted)
    run_sequences(ctx)
    for name, l, r, cond, a1, b1 in inst:
        lo, ro = res.impl.get(l.id), res.impl.get(r.id)
        if not lo or not ro:
            continue
        if cond == 'nofail':
            ao, bo = res.impl.get(a1.id), res.impl.get(b1.id)
            if not ao or not bo or ao['err'] != 'none' or bo['err'] != 'none':
                continue
        lf, rf = lo['err'] != 'none', ro['err'] != 'none'
        same = (lf and rf) or (not lf and not rf and lo['verdict'] == ro['verdict'])
        if not same:
            ctx.violation('%s: outcomes differ (%s/%s vs %s/%s)' % (name, lo['verdict'], lo['err'], ro['verdict'], ro['err']), [l, r])
    ctx.exhaustive = True
    spread_samples(ctx, cs, res)

# ----------------------------------------------------------------------------
def check_C15(ctx):
    cs = CaseSet()
    groups = []
    K = ctx.n(8, 48)
    for _ in range(ctx.n(450, 5000)):
        k = ctx.rng.randint(1, 7)
        q, info = random_query(ctx.rng, k, lambda: typed_leaf(ctx.rng, allow_fail=True))
        o = object_for(ctx.rng, info)
        canon = cs.eval(render(q), o, 'canonical', q=q)
        vs = [cs.eval(render(q, Style(ctx.rng)), o, 'respelled', q=q) for _ in range(K)]
        # redundant parentheses around the whole rule and around a sub-rule
        vs.append(cs.eval('(' + render(q) + ')', o, 'extra-parens', q=q))
        vs.append(cs.eval('( ' + render(q, Style(ctx.rng)) + ' )', o, 'extra-parens', q=q))
        def wrap_some(x):
            kk = x[0]
            if kk in ('pr', 'cmp'):
                return ('paren', False, x) if ctx.rng.random() < 0.4 else x
            if kk == 'paren':
                return ('paren', x[1], wrap_some(x[2]))
            y = ('logic', x[1], wrap_some(x[2]), wrap_some(x[3]))
            return ('paren', False, y) if ctx.rng.random() < 0.3 else y
        vs.append(cs.eval(render(normalize(wrap_some(q)), Style(ctx.rng)), o, 'extra-parens', q=q))
        groups.append((canon, vs))
    # optional blanks / newlines / parentheses in quantity, literals with operators, parentheses and escapes (harness/scale.py)
    sc_objs = [obj({'x': I(1), 'y': I(2), 'z': I(3)}), obj({'x': I(1)}), obj({'x': S('a EQ b'), 'y': S('\\')}), obj({'x': S('C:\\\\'), 'y': S('a"b')}), obj({}),
               obj({'x': S('\\\\'), 'y': S('\\\\')}), obj({'k19': I(19), 'k39': I(39), 'k69': I(69)}), obj({'k10': I(10), 'k20': I(20), 'k35': I(35)})]
    for base, variants in scale.spellings_at_scale(ctx):
        for o in sc_objs:
            canon = cs.eval(base, o, 'spell-scale')
            groups.append((canon, [cs.eval(v, o, 'spell-scale') for v in variants if not v.startswith('x in [')]))
            for v in variants:
                if v.startswith('x in ['):
                    cs.eval(v, o, 'spell-scale')
    for (t_, o_, fam_, *_m) in scale.aligned_lines(ctx):
        canon_ = cs.eval(t_.replace(' \n', ' '), o_, 'aligned-lines')
        groups.append((canon_, [cs.eval(t_, o_, 'aligned-lines')]))
    for (t_, o_, fam_, *_m) in scale.printing_alike(ctx)[::3]:
        canon_ = cs.eval(t_, o_, fam_)
        groups.append((canon_, [cs.eval(t_.replace(' in ', ' IN ', 1), o_, fam_), cs.eval('(' + t_ + ')', o_, fam_), cs.eval(t_.replace(', ', ',  '), o_, fam_)]))
    # operands that fail, panic or stay undecided in different ways, with and without redundant parentheses around them
    for (base_, variants_, o_) in scale.failing_groups(ctx):
        canon_ = cs.eval(base_, o_, 'failing-groups')
        groups.append((canon_, [cs.eval(v_, o_, 'failing-groups') for v_ in variants_]))
    res = ctx.run(cs)
    ctx.compare(cs.cases, res, ['accept', 'verdict', 'err', 'dbg'])
    run_sequences(ctx, fields=('accept', 'verdict', 'err'))
    for canon, vs in groups:
        co = res.impl.get(canon.id)
        if not co:
            continue
        for v in vs:
            vo = res.impl.get(v.id)
            if vo and (vo['verdict'], vo['err'], vo['dbg'] != 'nil') != (co['verdict'], co['err'], co['dbg'] != 'nil'):
                ctx.violation('respelling changes the outcome: %s/%s/%s vs %s/%s/%s' % (co['verdict'], co['err'], co['dbg'], vo['verdict'], vo['err'], vo['dbg']), [canon, v])
            elif vo and vo.get('eh') != co.get('eh') and co.get('accept') == '1' and vo.get('accept') == '1':
                # the error handed to the caller is part of the outcome: same class AND same text for every spelling of a sentence
                ctx.violation('respelling changes the text of the error that Process returns (same verdict and class)', [canon, v], impl=vo)
    spread_samples(ctx, cs, res)

CHECKS.update({'C01': check_C01, 'C02': check_C02, 'C17': check_C17, 'C15': check_C15})

# ----------------------------------------------------------------------------
def check_C05(ctx):
    cs = CaseSet()
    eval_texts(ctx, cs, ctx.n(500, 12000), 5, ctx.n(800, 20000), ctx.n(150, 3000), objs_per=1)
    # objects that make the first comparison of the statement's examples true
    for t in FIXED_TEXTS:
        cs.eval(t, obj({'x': I(1), 'y': I(2), 'z': I(3), 'order': I(1), 'a-b_c:d': I(1), 'prx': I(1)}), 'text-fixed')
        cs.eval(t, obj({'x': I(0), 'y': I(2)}), 'text-fixed')
    # size and shape beyond small random rules (harness/scale.py)
    for (t_, o_, fam_, *_m) in scale.long_texts(ctx):
        cs.eval(t_, o_, fam_)
    for t_ in scale.long_tokens(ctx):
        cs.eval(t_, obj({'x': I(1)}), 'long-token')
    for (t_, o_, fam_, *_m) in scale.keyword_keys(ctx) + scale.operator_literals(ctx)[::2] + scale.escape_tails(ctx)[::5]:
        cs.eval(t_, o_, fam_)
    for t_ in scale.error_counts(ctx):
        cs.eval(t_, obj({'x': I(1), 'y': I(2)}), 'error-counts')
    mode_cases = [cs.syntax(t_, 'usage-modes') for t_ in [t for t in FIXED_TEXTS if isinstance(t, str)] + scale.error_counts(ctx)[::3]]
    # an evaluator of a malformed text stays rejecting: after Reset, after other evaluators were created, on every call
    bad_texts = [t for t in FIXED_TEXTS if isinstance(t, str)][:120]
    hist_cases, il_cases = [], []
    for t_ in bad_texts:
        o1_, o2_ = obj({'x': I(1), 'y': I(2), 'z': I(3)}), obj({'x': I(0), 'y': I(5)})
        hist_cases.append(cs.hist(t_, [('p', o1_), ('r',), ('p', o1_), ('d',), ('p', o2_), ('r',), ('r',), ('p', o1_)], 'malformed-history'))
        for other in ('x eq 1', 'x eq', 'y eq 2 or x eq 1', 'a b zz', '(x eq 1'):
            il_cases.append(cs.simple('ileave', '%s %s %s' % (hx(t_), hx(other), val_sx(o1_)), 'interleaved-evaluators', a=t_, b=other))
            il_cases.append(cs.simple('ileave', '%s %s %s' % (hx(other), hx(t_), val_sx(o1_)), 'interleaved-evaluators', a=other, b=t_))
    res = ctx.run(cs)
    def valid_utf8(c, mo=None, io=None):
        """the statement is about valid UTF-8 texts (C14 / C07 / C20 cover arbitrary bytes)"""
        try:
            bytes.fromhex(c.line.split(' ')[2][1:]).decode('utf-8')
            return True
        except (UnicodeDecodeError, ValueError):
            return False
    ctx.compare([c for c in cs.cases if c.kind in ('hist', 'ileave')], res, ['out'])
    spec_violations(ctx, 'evaluators of malformed texts')
    for c in il_cases:
        io = res.impl.get(c.id)
        if io and io.get('ilt') == '0':
            ctx.violation('the text of the error of an evaluator changes when another evaluator (of another malformed text) is created before it is used', [c], impl=io)
    ctx.compare(mode_cases, res, ['lexok', 'accept'])
    for c in mode_cases:
        io = res.impl.get(c.id)
        if io and io.get('modes') == '0':
            ctx.violation('a text is accepted or rejected differently when the generated lexer / parser are used in the usual ANTLR order or re-used for many texts', [c], impl=io)
    ctx.compare([c for c in cs.cases if c.kind not in ('hist', 'ileave', 'syntax')], res, ['accept', 'verdict', 'err', 'ev3'], scope=valid_utf8)
    nrej = 0
    for c in cs.cases:
        mo, io = res.model.get(c.id), res.impl.get(c.id)
        if not mo or not io or 'accept' not in mo or c.kind == 'syntax':
            continue
        if mo['accept'] == '0' and valid_utf8(c):
            nrej += 1
            ctx.nontrivial.add(c.line.split(' ', 2)[2])
            if io.get('verdict') != '0' or io.get('err') == 'none' or io.get('ev3') != '010':
                ctx.violation('a text that is not a sentence of the grammar is not rejected on every entry point: verdict=%s err=%s (rules.Evaluate verdict, error?, parser.Evaluate)=%s' % (io.get('verdict'), io.get('err'), io.get('ev3')), [c], impl=io)
    ctx.extra['accept_reject'] = {'rejected_by_recogniser': nrej, 'accepted': len(cs.cases) - nrej}
    spread_samples(ctx, cs, res)

def check_C20(ctx):
    cs = CaseSet()
    def add(text, fam, **meta):
        cs.syntax(text, fam, **meta)
    fam_text(add, ctx.rng, ctx.n(600, 20000), 5, ctx.n(1500, 40000), ctx.n(200, 4000))
    for t in FIXED_TEXTS:
        cs.syntax(t, 'text-fixed')
    for t in scale.error_counts(ctx):
        cs.syntax(t, 'error-counts')
    # token-level facts named in the statement
    for t in ['order', 'or', 'ordering', 'andy', 'and', 'nota', 'not', 'notx', 'prx', 'pr', 'p', 'eqx', 'eq', 'nullx', 'null', 'truex', 'in1', 'IN', 'In',
              '1.2.3', '1.2', '1.2.', '1.2.3.4', '1..2', '<=', '<', '<==', '>=', '=>', '!=', '!', '=', '==', '===', 'a-b', 'a_b', 'a:b', 'a.b', 'a1', '1a', '-a', '_a', ':a', 'a-',
              'e5', 'e+5', 'E-5', '1e5', '1e+5', '1.5e5', '1.5e+5', '1.5e', '-1', '-1.5', '- 1', '--1', '01', '0', '00', '0.0', '00.0', '-0.5', '1.0.0', '01.0.0', '1.00.0',
              '""', '"a"', '"a', 'a"', '"\\n"', '"\\x"', '"\\u12ab"', '"\\u12a"', '"\n"', '"a"b"', ',', ', ', ',  ', ' ,', ' ', '  ', ' \n', '\n', '\n ', ' \n\n ', '\r', '\t']:
        cs.syntax(t, 'token-facts')
    # long tokens (harness/scale.py)
    for t_ in scale.long_tokens(ctx):
        cs.syntax(t_, 'long-token')
    for depth in ([8, 16, 17, 31, 32, 33, 64, 65, 100] if ctx.quick else [8, 16, 17, 31, 32, 33, 64, 65, 100, 257, 600]):
        cs.syntax('(' * depth + 'x eq 1' + ')' * depth, 'deep-sentence')
        cs.syntax('( ' * depth + 'x eq 1' + ' )' * depth, 'deep-sentence')
        t_ = 'z pr'
        for i_ in range(depth):
            t_ = 'a%d pr and (%s)' % (i_, t_) if i_ % 2 else 'not (%s) or b%d eq %d' % (t_, i_, i_)
        cs.syntax(t_, 'deep-sentence')
        cs.syntax(t_ + ')', 'deep-sentence')
    # a sentence with one extra character at its very ends (format characters, BOM, every kind of blank, controls)
    for ch_ in ['\x00', '\x07', '\x1b', '\x7f', '\u200b', '\ufeff', '\u00ad', '\ue000', '\u2060', '\U000e0001', '\u200e', '\u061c', '\t', '\r', '\n', '\x0b', '\x0c', ' ', '\u0085', '\u00a0',
                '\u1680', '\u2003', '\u2028', '\u2029', '\u202f', '\u205f', '\u3000', '\u180e', '\ufffe', '\ufffd', ';', '#', '"', "'", '`']:
        for b_ in ['x eq 1', 'x pr', '(x eq 1)', 'x eq "a"', 'x in [1]', 'not (x pr)']:
            cs.syntax(ch_ + b_, 'edge-character')
            cs.syntax(b_ + ch_, 'edge-character')
            cs.syntax(ch_ + ch_ + b_, 'edge-character')
    if not ctx.quick:
        # sentences of more than a mebibyte (a long literal, a long list, a long flat chain)
        cs.syntax('x eq "%s"' % ('a' * 1100000), 'mebibyte-sentence')
        cs.syntax('x in [%s]' % ', '.join(['1'] * 380000), 'mebibyte-sentence')
        cs.syntax(' or '.join(['x eq "%s"' % ('a' * 100)] * 10000), 'mebibyte-sentence')
        cs.syntax(' or '.join(['x eq 1'] * 110000), 'mebibyte-sentence')
    res = ctx.run(cs)
    ctx.compare(cs.cases, res, ['lexok', 'toks', 'accept', 'tree'], nontrivial=lambda c, mo: True)
    nacc = sum(1 for c in cs.cases if (res.model.get(c.id) or {}).get('accept') == '1')
    ctx.extra['accept_reject'] = {'accepted': nacc, 'rejected': len(cs.cases) - nacc}
    spec_violations(ctx, 'shipped lexer/parser vs grammar')
    # the same text through the generated lexer / parser used in the usual ANTLR order (listeners attached after construction) and through
    # ONE lexer and ONE parser object re-armed for every text of the process: same acceptance, same tree
    for c in cs.cases:
        io = res.impl.get(c.id)
        if io and io.get('modes') == '0':
            ctx.violation('the generated lexer / parser accept or read this text differently when the listeners are attached after construction, or when one lexer and one parser object are re-used for many texts', [c], impl=io)
    # token numbering derived from the .g4 by the translator vs the generated JsonQuery.tokens
    import re as _re
    try:
        gen = open(os.path.join(VERIF, 'coq', 'GrammarGen.v')).read()
        mm = _re.search(r'g4_token_types[^\[]*\[(.*?)\]\.', gen, _re.S)
        ours = {k[2:]: int(v) for k, v in _re.findall(r'\((K_\w+), (\d+)\)', mm.group(1))}
        lit = {'LP': "'('", 'RP': "')'", 'PR': "'pr'", 'DOT': "'.'", 'MINUS': "'-'", 'LB': "'['", 'RB': "']'"}
        theirs = {}
        for line in open(os.path.join(REPO, 'parser', 'JsonQuery.tokens')):
            line = line.strip()
            if '=' in line:
                k, v = line.rsplit('=', 1)
                theirs[k] = int(v)
        for k, v in ours.items():
            name = lit.get(k, k)
            if theirs.get(name) != v:
                ctx.mismatches.append((Case('tokens', 'src', '(token %s)' % k, 'source'), 'token type of %s' % name, theirs.get(name), v))
    except Exception as e:
        ctx.notes.append('token numbering check failed: %r' % e)
    spread_samples(ctx, cs, res)

# ----------------------------------------------------------------------------
HOSTILE_STRINGS = [S(b'\x80' * 100), S(b'\xbf' * 65), S(b'\xff' * 70), S('\u00e9' * 40), S('a' * 63 + '\u00e9' + 'b' * 10), S('x' * 300), S(b'a' * 64 + b'\xc3'), S(b'\xe3\x81' * 40), S('\U0001f600' * 20), S(b'\x00' * 70)]
HOSTILE = HOSTILE_STRINGS + [('strpanic',), ('strnilptr',), ('strselfpanic',), ('strpanicinvop',), ('strpanicinvopw',), ('nilmap',), ('nil',), F(float('nan')), F(float('inf')), F(float('-inf'))] + [('o', t) for t in list(range(21)) + [22, 23, 24, 25, 26, 27, 29, 30, 31, 32, 33, 34, 35, 36, 37, 38, 39, 40, 41, 42, 43, 44, 45, 46, 47, 48, 49, 50, 51, 52, 53, 54, 55, 56, 57, 58, 59, 60, 61, 62, 63]] + \
          [('str', b'abc'), ('strptr', b'1.0.0'), ('m', [(b'y', ('strpanic',))]), ('m', [(b'y', ('o', 3))]), ('strsame', b'abc'), ('strsame', b'abcd'), ('strreent', b'abc'), ('strtm', b'abc')]

def check_C07(ctx):
    cs = CaseSet()
    lits = ['1', '-1', '1.5', '"abc"', '1.0.0', 'true', 'null', '[1,2]', '[1.5]', '["abc"]', '99999999999999999999', '1.0e999', '[99999999999999999999]']
    for h in HOSTILE:
        for lit in lits:
            for op in OPS:
                sp = OP_SPELL[op][0]
                cs.eval('x %s %s' % (sp, lit), obj({'x': h}), 'hostile-leaf')
                cs.eval('x.y %s %s' % (sp, lit), obj({'x': h}), 'hostile-midpath')
        cs.eval('x pr', obj({'x': h}), 'hostile-leaf')
        cs.eval('x.y.z pr', obj({'x': {'y': h}}), 'hostile-midpath')
        cs.eval('x.y pr or k eq 1', obj({'x': h, 'k': I(1)}), 'hostile-midpath')
    eval_texts(ctx, cs, ctx.n(150, 5000), 4, ctx.n(300, 10000), ctx.n(600, 40000))
    for depth in ([100, 1000] if ctx.quick else [100, 1000, 2000]):
        cs.eval('(' * depth + 'x eq 1' + ')' * depth, obj({'x': I(1)}), 'deep-parens')
        cs.eval('not (' * depth + 'x eq 1' + ')' * depth, obj({'x': I(1)}), 'deep-parens')
        cs.eval('(' * depth, obj({}), 'deep-parens')
        cs.eval(' and '.join(['x eq 1'] * depth), obj({'x': I(1)}), 'long-chain')
        cs.eval('.'.join(['a'] * depth) + ' pr', obj({'a': {'a': {'a': I(1)}}}), 'long-path')
        cs.eval('x in [' + ','.join(['1'] * depth) + ']', obj({'x': I(1)}), 'long-list')
    # errors handed to the caller must stay usable after later calls on the same evaluator (kept= flag of the driver)
    for text in T_RULES:
        for i_ in range(len(T_OBJS) - 2):
            ops = [('p', T_OBJS[i_]), ('d',), ('p', T_OBJS[i_ + 1]), ('d',), ('r',), ('p', T_OBJS[i_ + 2]), ('d',), ('p', T_OBJS[i_]), ('r',), ('d',)]
            cs.hist(text, ops, 'kept-errors')
    for (t_, o_, fam_, *_m) in scale.straddling_strings(ctx):
        cs.eval(t_, o_, fam_)
    # each batch in its own child process: a killed process is observed and attributed
    res = ctx.run(cs, nshards=ctx.n(16, 32))
    ctx.compare([c for c in cs.cases if c.kind != 'hist'], res, ['verdict', 'err'])
    ctx.compare([c for c in cs.cases if c.kind == 'hist'], res, ['out'])
    for c in cs.cases:
        io = res.impl.get(c.id)
        if not io:
            continue
        if c.kind == 'hist':
            continue
        if io.get('escaped') != '0':
            ctx.violation('a panic escaped a public call', [c], impl=io)
        elif io.get('dbgtext') in ('panic', 'unstable') or 'panic' in io.get('errtext', '') or 'unstable' in io.get('errtext', ''):
            ctx.violation('Error() of a returned error panicked (dbgtext=%s errtext=%s)' % (io.get('dbgtext'), io.get('errtext')), [c], impl=io)
        elif io.get('err') != 'none' and io.get('verdict') != '0':
            ctx.violation('an error was returned together with verdict true', [c], impl=io)
    ctx.extra['not_exhibited_by_model'] = 'panics inside the ANTLR runtime, fmt or encoding/json; fatal runtime errors (stack exhaustion, out of memory); user-defined marshalling (excluded by the statement). These are only sampled: every batch runs in a child process whose death is reported.'
    spread_samples(ctx, cs, res)

# ----------------------------------------------------------------------------
def rand_history(ctx, info, n):
    ops = []
    for _ in range(n):
        r = ctx.rng.random()
        if r < 0.7:
            o = object_for(ctx.rng, info) if ctx.rng.random() < 0.8 else ctx.rng.choice(SMALL_OBJS)
            if ctx.rng.random() < 0.1 and info:
                leaf = ctx.rng.choice(info)[0]
                o = ('m', o[1] + [(leaf[1][0].encode(), ctx.rng.choice(HOSTILE))])
            ops.append(('q' if ctx.rng.random() < 0.3 else 'p', o))
        elif r < 0.85:
            ops.append(('r',))
        else:
            ops.append(('d',))
    return ops

def check_C11(ctx):
    cs = CaseSet()
    hs = []
    for i in range(ctx.n(500, 15000)):
        if ctx.rng.random() < 0.85:
            q, info, text = random_sentence(ctx.rng, 4)
        else:
            text, info = ctx.rng.choice(FIXED_TEXTS), []
        ops = rand_history(ctx, info, ctx.rng.randint(1, ctx.n(12, 120)))
        h = cs.hist(text, ops, 'hist')
        fresh = [cs.eval(text, o[1], 'hist-fresh') if o[0] in ('p', 'q') else None for o in ops]
        hs.append((h, ops, fresh))
    # targeted: every ordered pair / selected triples of calls from a per-rule object pool,
    # for rules mixing list literals (incl. out-of-range elements), nested paths and every
    # literal kind; the pools contain calls that err, calls that panic and clean calls
    for text in T_RULES:
        for o1 in T_OBJS:
            for o2 in T_OBJS:
                for mid in ((), (('r',),), (('d',),)) if ctx.rng.random() < ctx.n(0.25, 1.0) else ((),):
                    ops = [('p', o1)] + list(mid) + [(ctx.rng.choice(['p', 'q']), o2), ('d',)]
                    h = cs.hist(text, ops, 'hist-pairs')
                    fresh = [cs.eval(text, o[1], 'hist-fresh') if o[0] in ('p', 'q') else None for o in ops]
                    hs.append((h, ops, fresh))
        for _ in range(ctx.n(20, 300)):
            ops = [(ctx.rng.choice(['p', 'q']), ctx.rng.choice(T_OBJS)) if ctx.rng.random() < 0.8 else (ctx.rng.choice(['r', 'd']),) for _ in range(ctx.rng.randint(3, 8))]
            h = cs.hist(text, ops, 'hist-targeted')
            fresh = [cs.eval(text, o[1], 'hist-fresh') if o[0] in ('p', 'q') else None for o in ops]
            hs.append((h, ops, fresh))
    # long lives: one evaluator used for 17 .. 129 (257) calls, alternating objects, Reset at odd moments
    for text in T_RULES[:8] + ['x in [1, 2, 3, 4, 5, 6, 7, 8, 9, 10, 11, 12, 13, 14, 15, 16, 17, 99999999999999999999] or y eq 1', 'a.b.c eq 1 and a.b.d eq 2 or a.e pr']:
        for n in ([17, 33, 65] if ctx.quick else [17, 33, 65, 129, 257]):
            ops = []
            for i in range(n):
                r = ctx.rng.random()
                if r < 0.85:
                    ops.append((ctx.rng.choice(['p', 'p', 'q']), T_OBJS[(i * 7 + ctx.rng.randrange(3)) % len(T_OBJS)]))
                elif r < 0.93:
                    ops.append(('d',))
                else:
                    ops.append(('r',))
            ops.append(('d',))
            h = cs.hist(text, ops, 'hist-long')
            fresh = [cs.eval(text, o[1], 'hist-fresh') if o[0] in ('p', 'q') else None for o in ops]
            hs.append((h, ops, fresh))
    # many DISTINCT values through one evaluator (caches that fill up and evict), then the first ones again
    for text, mk in [('name eq "user255"', lambda i: obj({'name': S('User%d' % i)})), ('name co "ser1" or name ew "7"', lambda i: obj({'name': S('User%d' % i)})),
                     ('name in ["user1", "user300", "USER7"] and n pr', lambda i: obj({'name': S('user%d' % i), 'n': I(i)})),
                     ('n eq 255 or n in [1, 2, 300]', lambda i: obj({'n': I(i)})), ('v gt 1.0.0', lambda i: obj({'v': S('%d.0.0' % (i % 3))})),
                     ('a.b.c eq 1 or k%d pr' % 0, lambda i: obj({'k%d' % (i % 70): I(1), 'a': {'b': {'c': I(i % 2)}}}))]:
        for n in ([70, 300] if ctx.quick else [70, 300, 1100]):
            ops = [('p', mk(i)) for i in range(n)] + [('p', mk(i)) for i in (0, 1, 2, 7, 255 % n, n - 1, 0)] + [('d',)]
            h = cs.hist(text, ops, 'hist-many-values')
            fresh = [cs.eval(text, o[1], 'hist-fresh') if o[0] in ('p', 'q') else None for o in ops]
            hs.append((h, ops, fresh))
    # thousands of calls with a skewed outcome, then objects for which the operand order matters (adaptive reordering, counters that wrap)
    for text, common, probes in [('tier eq "gold" or active eq true', obj({'tier': S('silver'), 'active': ('b', True)}), [obj({'active': ('b', True)}), obj({'tier': I(5), 'active': ('b', True)}), obj({'tier': S('gold')})]),
                                 ('a.b eq 1 or ok eq true', obj({'a': {'b': I(2)}, 'ok': ('b', True)}), [obj({'a': I(5), 'ok': ('b', True)}), obj({'ok': ('b', True)}), obj({'a': {'b': I(1)}})]),
                                 ('x gt 0 and y lt 10', obj({'x': I(1), 'y': I(50)}), [obj({'y': I(50)}), obj({'x': S('s'), 'y': I(50)}), obj({'x': I(1), 'y': I(5)})]),
                                 ('a.b eq 1 and y lt 10', obj({'a': {'b': I(1)}, 'y': I(50)}), [obj({'a': I(5), 'y': I(50)}), obj({'a': I(5), 'y': I(5)}), obj({'a': {'b': I(1)}, 'y': I(5)}), obj({'a': S('s'), 'y': I(50)})]),
                                 ('x gt true and y lt 10', obj({'x': ('b', True), 'y': I(5)}), [obj({'x': I(1), 'y': I(50)})]),
                                 ('a.b eq 1 and c eq "x"', obj({'a': {'b': I(1)}, 'c': S('y')}), [obj({'a': I(5), 'c': S('y')}), obj({'a': I(5), 'c': S('x')}), obj({'a': ('strpanic',), 'c': S('y')})]),
                                 ('not (a.b eq 1 and c pr)', obj({'a': {'b': I(1)}}), [obj({'a': I(5)}), obj({'a': I(5), 'c': I(1)})]),
                                 ('a gt true and c eq null', obj({'a': ('b', True), 'c': I(1)}), [obj({'a': I(1), 'c': I(1)}), obj({'a': I(1)})]),
                                 ('x gt null or y eq 1', obj({'y': I(1)}), [obj({'y': I(1)}), obj({})])]:
        n_ = 5000 if ctx.quick else 70000
        ops = [('p', common)] * n_ + [('p', pr_) for pr_ in probes] + [('d',)] + [('p', common)] * 10 + [('p', pr_) for pr_ in probes] + [('d',)]
        h = cs.hist(text, ops, 'hist-skewed')
        ce_ = cs.eval(text, common, 'hist-fresh')
        fresh = [(ce_ if o[1] is common else cs.eval(text, o[1], 'hist-fresh')) if o[0] in ('p', 'q') else None for o in ops]
        hs.append((h, ops, fresh))
    # rule texts with blanks / line ends around them, Reset in between (whatever is kept for later calls is the trimmed sentence)
    for base_ in ['x eq 1', 'x eq 1 or y.z pr', 'name co "a b"', 'x in [1, 2]', 'x eq', 'not (x gt 0)']:
        for pad_ in [(' ', ''), ('', ' '), ('', '\n'), ('\r\n', '\r\n'), ('\t', '\t '), ('  ', '  '), ('\n\n', ''), ('', '\r')]:
            text_ = pad_[0] + base_ + pad_[1]
            oa_, ob_ = obj({'x': I(1), 'name': S('xa bx')}), obj({'x': I(0), 'y': {'z': I(1)}})
            for ops in ([('p', oa_), ('r',), ('p', oa_), ('d',), ('p', ob_), ('r',), ('r',), ('p', ob_), ('p', oa_), ('d',)], [('r',), ('p', oa_), ('d',)], [('p', ob_), ('p', oa_), ('r',), ('d',), ('p', oa_)]):
                h = cs.hist(text_, ops, 'hist-padded-text')
                fresh = [cs.eval(text_, o[1], 'hist-fresh') if o[0] in ('p', 'q') else None for o in ops]
                hs.append((h, ops, fresh))
    # a comparison that is reached in call k and not again until call k+g, g around 256 / 512 / 65536 (per-call stamps that wrap)
    for text_, skip_, reach_ in [('first eq 1 or a.b eq 1', obj({'first': I(1), 'a': {'b': I(2)}}), lambda v: obj({'first': I(0), 'a': {'b': I(v)}})),
                                 ('first eq 1 and a.b eq 1', obj({'first': I(0), 'a': {'b': I(1)}}), lambda v: obj({'first': I(1), 'a': {'b': I(v)}})),
                                 ('first pr or (n.s co "x" and n.k in [1, 2])', obj({'first': I(1)}), lambda v: obj({'n': {'s': S('x' if v == 1 else 'y'), 'k': I(v)}}))]:
        r1_, r2_ = reach_(1), reach_(2)
        gaps_ = [254, 255, 256, 257, 510, 511, 512, 513] + ([] if ctx.quick else [1023, 1024, 65534, 65535, 65536, 65537])
        for g in gaps_:
            ops = [('p', r1_)] + [('p', skip_)] * g + [('p', r2_), ('d',), ('p', r1_)] + [('p', skip_)] * g + [('p', r2_), ('d',)]
            h = cs.hist(text_, ops, 'hist-gaps')
            cache_ = {id(r1_): cs.eval(text_, r1_, 'hist-fresh'), id(r2_): cs.eval(text_, r2_, 'hist-fresh'), id(skip_): cs.eval(text_, skip_, 'hist-fresh')}
            fresh = [cache_[id(o[1])] if o[0] in ('p', 'q') else None for o in ops]
            hs.append((h, ops, fresh))
    # many calls on a rule with many comparisons: more than 2^20 (2^24) comparisons through one evaluator in total
    for (nops_, ncalls_) in ([(300, 3600)] if ctx.quick else [(300, 3600), (300, 5000), (100, 20000), (40, 30000)]):   # one case line stays below the 64 MB the readers accept
        text_ = ' and '.join('k%d eq %d' % (i, i) for i in range(nops_))
        oa_ = obj({'k%d' % i: I(i) for i in range(nops_)})
        ob_ = obj({'k%d' % i: I(i) for i in range(nops_ - 1)})
        ops = [('p', oa_)] * ncalls_ + [('d',), ('p', ob_), ('d',), ('p', oa_), ('d',), ('r',), ('p', oa_), ('p', ob_), ('d',)]
        h = cs.hist(text_, ops, 'hist-budget')
        ea_, eb_ = cs.eval(text_, oa_, 'hist-fresh'), cs.eval(text_, ob_, 'hist-fresh')
        fresh = [(ea_ if o[1] is oa_ else eb_) if o[0] in ('p', 'q') else None for o in ops]
        hs.append((h, ops, fresh))
    # the caller changes its object in place after the call and only then asks for the diagnostic: it is the diagnostic of the call
    for text_ in ['x eq 1', 'a.b eq 1 or x eq 1', 'x eq "s" and y pr', 'x in [1, 2]', 'not (x gt 0)', 'x eq 1 or y eq 2']:
        for (o1_, o2_) in [(obj({}), obj({'x': I(1), 'y': I(2), 'a': {'b': I(1)}})), (obj({'x': S('s')}), obj({'x': I(1), 'y': I(1)})), (obj({'x': I(1), 'y': I(2)}), obj({})), (obj({'x': I(5)}), obj({'x': S('s')}))]:
            for ops in ([('n', o1_), ('u', o2_), ('d',), ('n', o1_), ('d',)], [('p', o2_), ('n', o1_), ('u', o2_), ('d',), ('u', o1_), ('d',), ('r',), ('u', o2_), ('d',)], [('p', o1_), ('d',), ('u', o2_), ('d',), ('n', o1_), ('u', o2_), ('d',), ('d',)],
                        [('n', o1_), ('d',), ('n', o2_), ('u', o1_), ('d',)]):
                h = cs.hist(text_, ops, 'hist-inplace-no-call')
                fresh = [cs.eval(text_, o[1], 'hist-fresh') if o[0] in ('p', 'q', 'n') else None for o in ops]
                hs.append((h, ops, fresh))
    # ONE pointer-typed Stringer value of the caller whose text changes between the calls (what is remembered per value must not be
    # remembered per pointer)
    for text_ in ['x in ["abc", "q"]', 'x eq "abc"', 'x co "b" or y eq 1', 'x in ["abc"] and x sw "a"', 'not (x in ["xyz"])', 'x gt "m"']:
        for seq_ in (['abc', 'xyz', 'abc'], ['xyz', 'abc'], ['abc', 'abc', 'ABC', 'q', 'abc'], ['q', 'xyz', 'abc', 'xyz']):
            ops = []
            for v_ in seq_:
                ops += [('p', obj({'x': ('strkeep', v_.encode())})), ('d',)]
            h = cs.hist(text_, ops, 'hist-kept-pointer')
            fresh = [cs.eval(text_, obj({'x': ('str', o[1][1][0][1][1])}), 'hist-fresh') if o[0] == 'p' else None for o in ops]
            hs.append((h, ops, fresh))
    # lists of every length around round sizes, attribute values around membership (fractions, the other numeric types), from the second call on
    for n in ([1, 2, 7, 8, 15, 16, 17, 32, 33, 64, 65] if ctx.quick else [1, 2, 7, 8, 9, 15, 16, 17, 31, 32, 33, 63, 64, 65, 127, 128, 129, 256, 257, 1025]):
        for text_, vals_ in [('x in [%s]' % ', '.join(str(i) for i in range(1, n + 1)), [F(2.5), F(n + 0.999), F(1.0), F(float(n)), F(n + 1.0), I(n), I(n + 1), F(0.5), F(-0.0), ('i64', n), ('i32', 1), S('1'), F(float('nan'))]),
                             ('x in [%s]' % ', '.join('%d.5' % i for i in range(1, n + 1)), [F(1.5), F(n + 0.5), I(1), F(1.0), F(n + 1.5), F(1.4999999999999998), I(n), S('1.5')]),
                             ('x in [%s] or y eq 1' % ', '.join('"v%d"' % i for i in range(1, n + 1)), [S('v1'), S('V%d' % n), S('v%d' % (n + 1)), S('v'), S('v1 '), I(1), ('str', b'v1'), S('v01')])]:
            ops = []
            for v in vals_:
                ops += [('p', obj({'x': v}))]
            ops += [('d',), ('r',)] + [('p', obj({'x': v})) for v in reversed(vals_)] + [('d',)] + [('p', obj({'x': vals_[0]})), ('p', obj({'x': vals_[1]}))]
            h = cs.hist(text_, ops, 'hist-lists')
            fresh = [cs.eval(text_, o[1], 'hist-fresh') if o[0] in ('p', 'q') else None for o in ops]
            hs.append((h, ops, fresh))
    res = ctx.run(cs)
    # a Process whose diagnostic the caller does not look at ('n'): the driver prints `skip` for it, the model's third field is dropped likewise
    for h, ops, fresh in hs:
        if any(o[0] == 'n' for o in ops) and h.id in res.model and 'out' in res.model[h.id]:
            mo_ = res.model[h.id]['out'].split(';')
            k_ = 0
            for o in ops:
                if o[0] == 'u':
                    continue
                if o[0] == 'n' and k_ < len(mo_):
                    mo_[k_] = ','.join(mo_[k_].split(',')[:2] + ['skip'])
                k_ += 1
            res.model[h.id]['out'] = ';'.join(mo_)
    ctx.compare([c for c in cs.cases if c.kind == 'hist'], res, ['out'], nontrivial=lambda c, mo: True)
    run_sequences(ctx)
    for h, ops, fresh in hs:
        io = res.impl.get(h.id)
        if not io or 'out' not in io or io['out'] == 'NEWERR':
            continue
        outs = io['out'].split(';')
        last = None
        fresh = [f for (op_, f) in zip(ops, fresh) if op_[0] != 'u']
        ops = [op_ for op_ in ops if op_[0] != 'u']   # a change of the caller's object without a call prints nothing
        for k, (op, o, f) in enumerate(zip(ops, outs, fresh)):
            if op[0] in ('p', 'q', 'n'):
                fo = res.impl.get(f.id)
                if not fo:
                    continue
                v, e, d = o[1:].split(',')
                if d == 'skip':
                    # the diagnostic of this call was not read at once: it is what a fresh evaluator reports for this object
                    if (v, e) != (fo['verdict'], fo['err']):
                        ctx.violation('call %d on a reused evaluator gave %s, a fresh evaluator gives %s/%s' % (k, o, fo['verdict'], fo['err']), [h, f])
                        break
                    last = fo['dbg']
                    continue
                if (v, e, d != 'nil') != (fo['verdict'], fo['err'], fo['dbg'] != 'nil'):
                    ctx.violation('call %d on a reused evaluator gave %s, a fresh evaluator gives %s/%s/%s' % (k, o, fo['verdict'], fo['err'], fo['dbg']), [h, f])
                    break
                last = d
            elif op[0] == 'r':
                last = 'nil'
            else:
                want = last if last is not None else 'nil'
                if (o[1:] != 'nil') != (want != 'nil') or (o[1:] != want and want in ('nil', 'invop', 'missing', 'operand') and o[1:] in ('nil', 'invop', 'missing', 'operand')):
                    ctx.violation('LastDebugErr at step %d is %s, the latest Process/Reset left %s' % (k, o[1:], want), [h])
                    break
    # creation order / warm caches: the same cases in different orders, each order in its own process
    sub = [c for c in cs.cases if c.kind == 'hist'][: ctx.n(150, 2000)]
    base = {c.id: res.impl.get(c.id) for c in sub}
    for rep in range(ctx.n(2, 6)):
        order = list(sub)
        ctx.rng.shuffle(order)
        r2 = run_cases(order, ctx.work, nshards=ctx.rng.choice([1, 2, 3]), label='perm%d' % rep, sides=('impl',))
        ctx.evaluations += len(order)
        for c in order:
            if r2.impl.get(c.id) != base[c.id]:
                ctx.violation('result depends on which evaluators were created before (parser caches): %s vs %s' % (base[c.id], r2.impl.get(c.id)), [c])
    ctx.extra['not_modelled'] = 'ANTLR process-wide ATN/DFA caches: sampled by replaying the histories in permuted creation orders, each order in a fresh process'
    spread_samples(ctx, cs, res)

# ----------------------------------------------------------------------------
def check_C13(ctx):
    cs = CaseSet()
    eval_texts(ctx, cs, ctx.n(400, 10000), 2, ctx.n(200, 5000), ctx.n(50, 1000), objs_per=2)
    fam_leaf_exh(cs, ctx.rng, stride=ctx.n(7, 1))
    fail_compounds(ctx, cs, ctx.n(500, 10000))
    fam_other_typed(cs, ctx.rng)
    for h in HOSTILE:
        for t in ['x eq "a"', 'x.y eq 1', 'x in ["a"]', 'x eq 1', 'n.x pr and x co "a"', 'x pr or x.y.z eq 1', 'x.name eq "bob"', 'x.k1 eq 1 or n.x.k1 pr', 'x in [1, 7, 14]']:
            cs.eval(t, obj({'x': h, 'n': {'x': h}}), 'hostile')
    hs = []
    for _ in range(ctx.n(100, 2000)):
        q, info, text = random_sentence(ctx.rng, 4)
        hs.append(cs.hist(text, rand_history(ctx, info, 6), 'hist'))
    # shared sub-objects: one map value reachable by several paths
    sub = {'a': I(1), 'b': {'c': I(2)}, 's': S('v')}
    shared = [obj({'x': sub, 'y': sub, 'z': {'w': sub}}), obj({'x': {'b': {'c': I(2)}}, 'y': {'c': I(2)}, 'n': {'x': {'c': I(2)}}}), obj({'x': {}, 'y': {}, 'n': {'x': {}}})]
    for o in shared:
        for t in ['x.a eq 1 and y.a eq 1', 'x.b.c eq 2 or z.w.b.c eq 2', 'x.q.r eq 1 or y.q.r pr', 'x.s eq "V" and z.w.s co "v"', 'x.b.c in [1,2] and y.c in [2]',
                  'n.x.c eq 2', 'x.a.b.c eq 1', 'y.zz pr', 'x pr and y pr', 'x.b.c gt null', 'x eq 1 or y.b eq 2', 'z.w.b.q.r eq 1 or x.b.q eq null']:
            cs.evals(t, o, 'shared-subobjects')
    # size and shape beyond small random rules (harness/scale.py)
    for (t_, o_, fam_, *_m) in scale.wide_objects(ctx):
        cs.eval(t_, o_, fam_)
    for (t_, o_, fam_, *_m) in scale.deep_paths(ctx):
        cs.eval(t_, o_, fam_)
    for (t_, o_, fam_, *_m) in scale.long_lists(ctx):
        cs.eval(t_, o_, fam_)
    big = obj({'doc': {'body': S('x' * 300), 'n': {'deep': S('Y' * 1000), 'l': ('o', 33)}, 'Title': S('T')}, 'Roles': ('o', 33), 'roles': ('o', 34), 'k': I(1)})
    for t in ['doc eq "t"', 'doc gt true', 'doc in [1, 2]', 'doc co "x"', 'doc eq 1', 'doc.n eq 1.5', 'doc.n.deep eq "y"', 'doc.n.deep co "yy"', 'DOC.body pr', 'doc.BODY pr', 'doc.title eq "t"',
              'Doc.Title eq "T" or k eq 1', 'roles co "admin"', 'Roles co "admin"', 'Roles sw "a"', 'roles in ["admin"]', 'Roles in ["admin", "root"]', 'Roles eq "Admin"', 'doc.n.l co "root"',
              'K eq 1', 'k eq 1 and ROLES pr', 'doc.n.l ew "s" or doc.n.deep ew "y"']:
        cs.eval(t, big, 'big-values')
    for (t_, o_, fam_, *_m) in scale.shared_suffixes(ctx) + scale.aligned_lines(ctx)[:200]:
        cs.eval(t_, o_, fam_)
    for (t_, o_, fam_, *_m) in scale.odd_keys(ctx):
        cs.eval(t_, o_, fam_)
    for (t_, o_, fam_, *_m) in scale.nil_object(ctx):
        cs.eval(t_, o_, fam_)
    res = ctx.run(cs)
    ctx.compare([c for c in cs.cases if c.kind in ('eval', 'evals')], res, ['verdict', 'err'])
    for c in cs.cases:
        io = res.impl.get(c.id)
        if c.kind in ('eval', 'evals') and io and io.get('frame') != '1':
            ctx.violation('the input object was modified by the call', [c], impl=io)
    # input objects that contain themselves (no model counterpart): every call returns, the diagnostic's text can be produced, nothing is written
    cyc = CaseSet()
    for k_ in range(9):
        cyc.simple('cyclic', str(k_), 'cyclic-object', scenario=k_)
    cres = ctx.run(cyc, label='cyc', nshards=len(cyc.cases), sides=('impl',), timeout=300, own_crash_handling=True)
    for c in cyc.cases:
        io = cres.impl.get(c.id)
        if io is None:
            ctx.violation('the process was killed while evaluating rules on an object that contains itself (scenario %d of driver/cyclic.go)' % c.meta['scenario'], [c])
            continue
        for i_, o_ in enumerate((io.get('out') or '').split(';')):
            f_ = o_.split(',')
            if len(f_) != 6 or f_[5] != '0' or 'panic' in f_[3] or 'empty' in f_[3] or (f_[1] != 'none' and f_[0] != '0'):
                ctx.violation('on an object that contains itself (scenario %d, rule %d of driver/cyclic.go): %s' % (c.meta['scenario'], i_, o_), [c], impl=io)
                break
        if io.get('frame') != '1':
            ctx.violation('an object that contains itself was modified (scenario %d of driver/cyclic.go)' % c.meta['scenario'], [c], impl=io)
        if io and io.get('repaired') == '0':
            ctx.violation('after the caller took the self-reference out of its object in place, the diagnostic of the next call still describes the old value (scenario %d of driver/cyclic.go)' % c.meta['scenario'], [c], impl=io)
    ctx.crashes = [cr for cr in ctx.crashes if not (cr[0] == 'impl' and cr[4] in cyc.by_id)]
    ctx.extra['not_modelled'] = 'aliasing through values retained by a diagnostic (kept, never written)'
    spread_samples(ctx, cs, res)

CHECKS.update({'C05': check_C05, 'C20': check_C20, 'C07': check_C07, 'C11': check_C11, 'C13': check_C13})

# ----------------------------------------------------------------------------
def check_C12(ctx):
    import subprocess as sp
    cs = CaseSet()
    eval_texts(ctx, cs, ctx.n(120, 1500), 1, ctx.n(40, 500), ctx.n(10, 100))
    fam_leaf_exh(cs, ctx.rng, stride=ctx.n(97, 11))
    fail_compounds(ctx, cs, ctx.n(100, 2000))
    cases = [c for c in cs.cases if len(c.line) < 3000]
    # rules nested deeply on every goroutine at once (a nesting budget shared by the goroutines would run out), attribute values whose
    # String() evaluates rules itself (a package lock around caller code would never be released)
    n0_ = len(cs.cases)
    for i_ in range(32):
        d_ = 4200
        leaf_ = 'x eq %d' % (1 + i_ % 2)
        cs.eval(('(' if i_ % 4 < 2 else 'not (') * d_ + leaf_ + ')' * d_, obj({'x': I(1)}), 'conc-deep')
    for t_ in ['x eq "abc"', 'x co "b" and k eq 1', 'n.x sw "a" or k eq 1', 'x in ["abc", "q"]']:
        cs.eval(t_, obj({'x': ('strreent', b'abc'), 'k': I(1), 'n': {'x': ('strreent', b'abc')}}), 'conc-reentrant-stringer')
    # the deep rules come first: the goroutines start together behind a barrier, so they are all inside their deep rule at the same time
    # 64 cases whose attribute value evaluates rules itself, run in the storm below on 32 goroutines at once (a bounded number of slots or a
    # lock taken around caller code would leave every goroutine waiting for another)
    n1_ = len(cs.cases)
    for i_ in range(64):
        cs.eval(['x eq "abc"', 'x co "b" and k eq 1', 'n.x sw "a" or k eq 1', 'x in ["abc", "q"]'][i_ % 4], obj({'x': ('strreent', b'abc'), 'k': I(1), 'n': {'x': ('strreent', b'abc')}, 'i': I(i_)}), 'conc-reentrant-storm')
    storm_cases = cs.cases[n1_:]
    deep_cases = [c for c in cs.cases[n0_:] if c.fam == 'conc-deep']
    cases = [c for c in cs.cases[n0_:] if c.fam not in ('conc-deep', 'conc-reentrant-storm')] + cases
    res = ctx.run(cases + deep_cases + storm_cases, sides=('model', 'impl'))
    deep_cases = deep_cases + storm_cases
    ctx.compare(cases, res, ['verdict', 'err', 'dbg'])
    inf = os.path.join(ctx.work, 'conc.in')
    with open(inf, 'w') as f:
        for c in cases:
            f.write(c.line + '\n')
    inf_deep = os.path.join(ctx.work, 'conc-deep.in')
    with open(inf_deep, 'w') as f:
        for c in deep_cases:
            f.write(c.line + '\n')
    all_cases = cases
    configs = [(2, 20, 1, inf), (8, 25, 4, inf), (32, 10, 16, inf), (32, 2, 16, inf_deep)] if ctx.quick else \
              [(g, 8, p, inf) for g in (2, 8, 32) for p in (1, 4, 16)] + [(8, 40, 16, inf), (32, 40, 4, inf), (2, 20, 1, inf), (32, 6, 16, inf_deep), (32, 6, 4, inf_deep), (16, 6, 16, inf_deep)]
    races = 0
    runs = []
    for (g, r, p, inf) in configs:
        cases = deep_cases if inf == inf_deep else all_cases
        outf = os.path.join(ctx.work, 'conc.%d.%d.%d.out' % (g, r, p))
        env = dict(os.environ, GORACE='halt_on_error=0 exitcode=66')
        try:
            pr = sp.run([os.path.join(VERIF, 'driver', 'driver-race'), 'conc', inf, outf, str(g), str(r), str(p)] + (['400'] if inf == inf_deep else []),
                        stdout=sp.PIPE, stderr=sp.PIPE, env=env, timeout=ctx.n(600, 3000))
        except sp.TimeoutExpired as te:
            runs.append({'goroutines': g, 'rounds': r, 'gomaxprocs': p, 'rc': 'timeout', 'race_reports': 0})
            ctx.violation('the concurrent run with %d goroutines, %d rounds, GOMAXPROCS=%d never finished (%d s): calls that wait for each other; stderr: %s' % (g, r, p, ctx.n(600, 3000), (te.stderr or b'').decode('utf-8', 'replace')[-1500:]), [],
                          config={'goroutines': g, 'rounds': r, 'gomaxprocs': p, 'cases_file_seed': ctx.seed})
            continue
        err = pr.stderr.decode('utf-8', 'replace')
        nr = err.count('WARNING: DATA RACE')
        races += nr
        runs.append({'goroutines': g, 'rounds': r, 'gomaxprocs': p, 'rc': pr.returncode, 'race_reports': nr})
        ctx.evaluations += len(cases) * r
        if nr or pr.returncode not in (0,):
            ctx.violation('race detector / process failure with %d goroutines, %d rounds, GOMAXPROCS=%d (rc %d): %s' % (g, r, p, pr.returncode, err[:3000]), [],
                          config={'goroutines': g, 'rounds': r, 'gomaxprocs': p, 'cases_file_seed': ctx.seed})
            continue
        got = {}
        for line in open(outf, errors='replace'):
            if line.strip():
                cid, d = parse_obs_line(line)
                got[cid] = d
        for c in cases:
            d = got.get(c.id)
            seq = res.impl.get(c.id)
            if d is None or seq is None:
                continue
            if (d.get('verdict'), d.get('err'), d.get('dbg')) != (seq.get('verdict'), seq.get('err'), seq.get('dbg')) or d.get('stable') != '1':
                ctx.violation('a call on its own goroutine returned %s (stable=%s); alone it returns %s/%s/%s [G=%d R=%d P=%d]' % (
                    (d.get('verdict'), d.get('err'), d.get('dbg')), d.get('stable'), seq.get('verdict'), seq.get('err'), seq.get('dbg'), g, r, p), [c])
    ctx.extra['concurrent_runs'] = runs
    ctx.extra['not_provable_here'] = 'data-race freedom of the Go memory model, the generated code\'s sync.Once statics and the ANTLR runtime caches: sampled with the race detector; the theorem covers the model (no shared component) and SourceFacts certifies that the hand-written code has no package-level mutable state'
    spread_samples(ctx, cs, res)

CHECKS.update({'C12': check_C12})

# ----------------------------------------------------------------------------
ATTACHED = {0: '42', 1: 'true', 2: 'null', 3: '[1,"a"]', 4: '{"a":"x","b":1}', 5: '1.5', 6: None, 7: None, 8: None, 9: None,
            10: '{}', 11: '[1,2]', 12: None, 13: '{"A":2}', 14: '"YWI="', 15: '9223372036854775807', 16: '1e+21', 17: '{}', 18: 'null', 19: '{}', 20: '{}', 21: '{"a":1}', 22: '{"b":2,"c":"x"}', 23: '{"b":2}', 24: None, 25: None, 26: None, 27: None, 28: None}
NERR_KEYS = ['ctx', 'ctx', 'attr_path', 'operation', 'object_path_operand', 'rule_operand', 'err', 'msg', 'a', 'b', 'k<&>', 'K', 'é', '', 'z"q', 'x\ny']
NERR_TEXTS = ['boom', '', 'ratio above 100%', '%s and %d and %v', '100%% sure %!s(MISSING)', 'read failed: unexpected EOF', 'strconv.ParseInt: parsing "x": invalid syntax', 'Operand not present', 'a "quoted" <text> & more', 'tab\there', 'nl\n', 'é x', 'ctl\x01\x08\x0c\x1f\x7f', 'slash/\\']

def check_C19(ctx):
    cs = CaseSet()
    def aval_sx():
        if ctx.rng.random() < 0.4:
            t = ctx.rng.choice(NERR_TEXTS)
            b = t.encode('utf-8')
            if ctx.rng.random() < 0.1:
                b += bytes([ctx.rng.choice([0xff, 0xc3, 0x80])])
            return '(s %s)' % hx(b)
        weights = [t for t in ATTACHED if ATTACHED[t] is not None] * 3 + [t for t in ATTACHED if ATTACHED[t] is None]
        tag = ctx.rng.choice(weights)
        enc = ATTACHED[tag]
        return '(v %d %s)' % (tag, 'none' if enc is None else hx(enc))
    for _ in range(ctx.n(1000, 30000)):
        # the text of a chain doubles per layer (every layer escapes the quotes and backslashes of the one below): depth stays <= 14
        depth = ctx.rng.choice([1, 1, 1, 2, 2, 2, 3, 3, 4, 5, 6, 8, 10, 12, 14] if not ctx.quick else [1, 1, 2, 2, 3, 5, 12])
        cause = ctx.rng.choice(NERR_TEXTS)
        if cause == '' and ctx.rng.random() < 0.8:
            cause = 'e'
        if ctx.rng.random() < 0.15:
            # causes of unusual Go types (the driver builds them from the suffix): a slice-typed error, an error with its own Format method
            cause = cause.rstrip('\n') + ctx.rng.choice([' (slice)', ' (formatter)'])
        msgs = [ctx.rng.choice(NERR_TEXTS) for _ in range(depth)]
        ops = []
        for _ in range(ctx.rng.randint(1, ctx.n(12, 30))):
            r = ctx.rng.random()
            k = ctx.rng.randrange(depth) if ctx.rng.random() < 0.6 else depth - 1
            if r < 0.45:
                kvs = ' '.join('(%s %s)' % (hx(ctx.rng.choice(NERR_KEYS)), aval_sx()) for _ in range(ctx.rng.randint(0, 4)))
                ops.append('(set %d %s)' % (k, kvs) if kvs else '(set %d)' % k)
            elif r < 0.85:
                ops.append('(error %d)' % k)
            else:
                ops.append('(orig %d)' % k)
        if ctx.rng.random() < 0.5:
            ops += ['(error %d)' % (depth - 1)] * 2
        body = '%s (%s) (%s)' % (hx(cause), ' '.join(hx(m) for m in msgs), ' '.join(ops))
        cs.simple('nerr', body, 'nerr', cause=cause, msgs=msgs, ops=ops)
    # size: deep chains (Original only: the text of Error doubles per layer), many keys in one Set, many Set calls
    for depth in ([16, 17, 32, 33, 64, 65, 129] if ctx.quick else [16, 17, 32, 33, 64, 65, 129, 300, 1025]):
        ops = ['(orig %d)' % k for k in sorted(set([0, 1, depth // 2, depth - 2, depth - 1]))] + ['(set %d (%s (s %s)))' % (depth - 1, hx('k'), hx('v')), '(orig %d)' % (depth - 1)]
        body = '%s (%s) (%s)' % (hx('root cause'), ' '.join(hx('m%d' % i) for i in range(depth)), ' '.join(ops))
        cs.simple('nerr', body, 'nerr-deep', cause='root cause', msgs=['m'] * depth, ops=ops)
    for nk in ([7, 8, 9, 16, 17, 32, 33, 64, 65] if ctx.quick else [7, 8, 9, 16, 17, 32, 33, 64, 65, 257, 1025]):
        for depth in (1, 2):
            kv = lambda i, v: '(%s (s %s))' % (hx('key%04d' % ((i * 37) % nk)), hx(v))
            ops = ['(set 0 %s)' % ' '.join(kv(i, 'v%d' % i) for i in range(nk)), '(error %d)' % (depth - 1), '(error 0)',
                   '(set 0 %s)' % ' '.join(kv(i, 'w%d' % i) for i in range(0, nk, 2)), '(error 0)', '(error 0)', '(orig 0)',
                   '(set %d %s %s)' % (depth - 1, kv(1, 'z'), '(%s (v 7 none))' % hx('bad')), '(error %d)' % (depth - 1), '(error %d)' % (depth - 1)]
            body = '%s (%s) (%s)' % (hx('boom'), ' '.join(hx('m%d' % i) for i in range(depth)), ' '.join(ops))
            cs.simple('nerr', body, 'nerr-wide', cause='boom', msgs=['m'] * depth, ops=ops)
    for ns in ([20, 70] if ctx.quick else [20, 70, 300]):
        ops = []
        for i in range(ns):
            ops.append('(set 0 (%s (s %s)) (%s (s %s)))' % (hx('k%d' % (i % 5)), hx('v%d' % i), hx('u%d' % (i % 11)), hx('x%d' % i)))
            if i % 9 == 8:
                ops += ['(error 0)', '(error 0)']
        ops += ['(error 0)', '(error 0)']
        body = '%s (%s) (%s)' % (hx('boom'), hx('m'), ' '.join(ops))
        cs.simple('nerr', body, 'nerr-many-sets', cause='boom', msgs=['m'], ops=ops)
    # a later Set replaces the value under a key, whatever the value is (nested ErrVals, maps, lists): no deep merge
    for depth in (1, 2, 3):
        for (t1, t2) in [(21, 22), (22, 21), (21, 23), (23, 21), (4, 13), (13, 4), (21, 4), (3, 11), (21, 21), (22, 7), (7, 22)]:
            for key in ('ctx', 'operands', 'err'):
                for k in range(depth):
                    v = lambda t: '(v %d %s)' % (t, 'none' if ATTACHED[t] is None else hx(ATTACHED[t]))
                    ops = ['(set %d (%s %s))' % (k, hx(key), v(t1)), '(error %d)' % (depth - 1), '(set %d (%s %s))' % (k, hx(key), v(t2)), '(error %d)' % (depth - 1), '(error %d)' % k,
                           '(set %d (%s %s) (%s %s))' % (k, hx(key), v(t1), hx('other'), v(t2)), '(error %d)' % (depth - 1), '(orig %d)' % k]
                    msgs = ['m%d' % i for i in range(depth)]
                    body = '%s (%s) (%s)' % (hx('boom'), ' '.join(hx(m) for m in msgs), ' '.join(ops))
                    cs.simple('nerr', body, 'nerr-nested-values', cause='boom', msgs=msgs, ops=ops)
    # attached values that contain the chain they are attached to / contain themselves / refuse to be encoded by their own method:
    # Error() gives the plain text (and returns)
    for tag_ in (24, 25, 26, 27, 28):
        for depth in (1, 2, 3):
            msgs = ['m%d' % i for i in range(depth)]
            ops = ['(set 0 (%s (v %d none)))' % (hx('wrapped_by'), tag_), '(error %d)' % (depth - 1), '(error 0)', '(orig %d)' % (depth - 1), '(set %d (%s (s %s)))' % (depth - 1, hx('k'), hx('v')), '(error %d)' % (depth - 1), '(error %d)' % (depth - 1)]
            body = '%s (%s) (%s)' % (hx('boom'), ' '.join(hx(m) for m in msgs), ' '.join(ops))
            cs.simple('nerr', body, 'nerr-self-containing', cause='boom', msgs=msgs, ops=ops)
    for cause_ in ('boom (slice)', 'boom (formatter)', 'a "q" (formatter)', '100% (slice)'):
        for depth in (1, 2, 3, 9):
            for bad in (False, True):
                msgs = ['m%d' % i for i in range(depth)]
                ops = ['(orig %d)' % (depth - 1), '(error %d)' % (depth - 1), '(orig 0)', '(error 0)'] + (['(set 0 (%s (v 7 none)))' % hx('bad')] if bad else ['(set %d (%s (s %s)))' % (depth - 1, hx('k'), hx('v'))]) + \
                      ['(error %d)' % (depth - 1), '(error %d)' % (depth - 1), '(orig %d)' % (depth - 1)]
                body = '%s (%s) (%s)' % (hx(cause_), ' '.join(hx(m) for m in msgs), ' '.join(ops))
                cs.simple('nerr', body, 'nerr-cause-types', cause=cause_, msgs=msgs, ops=ops)
    # the layer's message is data, never a format: '%' in messages, with and without a value that JSON rejects
    for msg in ['ratio above 100%', '%s', '%d items', '100%% sure', '%!s(MISSING)', '%v: %v', 'a%', '%', '%[1]s']:
        for bad in (False, True):
            for depth in (1, 2):
                msgs = [msg] * depth
                ops = ['(error %d)' % (depth - 1)] + (['(set 0 (%s (v 7 none)))' % hx('bad')] if bad else ['(set 0 (%s (s %s)))' % (hx('k'), hx('100%'))]) + ['(error %d)' % (depth - 1), '(error 0)', '(orig %d)' % (depth - 1)]
                for cause in ('boom', '50% done'):
                    body = '%s (%s) (%s)' % (hx(cause), ' '.join(hx(m) for m in msgs), ' '.join(ops))
                    cs.simple('nerr', body, 'nerr-percent', cause=cause, msgs=msgs, ops=ops)
    res = ctx.run(cs)
    ctx.compare(cs.cases, res, ['out'], nontrivial=lambda c, mo: True)
    spec_violations(ctx, 'NestedError')
    bad_oracle = 0
    for c in cs.cases:
        io = res.impl.get(c.id)
        if not io:
            continue
        if io.get('oracle') == 'bad':
            bad_oracle += 1
            ctx.mismatches.append((c, 'json-oracle', 'bad', 'ok'))
        outs = (io.get('out') or '').split(';')
        if 'PANIC' in outs or 'oDIFF' in outs or 'sBAD' in outs or 'sALIAS' in (io.get('out') or ''):
            ctx.violation('NestedError API misbehaved: %s' % io.get('out')[:200], [c])
            continue
        # idempotence, checked on the implementation itself: consecutive Error() calls on one layer agree
        ops = c.meta['ops']
        for i in range(len(ops) - 1):
            if ops[i].startswith('(error') and ops[i] == ops[i + 1] and i + 1 < len(outs) and outs[i] != outs[i + 1]:
                ctx.violation('Error() called twice in a row returned different texts', [c])
                break
    ctx.extra['oracle_misses'] = bad_oracle
    spread_samples(ctx, cs, res)

CHECKS.update({'C19': check_C19})
