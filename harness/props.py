"""props.py — per-property case generation and decision logic.
Each check_Cxx(ctx) generates cases, runs both sides, records
  * correspondence disagreements on the property's own projection (ctx.compare)
  * failing inputs of the property itself (ctx.violation): for relational properties
    the implementation is compared with itself, for outcome-fixing properties with
    the proved model on in-scope inputs."""
from .core import *
from .gen import *
from .framework import Ctx

def accepted(c, mo, io=None):
    return mo.get('accept') == '1'

def outcome(o):
    """(verdict, failed?)"""
    return (o.get('verdict'), o.get('err') != 'none')

SMALL_OBJS = [obj({}), obj({'x': I(1)}), obj({'x': I(1), 'y': I(2)}), obj({'x': S('abc')}), obj({'x': ('nil',)}),
              obj({'x': {'y': I(1)}}), obj({'x': ('strpanic',)}), obj({'x': ('o', 1)})]

# ----------------------------------------------------------------------------
def eval_texts(ctx, cs, n_sent, n_mut, n_soup, n_bytes, objs_per=1):
    def add(text, fam, **meta):
        info = meta.get('info') or []
        for _ in range(objs_per):
            o = object_for(ctx.rng, info) if info and ctx.rng.random() < 0.8 else ctx.rng.choice(SMALL_OBJS)
            cs.eval(text, o, fam, **meta)
    fam_text(add, ctx.rng, n_sent, n_mut, n_soup, n_bytes)
    for t in FIXED_TEXTS:
        for o in SMALL_OBJS[:3]:
            cs.eval(t, o, 'text-fixed')

def check_C14(ctx):
    cs = CaseSet()
    eval_texts(ctx, cs, ctx.n(300, 6000), 4, ctx.n(300, 6000), ctx.n(150, 3000))
    fam_leaf_exh(cs, ctx.rng, stride=ctx.n(17, 2))
    res = ctx.run(cs)
    ctx.compare(cs.cases, res, ['verdict', 'err', 'ev3'], nontrivial=lambda c, mo: True)
    for c in cs.cases:
        io = res.impl.get(c.id)
        if not io or 'ev3' not in io:
            continue
        v, e = io['verdict'], io['err'] != 'none'
        want = v + ('1' if e else '0') + v
        if io['ev3'] != want:
            ctx.violation('entry points disagree: NewEvaluator+Process gave verdict=%s err=%s, (rules.Evaluate verdict, error?, parser.Evaluate verdict)=%s' % (v, io['err'], io['ev3']), [c], impl=io)
        elif e and v == '1':
            ctx.violation('error returned together with verdict true', [c], impl=io)
        ctx.sample(c, res)

# ----------------------------------------------------------------------------
def leak_contexts(leaf_text):
    """the leaf placed after / before / inside other comparisons on attribute k (k = 1 in the object)"""
    T, Fq = 'k eq 1', 'k eq 2'
    return [leaf_text, '%s and %s' % (T, leaf_text), '%s or %s' % (Fq, leaf_text), '%s and %s' % (leaf_text, T),
            '%s or %s' % (leaf_text, Fq), 'not (%s) and %s' % (Fq, leaf_text), '(%s and %s) or %s' % (T, leaf_text, Fq),
            'k.j.i eq 1 or %s' % leaf_text, 'k in [1,2] and %s' % leaf_text, 'k eq "s" or %s' % leaf_text]

def check_C10(ctx):
    cs = CaseSet()
    lits = [('null',), ('bool', 'true'), ('bool', 'false')]
    fam_leaf_exh(cs, ctx.rng, ops=['EQ', 'NE'], literals=lits, fam='leaf-exh-null-bool')
    fam_pr_exh(cs, ctx.rng)
    leaf_forms = ['%s pr', '%s eq null', '%s ne null', '%s eq true', '%s ne true', '%s eq false', '%s ne false', '%s == null', '%s != false']
    attrs = [ABSENT, ('nil',), ('b', True), ('b', False), I(0), I(1), S(''), S('true'), ('m', []), F(0.0), ('o', 1), ('str', b'true')]
    for path in (['n', 'x'], ['n', 'y', 'z'], ['n', 'y', 'z', 'w']):
        for a in attrs:
            for o in nested_variants(path, a):
                # k = 1 for the neighbouring comparisons
                o = ('m', o[1] + [(b'k', I(1))])
                for form in leaf_forms:
                    leaf = form % '.'.join(path)
                    ctxs = leak_contexts(leaf) if (ctx.tier != 'quick' or ctx.rng.random() < 0.15) else [leaf]
                    for t in ctxs:
                        cs.eval(t, o, 'nested-null-bool-pr', leaf=leaf)
    res = ctx.run(cs)
    ctx.exhaustive = True
    ctx.compare(cs.cases, res, ['verdict', 'err'], scope=accepted)
    # the proved model is the specification here: a disagreement on an in-scope input is a failing input
    for (c, f, i, m) in ctx.mismatches:
        ctx.violation('presence/null/bool test: implementation %s=%s, specification %s' % (f, i, m), [c])
    for c in cs.cases[:: max(1, len(cs.cases) // 8)]:
        ctx.sample(c, res)

CHECKS = {'C14': check_C14, 'C10': check_C10}
