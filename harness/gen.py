"""gen.py — generator families.  Every random choice comes from the one
random.Random passed in (seeded from VERIF_SEED), so disagreements replay."""
import os
import itertools, random, struct
from .core import *

# ----------------------------------------------------------------------------
# pools
# ----------------------------------------------------------------------------
F = lambda x: ('f', x)
I = lambda x: ('i', x)
S = lambda x: ('s', x.encode('utf-8') if isinstance(x, str) else x)

INT_ATTRS = [I(0), I(1), I(-1), I(2), I(5), I(100), I(2**53), I(2**53 + 1), I(-(2**53) - 1), I(2**63 - 1), I(-2**63),
             ('i32', 1), ('i32', -7), ('i32', 2**31 - 1), ('i64', 1), ('i64', 5), ('i64', 2**63 - 1), ('i64', -2**63)]
FLOAT_ATTRS = [F(0.0), F(-0.0), F(1.0), F(2.0), F(1.5), F(1.7), F(-0.5), F(-1.7), F(5.0), F(100.0), F(float(2**53)),
               F(float(2**53) + 2), F(9.223372036854775807e18), F(-9.223372036854775808e18), F(1e19), F(-1e19),
               F(float('nan')), F(float('inf')), F(float('-inf')), F(5e-324), F(1e308), F(0.1), F(2.5), F(0.30000000000000004)]
STR_ATTRS = [S(''), S('abc'), S('ABC'), S('aBc'), S('ab'), S('b'), S('xabcx'), S('abcx'), S('xabc'), S(' abc'), S('abc '),
             S('1'), S('1.0'), S('true'), S('null'), S('É'), S('é'), S('İ'), S('ß'), S('Σ'), S('ς'), S('σ'), S('日本'),
             S(b'\xff'), S(b'a\xc3'), S('a b'), S('ab\ncd'),
             # capitals whose lower-case form has another UTF-8 length (Kelvin sign, dotted I, ohm sign, capital sharp s)
             S('a\r\nb'), S('a\nb'), S('line1\nline2'), S('a\tb'),
             # texts that look like versions, timestamps, numbers, keywords: a string operator must not reinterpret them
             S('1.9.0'), S('1.10.0'), S('1.0.0-rc1'), S('1.0.0+a'), S('2024-01-01T00:00:00Z'), S('2024-01-01T00:00:00.2Z'), S('2024-01-01T00:00:00.7'), S('2024-01-01T01:00:00+01:00'), S('10'), S('9'), S('1e3'), S('0x10'),
             S('tom &amp; jerry'), S('tom & jerry'), S('&lt;'), S('<'), S('&#39;'), S("'"), S('a%20b'), S('a+b'), S('\ufeffabc'), S('\ufeff'), S('\u200babc'), S('\u00a0abc'), S('abc\ufeff'),
             S('a{b}'), S('a[b]'), S('a~'), S('a^'), S('a`'), S('a@'), S('a_b'), S('a\x7fb'), S('a|b'), S('a\\b'), S('a\ufffd'), S('\ufffd'), S(b'caf\xe9'), S('caf\ufffd'),
             S('${HOME}'), S('$HOME'), S(os.environ.get('HOME', '/root')), S('${PATH}'), S('%s'), S('~'), S('${USER:-x}'),
             S('k'), S('\u212a'), S('i'), S('\u03c9'), S('\u2126'), S('\u1e9e'), S('istanbul'), S('\u0130stanbul'), S('300 \u212a')]
VER_ATTRS = [S('1.0.0'), S('1.9.0'), S('1.10.0'), S('2.0.0'), S('1.0.0-beta'), S('1.0.0-alpha.1'), S('1.0.0-alpha.beta'),
             S('1.0.0-1'), S('1.0.0-2'), S('1.0.0-10'), S('1.0.0+build5'), S('1.0.0-beta+exp.sha'), S('1.0'), S('v1.0.0'),
             S('1.0.0.'), S('01.0.0'), S('1.0.0-01'), S('1.0.0-'), S('1.0.0+'), S('18446744073709551615.0.0'),
             S('18446744073709551616.0.0'), S('1.0.0-a_b'), S('1..0'), S(' 1.0.0'), S('1.0.0-rc.1'), S('1.0.0-rc.1.1'), S('0.0.0'),
             S('1.0.0+build-5'), S('1.0.0+a-b'), S('1.10.0+2024-01-02.sha-5114f85'), S('1.0.0-a-b+c-d'), S('1.0.0+-'),
             S('1.0.0\n'), S('1.0.0\r\n'), S('1.0.0 '), S('\n1.0.0'), S('1.0.0\t'), S('1.0.0-rc.1\r\n'), S('1.0.0\r'),
             S('1.0.0-\u212a'), S('1.0.0+build.\u212a'), S('1.0.0-\u0130'), S('1.0.0-RC.1'), S('1.0.0-\u00e9'), S('\uff11.0.0'), S('1.0.0-rc\u2024 1')]
STRINGER_ATTRS = [('str', b'abc'), ('str', b'ABC'), ('str', b'1.0.0'), ('str', b''), ('strptr', b'abc'), ('strpanic',), ('strnilptr',), ('strselfpanic',), ('strpanicinvop',), ('strpanicinvopw',),
                  ('jnum', b'12'), ('jnum', b'2.25'), ('jnum', b'1'), ('jnum', b'abc'), ('strslice', b'abc'), ('strslice', b'10.0.0.1'), ('strreent', b'abc'), ('strreent', b'1.0.0'), ('strsame', b'abc'), ('strsame', b'1.0.0'), ('strtm', b'abc'), ('strtm', b'2024-01-02 03:04:05 +0000 UTC'), ('strbig', b'5'), ('strbig', b'12345678901234567890123'), ('strbig', b'1'), ('strver', b'1.0.0'), ('strverptr', b'1.0.0'), ('strver', b'1.2.3-rc.1+b5')]
MISC_ATTRS = [('nil',), ('b', True), ('b', False), ('m', []), ('m', [(b'a', I(1))]), ('nilmap',)] + [('o', t) for t in list(range(21)) + [22, 23, 24, 25, 26, 27, 29, 30, 31, 32, 33, 34, 35, 36, 37, 38, 39, 40, 41, 42, 43, 44, 45, 46, 47, 48, 49, 50, 51, 52, 53, 54, 55, 56, 57, 58, 59, 60, 61, 62, 63]]
OTHER_TYPED = [a for a in MISC_ATTRS if a[0] == 'o']   # every non-string, non-number Go type the driver can build
ABSENT = ('absent',)   # pseudo value: key not in the object

ALL_ATTRS = [ABSENT] + MISC_ATTRS + INT_ATTRS + FLOAT_ATTRS + STR_ATTRS + VER_ATTRS + STRINGER_ATTRS

LONG_LITS = ['0', '1', '-1', '2', '5', '-7', '100', '9007199254740992', '9007199254740993', '-9007199254740993',
             '9223372036854775807', '-9223372036854775808', '9223372036854775808', '-9223372036854775809',
             '99999999999999999999', '1e+5', '1E5', '-0']
DOUBLE_LITS = ['0.0', '1.0', '-1.0', '1.5', '1.7', '-0.5', '2.0', '5.0', '100.0', '1.0e2', '1.0E+2', '15.0e-1', '0.1',
               '0.30000000000000004', '2.5', '9007199254740993.0', '9223372036854775807.0', '1.0e19', '1.0e308',
               '1.0e309', '1.0e999', '-1.0e999', '4.9e-324', '2.4e-324', '2.5e-324', '1.0e-999', '-0.0',
               '0.1000000000000000055511151231257827021181583404541015625', '1.7976931348623157e308', '1.7976931348623159e308']
STR_LITS = ['', 'abc', 'ABC', 'aBc', 'ab', 'b', 'bc', 'x', ' abc', 'abc ', ' ', 'É', 'é', 'ß', 'Σ', 'ς', '日本', '1', 'true', 'a b', '1.0.0',
            'a\r\nb', 'a\nb', '\r\n', '\n', '1.9.0', '1.10.0', '1.0.0+B', '2024-01-01T00:00:00Z', '2024-01-01T00:00:00.5Z', '2023-12-31T23:00:00-01:00', '10', '9', '1000', '16',
            'tom &amp; jerry', 'tom & jerry', '&lt;', '&amp;', '&#39;', '&quot;', '&nbsp;', 'a%20b', '\ufeff', '\ufeffabc', '\u200babc', 'true', 'True', 'TRUE', 'false', 'FALSE',
            'a{b}', 'a[b]', 'a~', 'a^', 'a`', 'a@', 'a_b', 'a|b', '\ufffd', 'a\ufffd', 'caf\ufffd',
            '${HOME}', '$HOME', '${PATH}', '%s', '%d', '~', '${PWD}', '$(pwd)', '{{.Home}}', '%HOME%', '${HOME}/x',
            'k', '\u212a', 'i', '\u0130', '\u03c9', '\u2126', '\u1e9e', 'istanbul', '300 k']
VER_LITS = ['1.0.0', '1.9.0', '1.10.0', '2.0.0', '0.0.0', '1.0.1', '18446744073709551615.0.0', '18446744073709551616.0.0', '10.2.33']
INTS_LITS = [['1'], ['1', '2', '5'], ['5', '1', '1'], ['0'], ['9223372036854775807'], ['9223372036854775808'], ['2', '9007199254740993', '100'],
             ['40', '7', '19', '1', '88', '21', '5', '64', '12'], ['9', '8', '7', '6', '5', '4', '3', '2', '1', '0'], ['1', '2', '3', '4', '5', '6', '7', '8', '9', '10', '11', '12'],
             ['5', '3', '5', '100', '3', '2', '2', '1', '7', '0', '5']]
DOUBLES_LITS = [['1.5', '1.0e999'], ['-1.0e999', '2.5'], ['1.0e999', '-1.0e999'], ['1.0'], ['1.5', '2.5'], ['2.5', '1.5', '1.5'], ['0.0'], ['1.0e999'], ['1.7', '100.0', '-0.5'],
                ['40.5', '7.25', '19.0', '1.5', '88.0', '21.0', '5.0', '64.0', '1.0'], ['9.5', '8.5', '7.5', '6.5', '5.0', '4.5', '3.5', '2.5', '1.5', '0.5']]
STRINGS_LITS = [['a[b]'], ['a{b}', 'q'], ['a^', 'a@', 'a_b'], ['a\ufffd'], ['\ufffd', 'x'], ['caf\ufffd', 'b'], ['abc'], ['ABC', 'b'], ['b', 'ABC', 'b'], [''], ['É', 'x'], ['1.0.0'], ['z', 'y', 'x', 'w', 'v', 'u', 'abc', 't', 's', 'b']]

def all_literals():
    out = [('bool', 'true'), ('bool', 'false'), ('null',)]
    out += [('version', v) for v in VER_LITS]
    out += [('string', s) for s in STR_LITS]
    out += [('double', d) for d in DOUBLE_LITS]
    out += [('long', l) for l in LONG_LITS]
    out += [('ints', l) for l in INTS_LITS]
    out += [('doubles', l) for l in DOUBLES_LITS]
    out += [('strings', l) for l in STRINGS_LITS]
    return out

def lit_kind(v):
    return v[0]

def mk_obj(path, val, extra=None):
    """object in which `path` leads to `val` (ABSENT: last key missing)"""
    d = {}
    cur = d
    for k in path[:-1]:
        cur[k] = {}
        cur = cur[k]
    if val != ABSENT:
        cur[path[-1]] = val
    if extra:
        for k, v in extra.items():
            d.setdefault(k, v)
    return obj(d)

# ----------------------------------------------------------------------------
# family: leaf-exh — operator x literal x attribute class (exhaustive)
# ----------------------------------------------------------------------------
def fam_leaf_exh(cs, rng, ops=OPS, literals=None, attrs=None, fam='leaf-exh', spell_all=True, stride=1, **meta):
    literals = literals if literals is not None else all_literals()
    attrs = attrs if attrs is not None else ALL_ATTRS
    n = 0
    for op in ops:
        spells = OP_SPELL[op]
        for li, lit in enumerate(literals):
            for ai, a in enumerate(attrs):
                n += 1
                if stride > 1 and (n % stride) != 0:
                    continue
                st = Style()
                q = ('cmp', ['x'], op, lit)
                # cycle through the spellings deterministically so every spelling meets every literal kind
                sp = spells[(li + ai) % len(spells)] if spell_all else spells[0]
                text = 'x ' + sp + ' ' + render_value(lit, st)
                cs.eval(text, mk_obj(['x'], a), fam, q=q, attr=a, op=op, lit=lit, **meta)

ONE_PER_KIND = [('bool', 'true'), ('null',), ('version', '1.0.0'), ('string', 'abc'), ('string', 'Admin'), ('double', '1.5'), ('long', '1'), ('ints', ['1', '2', '5']),
                ('doubles', ['1.5', '2.5']), ('strings', ['ABC', 'b']), ('strings', ['ops', 'admin', 'root']), ('strings', ['Admin', 'ROOT', 'Ops'])]

def fam_other_typed(cs, rng, fam='other-typed-exh'):
    """every operator x one literal of every kind (lists included) x every non-string, non-number Go type the driver can build and every
    Stringer flavour: deterministic, independent of the sizes of the other pools"""
    fam_leaf_exh(cs, rng, literals=ONE_PER_KIND, attrs=OTHER_TYPED + STRINGER_ATTRS + [('nil',), ('nilmap',), ('m', [(b'a', I(1))])], fam=fam)

def fam_pr_exh(cs, rng, attrs=None, fam='pr-exh'):
    attrs = attrs if attrs is not None else ALL_ATTRS
    for a in attrs:
        cs.eval('x pr', mk_obj(['x'], a), fam, q=('pr', ['x']), attr=a, op='PR', lit=None)

def nested_variants(path, a):
    """objects for a nested path: value present at the end, or each prefix missing / nil"""
    out = [mk_obj(path, a)]
    for cut in range(len(path) - 1):
        # prefix path[:cut+1] missing
        d = {}
        cur = d
        for k in path[:cut]:
            cur[k] = {}
            cur = cur[k]
        out.append(obj(d))
        # prefix path[:cut+1] explicit nil
        d = {}
        cur = d
        for k in path[:cut]:
            cur[k] = {}
            cur = cur[k]
        cur[path[cut]] = ('nil',)
        out.append(obj(d))
    return out

# ----------------------------------------------------------------------------
# random compound rules
# ----------------------------------------------------------------------------
ATTR_NAMES = ['a', 'b', 'c', 'd', 'e', 'f']
NESTED = [['n', 'x'], ['n', 'y', 'z'], ['m', 'k']]

def typed_leaf(rng, name_pool=None, allow_fail=False, allow_list=True):
    """a comparison/presence leaf together with candidate attribute values that make it T / F / undecided"""
    path = rng.choice(name_pool) if name_pool else rng.choice([[n] for n in ATTR_NAMES] + NESTED)
    kind = rng.choice(['long', 'long', 'double', 'string', 'string', 'version', 'bool', 'null', 'pr'] + (['ints', 'doubles', 'strings'] if allow_list else []))
    if kind == 'pr':
        return ('pr', path), [I(1), ('b', False), ('nil',), ABSENT, S('')]
    if kind == 'null':
        op = rng.choice(['EQ', 'NE'] if not allow_fail else ['EQ', 'NE', 'GT', 'CO', 'IN'])
        return ('cmp', path, op, ('null',)), [('nil',), ABSENT, I(1), S('a')]
    if kind == 'bool':
        op = rng.choice(['EQ', 'NE'] if not allow_fail else ['EQ', 'NE', 'LT', 'SW', 'IN'])
        return ('cmp', path, op, ('bool', rng.choice(['true', 'false']))), [('b', True), ('b', False), ABSENT, I(1), S('true')]
    if kind == 'long':
        op = rng.choice(REL if not allow_fail else REL + ['CO', 'EW'])
        lit = rng.choice(['1', '2', '5', '-1', '0', '100'])
        return ('cmp', path, op, ('long', lit)), [I(1), I(2), I(5), I(0), F(1.5), F(2.0), ('i64', 5), ABSENT, S('1'), ('nil',)]
    if kind == 'double':
        op = rng.choice(REL if not allow_fail else REL + ['SW'])
        lit = rng.choice(['1.5', '2.0', '0.5', '-1.0', '100.25'])
        return ('cmp', path, op, ('double', lit)), [F(1.5), F(2.0), I(2), I(0), F(0.5), F(float('nan')), ABSENT, S('1.5'), ('i64', 2)]
    if kind == 'string':
        op = rng.choice(REL + ['CO', 'SW', 'EW'])
        lit = rng.choice(['abc', 'ABC', 'b', '', 'ab', 'x y'])
        return ('cmp', path, op, ('string', lit)), [S('abc'), S('ABC'), S('b'), S('xabcx'), S(''), ('str', b'abc'), ABSENT, I(1), ('nil',)]
    if kind == 'version':
        op = rng.choice(REL if not allow_fail else REL + ['CO', 'IN'])
        lit = rng.choice(['1.0.0', '1.9.0', '1.10.0', '2.0.0'])
        return ('cmp', path, op, ('version', lit)), [S('1.0.0'), S('1.9.0'), S('1.10.0'), S('1.0.0-beta'), S('1.0'), ABSENT, I(1), ('str', b'1.0.0')]
    if kind == 'ints':
        op = 'IN' if not allow_fail else rng.choice(['IN', 'IN', 'CO'])
        lit = rng.choice([['1', '2'], ['5'], ['0', '100', '2']])
        return ('cmp', path, op, ('ints', lit)), [I(1), I(2), I(5), F(1.0), F(1.5), ('i32', 2), ABSENT, S('1')]
    if kind == 'doubles':
        lit = rng.choice([['1.5', '2.5'], ['0.5'], ['2.0', '100.25']])
        return ('cmp', path, 'IN', ('doubles', lit)), [F(1.5), F(2.5), I(2), F(0.5), ABSENT, S('1.5'), ('i64', 2)]
    lit = rng.choice([['abc', 'b'], ['ABC'], ['', 'x y']])
    return ('cmp', path, 'IN', ('strings', lit)), [S('abc'), S('ABC'), S('b'), S(''), ('str', b'abc'), ABSENT, I(1)]

def random_query(rng, nleaves, leaf_fn, pneg=0.25, pparen=0.3):
    """random shape with exactly nleaves leaves; returns (query, [(leaf, candidates)])"""
    info = []
    def build(n):
        if n == 1:
            leaf, cands = leaf_fn()
            info.append((leaf, cands))
            q = leaf
        else:
            k = rng.randint(1, n - 1)
            l = build(k)
            r = build(n - k)
            q = ('logic', rng.choice(['and', 'or']), l, r)
        # zero, one or several directly stacked parenExp wrappers (with or without NOT)
        while True:
            r_ = rng.random()
            if r_ < pneg:
                q = ('paren', True, q)
            elif r_ < pneg + pparen * (0.3 if n == 1 else 1.0):
                q = ('paren', False, q)
            else:
                break
            if rng.random() < 0.6:
                break
        return q
    return normalize(build(nleaves)), info

def object_for(rng, info, noise=True):
    """an object assigning each leaf's path one of its candidate values"""
    d = {}
    for leaf, cands in info:
        path = leaf[1]
        v = rng.choice(cands)
        cur = d
        ok = True
        for k in path[:-1]:
            nxt = cur.get(k)
            if nxt is None:
                nxt = {}
                cur[k] = nxt
            if not isinstance(nxt, dict):
                ok = False
                break
            cur = nxt
        if not ok:
            continue
        if v == ABSENT:
            cur.pop(path[-1], None) if not isinstance(cur.get(path[-1]), dict) else None
        elif path[-1] not in cur:
            cur[path[-1]] = v
    # sometimes knock out an intermediate object: missing / nil parents
    if noise and rng.random() < 0.25:
        for k in list(d):
            if isinstance(d[k], dict) and rng.random() < 0.5:
                if rng.random() < 0.5:
                    del d[k]
                else:
                    d[k] = ('nil',)
    return obj(d)

# all shapes with k leaves over binary and/or, optional not/paren at each node (bounded, exhaustive)
STACKED = ('', 'not', 'paren', 'not not', 'not paren', 'paren not', 'not not not')

def all_shapes(k, wrappers=STACKED):
    """yields functions leaves-list -> query for every tree shape with k leaves"""
    def trees(n):
        if n == 1:
            yield ('L',)
            return
        for i in range(1, n):
            for l in trees(i):
                for r in trees(n - i):
                    for op in ('and', 'or'):
                        yield ('B', op, l, r)
    def wrap(t):
        if t[0] == 'L':
            for w in ('', 'not', 'not not', 'paren not'):
                yield ('W', w, t)
        else:
            for l in wrap(t[2]):
                for r in wrap(t[3]):
                    for w in wrappers:
                        yield ('W', w, ('B', t[1], l, r))
    for t in trees(k):
        yield from wrap(t)

def instantiate(shape, leaf_list):
    it = iter(leaf_list)
    def go(s):
        w, inner = s[1], s[2]
        if inner[0] == 'L':
            q = next(it)
        else:
            q = ('logic', inner[1], go(inner[2]), go(inner[3]))
        for x in reversed(w.split()):
            q = ('paren', x == 'not', q)
        return q
    return normalize(go(shape))

# ----------------------------------------------------------------------------
# family: text — sentences, mutants, token soup, random bytes
# ----------------------------------------------------------------------------
SOUP = ['x', 'y.z', 'a-b_c:d', 'order', 'android', 'nota', 'pr', 'prx', 'eq', 'EQ', '==', '!=', '>', '>=', '<', '<=', 'ne', 'gt', 'lt', 'ge', 'le',
        'co', 'sw', 'ew', 'in', 'IN', 'and', 'or', 'AND', 'OR', 'not', 'NOT', 'Not', 'true', 'false', 'TRUE', 'null', 'NULL',
        '1', '0', '01', '12', '-', '-1', '1.5', '-1.5', '1.', '.5', '1.2.3', '1.2.3.4', '01.2.3', '1e5', '1e+5', 'e5', 'E-3', '1.5e3', '1.5e+03',
        '"abc"', '""', '"a\\"b"', '"a\\nb"', '"a\\qb"', '"\\u00e9"', '"\\u00g9"', '"unterminated', '"É"', '"a b"', '[', ']', '[1,2]', '[1, 2]', '[1 ,2]', '["a","b"]', '[1.5,2.5]', '[1,2.5]', '[]', '[1,]',
        '(', ')', ' ', '  ', '\n', ' \n', ' \n\n', '\t', ',', ', ', '.', '..', '~', '=', '!', '&&', '||', '\u00c9', '\u00a0', '\u2003', '\u0085', '\u3000', '\u200b', '\r',
        '/', '//', '// c', '/*', '*/', '#', '--', ';', '<>', '&', '|', '?', '$', '@', '%', '^', '*', '+', '`', "'", '\\', '{', '}', ':', '=<', '=>', '===', '!==', '~=', 'is', 'like', 'xor', 'between', 'contains']

def mutate(rng, s):
    if not s:
        return rng.choice(SOUP)
    k = rng.randrange(9)
    i = rng.randrange(len(s))
    if k == 0: return s[:i] + s[i+1:]                                   # delete a char
    if k == 1: return s[:i] + rng.choice(' \n()[].,-"~1ae/#;<>=&|?$*\'') + s[i:]     # insert a char
    if k == 2 and i + 1 < len(s): return s[:i] + s[i+1] + s[i] + s[i+2:]  # swap
    if k == 3: return s[:i]                                            # truncate
    if k == 4: return s + rng.choice([' garbage', ' and', ')', ' )', '(', ' or ', ' AND y eq 2', ' 1', '\n', ' \n', '\t', ' pr', '.x', ',', '"', ' // note', '//', ' # note', ' -- note', ';', ' /* note */', ' && y eq 2', ' || y eq 2'])
    if k == 5: return rng.choice(['(', 'not ', 'not', ' ', 'x ', ')']) + s
    if k == 6:
        j = s.find(' ', i)
        return s if j < 0 else s[:j] + rng.choice(['  ', '\n', '\t', '']) + s[j+1:]
    if k == 7:
        c = s[i]
        return s[:i] + (c.upper() if c.islower() else c.lower()) + s[i+1:]
    j = rng.randrange(len(s))
    a, b = min(i, j), max(i, j)
    return s[:a] + s[b:]                                               # delete a span

def random_sentence(rng, maxleaves=5, style=True):
    n = rng.randint(1, maxleaves)
    q, info = random_query(rng, n, lambda: typed_leaf(rng, allow_fail=True))
    return q, info, render(q, Style(rng) if style and rng.random() < 0.7 else Style())

def fam_text(cs_add, rng, n_sent, n_mut, n_soup, n_bytes):
    """cs_add(text: bytes|str, fam, **meta)"""
    for _ in range(n_sent):
        q, info, s = random_sentence(rng)
        cs_add(s, 'text-sentence', q=q, info=info)
        for _ in range(n_mut):
            m = s
            for _ in range(rng.choice([1, 1, 1, 2, 3])):
                m = mutate(rng, m)
            cs_add(m, 'text-mutant', q=None, info=info)
    for _ in range(n_soup):
        k = rng.randint(1, 12)
        parts = [rng.choice(SOUP) for _ in range(k)]
        sep = rng.choice(['', ' ', ' ', ' '])
        cs_add(sep.join(parts), 'text-soup', q=None, info=[])
    for _ in range(n_bytes):
        ln = rng.choice([0, 1, 2, 3, 5, 8, 13, 40, 200, 1000, 4096])
        if rng.random() < 0.5:
            b = bytes(rng.randrange(256) for _ in range(ln))
        else:
            b = bytes(rng.choice(b' \n()[].,-"=!<>~\\abcdeinoqrtuxyENOT0123456789\xc3\xa9\xff') for _ in range(ln))
        cs_add(b, 'text-bytes', q=None, info=[])

FIXED_TEXTS = [
    'x eq 1 AND y eq 2', 'x lt 1e5', 'x eq 01', 'not x eq 1', 'x eq 1 garbage', 'x eq 1\n and y eq 2', 'x eq 1 and', '(x eq 1', 'x eq 1)',
    'x  eq 1', '', ' ', 'x', 'x eq', 'x eq 1 or', 'order eq 1', 'or eq 1', 'x.or eq 1', 'x.order eq 1', 'pr pr', 'x pr', 'prx pr', 'x.pr pr',
    'x eq 1.2.3', 'x eq 1.2', 'x eq 1.2.3.4', 'x <= 1', 'x < = 1', 'x<=1', 'x eq -1', 'x eq - 1', 'x eq --1', 'x eq 1e+5', 'x eq e5', 'x eq -1.5e-3',
    'a-b_c:d eq 1', '-a eq 1', '_a eq 1', '1a eq 1', 'a.1b eq 1', 'a..b eq 1', 'a. b eq 1', 'É eq 1', 'x eq "É"', 'x eq "a\\"b"', 'x eq "a\\qb"',
    'x eq "\\u00e9"', 'x eq "\\u00g9"', 'x eq "abc', 'x eq abc"', 'x in [1,2]', 'x in [1, 2]', 'x in [1 ,2]', 'x in [1,  2]', 'x in []', 'x in [1,]',
    'x in [1,2.5]', 'x in [-1]', 'x in ["a",1]', 'x in [ 1]', 'x in [1 ]', '(x eq 1)', '( x eq 1 )', '(  x eq 1)', '((x eq 1))', '( (x eq 1))',
    '(  (x eq 1))', '(   (x eq 1))', '( not (x eq 1))', '(  not (x eq 1))', 'not(x eq 1)', 'not (x eq 1)', 'not  (x eq 1)', 'NOT (x eq 1)', 'Not (x eq 1)',
    'not not (x eq 1)', 'not (not (x eq 1))', 'x eq 1 and y eq 2 or z eq 3', 'x eq 1 and (y eq 2 or z eq 3)', 'x eq 1 and  (y eq 2)', 'x eq 1 and   (y eq 2)',
    'x eq 1 and not (y eq 2)', 'x eq 1 andnot (y eq 2)', 'x eq 1 and not(y eq 2)', 'x eq 1 \nand y eq 2', 'x eq 1 \n\n and y eq 2', 'x eq 1\nand y eq 2',
    'x eq 1 and\ny eq 2', ' x eq 1', 'x eq 1 ', 'x eq 1\n', '\tx eq 1', 'x eq 1 \n', ' x eq 1 ', 'x eq 1', 'x eq true', 'x eq TRUE', 'x eq True',
    'x eq null', 'x eq NULL', 'x EQ 1', 'x Eq 1', 'x == 1', 'x = 1', 'x != 1', 'x ! = 1', 'x in 1', 'x IN [1]', 'x In [1]', 'x co "a"', 'x CO "a"', 'x Co "a"',
    'x eq 1 and y', 'x and y', 'x eq 1 and and y eq 2', 'x eq 1 or or y eq 2', '()', '( )', 'not ()', 'x eq (1)', 'x eq 1.0e5', 'x eq 1.0e', 'x eq 1.e5',
    'x eq 1 \r\nand y eq 2', 'x eq 1 or \r\ny eq 2', 'x eq \r\n1', 'x \r\n\r\npr', 'x eq 1 \rand y eq 2', 'x eq 1\r\n', '\r\nx eq 1', 'x eq 1 \n\rand y eq 2', 'not ( \r\nx eq 1 \r\n)',
    'x eq 1 \tand y eq 2', 'x\teq 1', 'x eq 1 \x0cand y eq 2', 'x eq 1 \x0band y eq 2', 'x\u00a0eq 1', 'x eq 1 \u2028and y eq 2', 'x eq 1 \u0085and y eq 2', 'x eq\n1', 'x eq 1\nand y eq 2',
    'x eq 0.5', 'x eq .5', 'x eq 00.5', 'x eq 0', 'x eq 00', 'x eq -0', 'x eq 0.0.0', 'x eq 1.02.3', 'x.y.z.w pr', 'x.y. pr', '.x pr', 'x pr pr', 'x eq 1 pr',
]

# look-alikes of the grammar's characters (typographic quotes, full-width forms, invisible characters, BOM)
CONFUSABLES = ['x eq \u201cabc\u201d', 'x eq \u2018a\u2019', 'x in [\u201ca\u201d,"b"]', '\uff08x eq 1\uff09', 'x eq \uff11', 'x\u3000eq 1', 'x \uff45\uff51 1', 'x eq 1 \uff21\uff2e\uff24 y eq 2',
               'x eq 1 and\u00a0y eq 2', 'x \u2260 1', 'x \u2265 1', 'x \u2264 1', 'x eq \u22121', 'x eq 1\u200b', 'x\u200b eq 1', 'x eq "a\u201d', '\u201cx\u201d eq 1', 'x eq 1 \u2227 y eq 2',
               'x in \uff3b1,2\uff3d', 'x in [1\uff0c2]', 'x eq 1\uff0e5', 'x.y eq 1'.replace('.', '\u3002'), 'x eq true'.replace('t', '\u0442'), 'n\u043et (x eq 1)', '\ufeffx eq 1', 'x eq 1\ufeff',
               '\ufeff(x eq 1)', '\ufffex eq 1', '\u2060x eq 1', '\u00adx eq 1']
FOREIGN = ['a eq "\\ud800"', 'a in ["ok","\\ud83d"]', 'a eq "\\ud83dx\\ude00"', 'a eq "\\udfff"', 'a eq "\\ud83d\\ude00"', 'a eq "\\u0000"', 'a eq "\\uFFFF"', 'a eq e+5', 'a gt E+12', 'a in e+0', 'a eq e5', 'a eq E-5', 'a eq 1e5', 'a eq -2E10', 'e5 eq 1', 'a.e7 eq "x"', 'E10 pr', 'e+5 eq 1',
           '"x eq 1"', '"name eq \\"bob\\""', "'x eq 1'", '`x eq 1`', 'x <> 2', 'y <> 1 and x eq 1', '(s <> "abd")', 'not (x <> 3 and x <> 1)', 'x = 2', 'x === 2', 'x =< 2', 'x => 2', 'x !== 2', 'x ~= 2', 'x && y', 'x eq 1 && y eq 2', 'x eq 1 || y eq 2',
           'x eq 1 & y eq 2', 'x eq 1 | y eq 2', '!x', '!(x eq 1)', 'x is null', 'x is not null', 'x like "a"', 'x contains "a"', 'x not in [1]', 'x between 1 and 2', 'x eq 1 xor y eq 2', 'x >< 2', 'x <=> 2',
           'x \u2264 2', 'x \u2260 2', 'x \u2265 2', 'x eq 1 // the default tier', 'x eq 1//', '// note\nx eq 1', 'x eq 1 //\nand y eq 2', 'x eq 1 # c', '# c\nx eq 1', 'x eq 1 -- c', '/* c */ x eq 1', 'x eq 1 /* c */',
           'x eq /* c */ 1', 'x eq 1;', 'x eq 1; y eq 2', 'x eq 1, y eq 2', 'x eq 1 y eq 2', 'x eq 1 and\ty eq 2', 'x eq 1 AND\ny eq 2', 'x eq 1 and and y eq 2', 'x eq eq 1', 'x 1', 'eq 1', '1 eq x', '"a" eq x', 'x eq y',
           'x eq x', 'x.y.z', 'x pr pr', 'pr x', 'x pr eq 1', 'x in 1', 'x in (1, 2)', 'x in {1, 2}', 'x in [1; 2]', 'x in [1 2]', 'x in [1,,2]', 'x in [,1]', 'x in [[1]]', 'x eq [1', 'x eq 1]', 'x eq +1', 'x eq --1', 'x eq 1_000',
           'x eq 1,5', 'x eq 0x10', 'x eq 1e', 'x eq .5', 'x eq 5.', 'x eq 1.2.3.4', 'x eq v1.2.3', 'x eq 1.2', 'x eq 1.2.x', "x eq 'a'", 'x eq `a`', 'x eq "a" "b"', 'x eq "a"b', 'x eq a"b"', 'x eq True', 'x eq NULL', 'x eq nil',
           'x eq none', 'x eq undefined', 'x eq NaN', 'x eq Infinity', 'x eq -Infinity', 'x eq 1 and (y eq 2', 'x eq 1 and y eq 2)', '((x eq 1)', '(x eq 1))', '()', '( )', 'not ()', 'not', 'and', 'x and y', 'x or y', 'not x',
           'not not (x eq 1)', 'not(x eq 1)', 'NOT(x eq 1)', 'not  (x eq 1)', 'x eq 1 and not y eq 2', 'x eq 1 or not (y eq 2) and']
FIXED_TEXTS += FOREIGN
FIXED_TEXTS += CONFUSABLES

# reserved words in attribute-path positions (after a dot, before a dot, as the whole name, as a prefix)
KEYWORDS = ['pr', 'not', 'NOT', 'and', 'or', 'true', 'false', 'null', 'in', 'IN', 'eq', 'EQ', 'ne', 'NE', 'gt', 'GT', 'lt', 'LT', 'ge', 'GE',
            'le', 'LE', 'co', 'CO', 'sw', 'SW', 'ew', 'EW',
            # spelled like keywords but ordinary names (capitals of and / or / pr / true / false / null, mixed case), and names that contain one as a segment
            'AND', 'OR', 'PR', 'TRUE', 'FALSE', 'NULL', 'And', 'Or', 'Pr', 'True', 'False', 'Null', 'Not', 'In', 'Eq', 'nOT', 'iN', 'X-OR', 'db:NULL', 'a_AND', 'OR-x', 'TRUE:x', 'x-or', 'is-null', 'not-x', 'in:x', 'x:in', 'pr-1']
for _k in KEYWORDS:
    FIXED_TEXTS += ['a.%s eq 1' % _k, 'a.%s pr' % _k, '%s.a eq 1' % _k, 'a.%s.b pr' % _k, 'a.%sx eq 1' % _k, 'a.x%s pr' % _k, '%s eq 1' % _k,
                    'a.%s eq 1 and b pr' % _k, '(a.%s pr)' % _k, 'a eq 1 or b.%s in [1]' % _k]

# ----------------------------------------------------------------------------
# corpus: the inputs of every defect found so far (fixed entries of known_findings.json stay here)
# ----------------------------------------------------------------------------
CORPUS = [
    ('y == 1 and x.a == 1', obj({'y': I(1)})), ('x.a.b == 1 or z == 1', obj({'z': I(1)})), ('y eq 1 and x.y pr', obj({'y': I(1)})),
    ('x.a == 1 and y == 1', obj({'y': I(1)})),
    ('x eq 1', obj({'x': F(1.7)})), ('x gt 1', obj({'x': F(1.7)})), ('x lt 0', obj({'x': F(-0.5)})), ('x lt 1', obj({'x': F(float('nan'))})),
    ('x lt 5', obj({'x': F(float('inf'))})), ('x eq 2', obj({'x': F(2.0)})),
    ('x eq 1 AND y eq 2', obj({'x': I(1), 'y': I(2)})), ('x eq 1 garbage', obj({'x': I(1)})), ('x lt 1e5', obj({'x': I(0)})), ('x eq 01', obj({'x': I(1)})),
    ('not x eq 1', obj({'x': I(2)})), ('x eq 1\n and y eq 2', obj({'x': I(1), 'y': I(2)})), ('(x eq 1', obj({'x': I(1)})), ('x eq 1)', obj({'x': I(1)})),
    (' x eq 1\n', obj({'x': I(1)})),
    ('a gt null or b le "bc" or k in [1]', obj({})), ('a gt null or b eq 99999999999999999999', obj({})), ('not (a gt null) and b eq 99999999999999999999', obj({})),
    ('x in [1,2]', obj({})), ('x in ["a"]', obj({})), ('x in [1.5]', obj({})), ('x eq 1.2.3', obj({})), ('x eq 1.0e999', obj({})),
    ('x in [1,2]', obj({'x': F(1.0)})), ('x in [1,2]', obj({'x': ('i64', 2)})), ('x in [1,2]', obj({'x': ('i32', 1)})), ('x in ["ABC"]', obj({'x': S('abc')})),
    ('x le 1.5', obj({'x': S('s')})), ('x lt 1.5', obj({'x': S('s')})),
    ('x eq "a"', obj({'x': ('strselfpanic',)})), ('x eq 1', obj({'x': ('strselfpanic',)})),
]
