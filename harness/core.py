"""core.py — case representation, rule rendering, running implementation and model.

Nothing in this file decides a property: it builds inputs, runs the Go driver
(/repo through its exported API) and the extracted Coq model on the same case
file, and returns both observation tables.
"""
import os, struct, subprocess, sys, time, random, json, shutil, hashlib

VERIF = os.path.dirname(os.path.dirname(os.path.abspath(__file__)))
REPO = os.environ.get('VERIF_REPO', '/repo')
DRIVER = os.path.join(VERIF, 'driver', 'driver')
RUNNER = os.path.join(VERIF, 'runner', 'runner')
NCPU = min(16, os.cpu_count() or 4)

# ----------------------------------------------------------------------------
# values (attribute values of input objects)
# ----------------------------------------------------------------------------
NAN_BITS = 0x7ff8000000000001

def fbits(x):
    if isinstance(x, int):
        return x
    if x != x:
        return NAN_BITS
    return struct.unpack('>Q', struct.pack('>d', x))[0]

def hx(b):
    if isinstance(b, str):
        b = b.encode('utf-8')
    return 'x' + b.hex()

def val_sx(v):
    t = v[0]
    if t in ('nil', 'strpanic', 'strnilptr', 'strselfpanic', 'strpanicinvop', 'strpanicinvopw', 'nilmap'):
        return t
    if t == 'b':
        return '(b %d)' % (1 if v[1] else 0)
    if t in ('i', 'i32', 'i64'):
        return '(%s %d)' % (t, v[1])
    if t == 'f':
        return '(f %d)' % fbits(v[1])
    if t in ('s', 'str', 'strptr', 'jnum', 'strslice', 'strreent', 'strsame', 'strtm', 'strmut', 'strbig', 'strkeep', 'strslow', 'strver', 'strverptr'):
        return '(%s %s)' % (t, hx(v[1]))
    if t == 'o':
        return '(o %d)' % v[1]
    if t == 'm':
        return '(m' + ''.join(' (%s %s)' % (hx(k), val_sx(x)) for k, x in v[1]) + ')'
    raise ValueError(v)

def obj(d):
    """python dict (str/bytes keys -> value tuples or nested dicts) -> ('m', [...])"""
    items = []
    for k, v in d.items():
        if isinstance(v, dict):
            v = obj(v)
        items.append((k.encode() if isinstance(k, str) else k, v))
    return ('m', items)

def val_desc(v):
    """short human-readable description for evidence samples"""
    t = v[0]
    if t == 'm':
        return '{' + ', '.join('%s: %s' % (k.decode('utf-8', 'replace'), val_desc(x)) for k, x in v[1]) + '}'
    if t == 'f':
        x = v[1]
        if isinstance(x, int):
            x = struct.unpack('>d', struct.pack('>Q', x))[0]
        return 'float64(%r)' % x
    if t in ('s',):
        return repr(v[1].decode('utf-8', 'replace'))
    if t in ('str', 'strptr'):
        return 'Stringer(%r)' % v[1].decode('utf-8', 'replace')
    if t == 'o':
        return 'other#%d' % v[1]
    if t in ('i', 'i32', 'i64'):
        return '%s(%d)' % ({'i': 'int', 'i32': 'int32', 'i64': 'int64'}[t], v[1])
    if t == 'b':
        return 'true' if v[1] else 'false'
    return t

# ----------------------------------------------------------------------------
# rule ASTs and rendering
#   ('paren', neg, q) | ('logic', 'and'|'or', l, r) | ('pr', path) | ('cmp', path, op, value)
#   path = list of str ; value = (kind, payload)
#     ('bool', 'true'|'false') ('null',) ('version', text) ('string', text-without-quotes)
#     ('double', text) ('long', text) ('ints', [text]) ('doubles', [text]) ('strings', [text])
# ----------------------------------------------------------------------------
OP_SPELL = {
    'EQ': ['eq', 'EQ', '=='], 'NE': ['ne', 'NE', '!='], 'GT': ['gt', 'GT', '>'], 'LT': ['lt', 'LT', '<'],
    'GE': ['ge', 'GE', '>='], 'LE': ['le', 'LE', '<='], 'CO': ['co', 'CO'], 'SW': ['sw', 'SW'],
    'EW': ['ew', 'EW'], 'IN': ['in', 'IN'],
}
OPS = list(OP_SPELL)
REL = ['EQ', 'NE', 'GT', 'LT', 'GE', 'LE']

class Style:
    """layout / spelling choices; canonical when rng is None"""
    def __init__(self, rng=None, newlines=True):
        self.rng = rng
        self.newlines = newlines
    def pick(self, xs):
        return xs[0] if self.rng is None else self.rng.choice(xs)
    def sp(self):
        if self.rng is None or not self.newlines:
            return ' '
        return ' ' + '\n' * self.rng.choice([0, 0, 0, 1, 2])
    def osp(self):
        """optional SP"""
        if self.rng is None:
            return ''
        return self.rng.choice(['', '', self.sp()])
    def comma(self):
        if self.rng is None:
            return ','
        return ',' + ' ' * self.rng.choice([0, 0, 1, 3])

def render_value(v, st):
    k = v[0]
    if k == 'bool': return v[1]
    if k == 'null': return 'null'
    if k in ('version', 'double', 'long'): return v[1]
    if k == 'string': return '"' + v[1] + '"'
    if k in ('ints', 'doubles'):
        return '[' + st.comma().join(v[1]) + ']' if len(v[1]) < 2 else '[' + ''.join(x + st.comma() for x in v[1][:-1]) + v[1][-1] + ']'
    if k == 'strings':
        xs = ['"' + x + '"' for x in v[1]]
        return '[' + ''.join(x + st.comma() for x in xs[:-1]) + xs[-1] + ']'
    raise ValueError(v)

def render(q, st=None, top=True):
    st = st or Style()
    k = q[0]
    if k == 'pr':
        return '.'.join(q[1]) + st.sp() + 'pr'
    if k == 'cmp':
        return '.'.join(q[1]) + st.sp() + st.pick(OP_SPELL[q[2]]) + st.sp() + render_value(q[3], st)
    if k == 'paren':
        # NOT? SP? '(' SP? query SP? ')' : every combination of the optional blanks
        # is a sentence (the inner query may itself start with its own optional SP)
        if q[1]:
            s = st.pick(['not', 'NOT']) + (' ' if st.rng is None else st.osp())
        else:
            s = st.osp()
        return s + '(' + st.osp() + render(q[2], st, top=False) + st.osp() + ')'
    if k == 'logic':
        l = render(q[2], st, top=top)
        r = q[3]
        if r[0] == 'logic':
            r = ('paren', False, r)   # the grammar reads chains left-associatively
        return l + st.sp() + q[1] + st.sp() + render(r, st, top=False)
    raise ValueError(q)

def rule_desc(q):
    return render(q)

def leaves(q):
    k = q[0]
    if k in ('pr', 'cmp'): return [q]
    if k == 'paren': return leaves(q[2])
    return leaves(q[2]) + leaves(q[3])

def normalize(q):
    """what the grammar reads back from render(q): right-nested logic gets a paren"""
    k = q[0]
    if k in ('pr', 'cmp'): return q
    if k == 'paren': return ('paren', q[1], normalize(q[2]))
    r = normalize(q[3])
    if r[0] == 'logic':
        r = ('paren', False, r)
    return ('logic', q[1], normalize(q[2]), r)

# ----------------------------------------------------------------------------
# cases
# ----------------------------------------------------------------------------
class Case:
    __slots__ = ('id', 'kind', 'line', 'fam', 'meta')
    def __init__(self, id, kind, line, fam, meta=None):
        self.id, self.kind, self.line, self.fam, self.meta = id, kind, line, fam, meta or {}

class CaseSet:
    def __init__(self, prefix='c'):
        self.cases = []
        self.prefix = prefix
        self.by_id = {}
    def _add(self, kind, body, fam, meta):
        cid = '%s%d' % (self.prefix, len(self.cases))
        c = Case(cid, kind, '(%s %s %s)' % (kind, cid, body), fam, meta)
        self.cases.append(c)
        self.by_id[cid] = c
        return c
    def eval(self, rule, o, fam, **meta):
        """rule: str or bytes; o: ('m', ...)"""
        rb = rule.encode('utf-8') if isinstance(rule, str) else rule
        meta.setdefault('rule', rb)
        meta.setdefault('obj', o)
        return self._add('eval', '%s %s' % (hx(rb), val_sx(o)), fam, meta)
    def evals(self, rule, o, fam, **meta):
        """like eval, but deep-equal sub-objects of the input are one shared map value in the driver"""
        rb = rule.encode('utf-8') if isinstance(rule, str) else rule
        meta.setdefault('rule', rb)
        meta.setdefault('obj', o)
        c = self._add('evals', '%s %s' % (hx(rb), val_sx(o)), fam, meta)
        return c
    def syntax(self, text, fam, **meta):
        tb = text.encode('utf-8') if isinstance(text, str) else text
        meta.setdefault('text', tb)
        return self._add('syntax', hx(tb), fam, meta)
    def hist(self, rule, ops, fam, **meta):
        rb = rule.encode('utf-8') if isinstance(rule, str) else rule
        meta.setdefault('rule', rb)
        meta.setdefault('ops', ops)
        body = ' '.join('(%s %s)' % (o[0], val_sx(o[1])) if o[0] in ('p', 'q', 'u', 'n') else o[0] for o in ops)
        return self._add('hist', '%s (%s)' % (hx(rb), body), fam, meta)
    def simple(self, kind, arg, fam, **meta):
        meta.setdefault('arg', arg)
        return self._add(kind, arg, fam, meta)
    def opcall(self, optype, op, left, right_sx, fam, **meta):
        meta.update(optype=optype, op=op, left=left, right=right_sx)
        return self._add('opcall', '%s %s %s %s' % (optype, op, val_sx(left), right_sx), fam, meta)
    def __len__(self):
        return len(self.cases)

def case_desc(c):
    m = c.meta
    if c.kind in ('eval', 'evals'):
        return {'rule': m['rule'].decode('utf-8', 'replace'), 'object': val_desc(m['obj']), 'family': c.fam}
    if c.kind == 'syntax':
        return {'text': m['text'].decode('utf-8', 'replace'), 'family': c.fam}
    if c.kind == 'hist':
        return {'rule': m['rule'].decode('utf-8', 'replace'),
                'ops': [('Process ' + val_desc(o[1])) if o[0] == 'p' else ('Process (LastDebugErr not read afterwards) ' + val_desc(o[1])) if o[0] == 'n' else ('Process (same map value, mutated in place to) ' + val_desc(o[1])) if o[0] == 'q' else ('(the caller changes its object in place, no call, to) ' + val_desc(o[1])) if o[0] == 'u' else {'r': 'Reset', 'd': 'LastDebugErr'}[o[0]] for o in m['ops']],
                'family': c.fam}
    if c.kind == 'opcall':
        return {'call': '%sOperation.%s' % (m['optype'], m['op']), 'left': val_desc(m['left']), 'right': m['right'], 'family': c.fam}
    return {'kind': c.kind, 'arg': str(m.get('arg')), 'family': c.fam}

# ----------------------------------------------------------------------------
# running both sides
# ----------------------------------------------------------------------------
def parse_obs_line(line):
    line = line.rstrip('\n')
    tree = None
    if ' tree=' in line:
        line, tree = line.split(' tree=', 1)
    parts = line.split(' ')
    d = {}
    for p in parts[1:]:
        if '=' in p:
            k, v = p.split('=', 1)
            d[k] = v
        else:
            d[p] = True
    if tree is not None:
        d['tree'] = tree
    return parts[0], d

def _run_shard(cmd, infile, outfile, timeout, memlimit_kb, env=None):
    # the extracted model uses non-tail-recursive list functions: give it the whole stack it may need
    pre = 'ulimit -s unlimited 2>/dev/null; ulimit -v %d; ' % memlimit_kb if memlimit_kb else ''
    return subprocess.Popen(['bash', '-c', pre + 'exec "$0" "$1" "$2"', cmd, infile, outfile],
                            stdout=subprocess.DEVNULL, stderr=subprocess.PIPE, env=env)

class RunResult:
    def __init__(self):
        self.impl = {}
        self.model = {}
        self.model_raw = {}     # id -> the exact line the extracted runner printed
        self.crashes = []       # (side, shard, returncode, stderr tail, first missing case id)
        self.wall = 0.0

def run_cases(cases, workdir, nshards=None, timeout=900, label='cases', sides=('impl', 'model'), impl_env=None):
    """Runs the driver and the model runner over the cases (sharded, in parallel)."""
    t0 = time.time()
    os.makedirs(workdir, exist_ok=True)
    n = len(cases)
    res = RunResult()
    if n == 0:
        return res
    nshards = nshards or max(1, min(NCPU, n // 50 + 1))
    shards = [cases[i::nshards] for i in range(nshards)]
    procs = []
    for si, sh in enumerate(shards):
        inf = os.path.join(workdir, '%s.%d.in' % (label, si))
        with open(inf, 'w') as f:
            for c in sh:
                f.write(c.line + '\n')
        for side, cmd in (('impl', DRIVER), ('model', RUNNER)):
            if side not in sides:
                continue
            outf = os.path.join(workdir, '%s.%d.%s.out' % (label, si, side))
            if os.path.exists(outf):
                os.unlink(outf)
            # Go needs a large virtual address space: no ulimit -v for the driver
            p = _run_shard(cmd, inf, outf, timeout, 0 if side == 'impl' else 8 * 1024 * 1024,
                           env=(dict(os.environ, **impl_env) if impl_env and side == 'impl' else None))
            procs.append((side, si, sh, outf, p))
    deadline = time.time() + timeout
    for side, si, sh, outf, p in procs:
        try:
            _, err = p.communicate(timeout=max(1, deadline - time.time()))
            rc = p.returncode
        except subprocess.TimeoutExpired:
            p.kill()
            _, err = p.communicate()
            rc = -9
        table = res.impl if side == 'impl' else res.model
        got = 0
        if os.path.exists(outf):
            with open(outf, errors='replace') as f:
                for line in f:
                    if not line.strip():
                        continue
                    cid, d = parse_obs_line(line)
                    table[cid] = d
                    if side == 'model':
                        res.model_raw[cid] = line.rstrip('\n')
                    got += 1
        if rc != 0 or got != len(sh):
            first_missing = next((c.id for c in sh if c.id not in table), None)
            res.crashes.append((side, si, rc, (err or b'').decode('utf-8', 'replace')[-2000:], first_missing))
    res.wall = time.time() - t0
    return res

def newest_workdir(tag):
    d = os.path.join(VERIF, 'work', '%s-%d' % (tag, os.getpid()))
    if os.path.exists(d):
        shutil.rmtree(d)
    os.makedirs(d)
    return d
